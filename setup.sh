#!/bin/bash
# Offline, idempotent: make hypothesis (and atheris when a wheel fits) importable for /venv/bin/python,
# compile the tiny Java drivers. Nothing is fetched from a network.
cd "$(dirname "$0")"
export PIP_NO_INDEX=1
PY=/venv/bin/python
mkdir -p .deps .build evidence
if ! PYTHONPATH=.deps $PY -c "import hypothesis" 2>/dev/null; then
  /venv/bin/pip install --no-index --find-links /opt/veriftools/wheels --target .deps hypothesis >/dev/null 2>&1 \
   || $PY -m pip install --no-index --find-links /opt/veriftools/wheels --target .deps hypothesis || exit 1
fi
if ! PYTHONPATH=.deps $PY -c "import atheris" 2>/dev/null; then
  /venv/bin/pip install --no-index --find-links /opt/veriftools/wheels --target .deps atheris >/dev/null 2>&1 || echo "atheris not installable (optional)"
fi
if ls java/*.java >/dev/null 2>&1 && command -v javac >/dev/null; then
  javac -d .build java/*.java || exit 1
fi
PYTHONPATH=.deps $PY -c "import hypothesis; print('hypothesis', hypothesis.__version__)"
