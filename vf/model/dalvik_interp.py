"""Reference interpreter for the int/long subset of Dalvik bytecode (no androguard import).

Semantics typed from the "Dalvik bytecode" specification:
  * registers are 32 bits; a wide value occupies the pair (vN = low word, vN+1 = high word);
  * int arithmetic is 32-bit two's complement, long arithmetic 64-bit two's complement, overflow wraps;
  * div/rem truncate toward zero; a zero divisor throws java.lang.ArithmeticException; MIN / -1 == MIN, MIN % -1 == 0;
  * shift distances are masked: & 31 for int shifts, & 63 for long shifts (the distance of a long shift is an int register);
  * shr is arithmetic, ushr logical;
  * rsub-int vA, vB, #lit computes lit - vB;
  * cmp-long stores -1 / 0 / 1; if-test and if-testz compare signed 32-bit ints;
  * int-to-byte/short sign-extend the low 8/16 bits, int-to-char zero-extends the low 16 bits, int-to-long sign-extends,
    long-to-int keeps the low 32 bits;
  * const/high16 loads BBBB0000, const-wide/high16 BBBB000000000000, const-wide/16 and /32 sign-extend to 64 bits;
  * packed-switch / sparse-switch: payload offsets are relative to the address of the switch instruction; no match
    falls through to the next instruction;
  * method arguments arrive in the last `ins` registers, in order, a long taking two.

API
---
run(insns: bytes, regs: int, params: 'IJ..' types, args: [int], max_steps=200000)
    -> ('ret', signed int value, width 'I'|'J') | ('exc', 'java.lang.ArithmeticException')
    raises StepLimit when max_steps instructions were executed (harness safety), InterpError on anything outside
    the subset (unknown opcode, branch outside the code, ...).
"""
import struct

from vf.gen import dalvik_spec as ds

M32 = 0xffffffff
M64 = 0xffffffffffffffff
ARITH = 'java.lang.ArithmeticException'


class InterpError(Exception):
    pass


class StepLimit(Exception):
    pass


class _Throw(Exception):
    pass


def _s32(v):
    v &= M32
    return v - (1 << 32) if v & 0x80000000 else v


def _s64(v):
    v &= M64
    return v - (1 << 64) if v & (1 << 63) else v


def _tdiv(a, b):
    """truncating division of signed values, b != 0"""
    q = abs(a) // abs(b)
    return q if (a < 0) == (b < 0) else -q


def _binop(op, a, b, wide):
    """a, b signed; returns the signed result before wrapping (shifts: b is the raw distance)"""
    if op == 'add':
        return a + b
    if op == 'sub':
        return a - b
    if op == 'mul':
        return a * b
    if op == 'div':
        if b == 0:
            raise _Throw(ARITH)
        return _tdiv(a, b)
    if op == 'rem':
        if b == 0:
            raise _Throw(ARITH)
        return a - _tdiv(a, b) * b
    if op == 'and':
        return a & b
    if op == 'or':
        return a | b
    if op == 'xor':
        return a ^ b
    n = b & (63 if wide else 31)
    if op == 'shl':
        return a << n
    if op == 'shr':
        return a >> n
    if op == 'ushr':
        return (a & (M64 if wide else M32)) >> n
    raise InterpError('binop ' + op)


_IF = {'eq': lambda a, b: a == b, 'ne': lambda a, b: a != b, 'lt': lambda a, b: a < b,
       'ge': lambda a, b: a >= b, 'gt': lambda a, b: a > b, 'le': lambda a, b: a <= b}
_BIN = ('add', 'sub', 'mul', 'div', 'rem', 'and', 'or', 'xor', 'shl', 'shr', 'ushr')


def run(insns, regs, params, args, max_steps=200000):
    r = [None] * regs                 # None = undefined (reading it is an error of the generator)
    nin = sum(2 if t == 'J' else 1 for t in params)
    k = regs - nin
    for t, a in zip(params, args):
        if t == 'J':
            r[k] = a & M32
            r[k + 1] = (a >> 32) & M32
            k += 2
        else:
            r[k] = a & M32
            k += 1

    def gi(n):
        v = r[n]
        if v is None:
            raise InterpError('read of undefined register v%d' % n)
        return _s32(v)

    def gw(n):
        lo, hi = r[n], r[n + 1]
        if lo is None or hi is None:
            raise InterpError('read of undefined register pair v%d' % n)
        return _s64(lo | (hi << 32))

    def si(n, v):
        r[n] = v & M32

    def sw(n, v):
        v &= M64
        r[n] = v & M32
        r[n + 1] = v >> 32

    nunits = len(insns) // 2
    pc = 0
    steps = 0
    try:
        while True:
            steps += 1
            if steps > max_steps:
                raise StepLimit()
            if not 0 <= pc < nunits:
                raise InterpError('pc %d outside the code' % pc)
            op, f = ds.decode_fields(insns, 2 * pc)
            name = op.name
            size = ds.FORMATS[op.fmt].units
            nxt = pc + size
            if name == 'nop':
                pass
            elif name in ('move', 'move/from16', 'move/16'):
                d, s = _ab(f)
                si(d, gi(s))
            elif name in ('move-wide', 'move-wide/from16', 'move-wide/16'):
                d, s = _ab(f)
                sw(d, gw(s))
            elif name == 'return':
                return ('ret', gi(f['AA']), 'I')
            elif name == 'return-wide':
                return ('ret', gw(f['AA']), 'J')
            elif name == 'const/4':
                si(f['A'], f['B'])
            elif name == 'const/16':
                si(f['AA'], f['BBBB'])
            elif name == 'const':
                si(f['AA'], f['BBBBBBBB'])
            elif name == 'const/high16':
                si(f['AA'], f['BBBB'] << 16)
            elif name == 'const-wide/16':
                sw(f['AA'], f['BBBB'])
            elif name == 'const-wide/32':
                sw(f['AA'], f['BBBBBBBB'])
            elif name == 'const-wide':
                sw(f['AA'], f['BBBBBBBBBBBBBBBB'])
            elif name == 'const-wide/high16':
                sw(f['AA'], f['BBBB'] << 48)
            elif name in ('goto', 'goto/16', 'goto/32'):
                nxt = pc + (f['AA'] if name == 'goto' else f['AAAA'] if name == 'goto/16' else f['AAAAAAAA'])
            elif name == 'cmp-long':
                a, b = gw(f['BB']), gw(f['CC'])
                si(f['AA'], (a > b) - (a < b))
            elif name.startswith('if-') and name.endswith('z'):
                if _IF[name[3:-1]](gi(f['AA']), 0):
                    nxt = pc + f['BBBB']
            elif name.startswith('if-'):
                if _IF[name[3:]](gi(f['A']), gi(f['B'])):
                    nxt = pc + f['CCCC']
            elif name in ('packed-switch', 'sparse-switch'):
                v = gi(f['AA'])
                pp = pc + f['BBBBBBBB']
                if not 0 <= pp < nunits or pp % 2:
                    raise InterpError('switch payload at %d' % pp)
                ident, n = struct.unpack_from('<HH', insns, 2 * pp)
                if name == 'packed-switch':
                    if ident != ds.PAYLOAD_PACKED:
                        raise InterpError('bad packed payload ident')
                    first, = struct.unpack_from('<i', insns, 2 * pp + 4)
                    if first <= v < first + n:
                        nxt = pc + struct.unpack_from('<i', insns, 2 * pp + 8 + 4 * (v - first))[0]
                else:
                    if ident != ds.PAYLOAD_SPARSE:
                        raise InterpError('bad sparse payload ident')
                    keys = struct.unpack_from('<%di' % n, insns, 2 * pp + 4)
                    tg = struct.unpack_from('<%di' % n, insns, 2 * pp + 4 + 4 * n)
                    for kk, t in zip(keys, tg):
                        if kk == v:
                            nxt = pc + t
                            break
            elif name in ('neg-int', 'not-int'):
                a = gi(f['B'])
                si(f['A'], -a if name == 'neg-int' else ~a)
            elif name in ('neg-long', 'not-long'):
                a = gw(f['B'])
                sw(f['A'], -a if name == 'neg-long' else ~a)
            elif name == 'int-to-long':
                sw(f['A'], gi(f['B']))
            elif name == 'long-to-int':
                si(f['A'], gw(f['B']))
            elif name == 'int-to-byte':
                v = gi(f['B']) & 0xff
                si(f['A'], v - 0x100 if v & 0x80 else v)
            elif name == 'int-to-short':
                v = gi(f['B']) & 0xffff
                si(f['A'], v - 0x10000 if v & 0x8000 else v)
            elif name == 'int-to-char':
                si(f['A'], gi(f['B']) & 0xffff)
            elif name == 'rsub-int':
                si(f['A'], f['CCCC'] - gi(f['B']))
            elif name == 'rsub-int/lit8':
                si(f['AA'], f['CC'] - gi(f['BB']))
            else:
                parts = name.split('-', 1)
                bop = parts[0]
                rest = parts[1] if len(parts) > 1 else ''
                if bop not in _BIN:
                    raise InterpError('unsupported instruction ' + name)
                if rest == 'int':
                    si(f['AA'], _binop(bop, gi(f['BB']), gi(f['CC']), False))
                elif rest == 'long':
                    b = gi(f['CC']) if bop in ('shl', 'shr', 'ushr') else gw(f['CC'])
                    sw(f['AA'], _binop(bop, gw(f['BB']), b, True))
                elif rest == 'int/2addr':
                    si(f['A'], _binop(bop, gi(f['A']), gi(f['B']), False))
                elif rest == 'long/2addr':
                    b = gi(f['B']) if bop in ('shl', 'shr', 'ushr') else gw(f['B'])
                    sw(f['A'], _binop(bop, gw(f['A']), b, True))
                elif rest == 'int/lit16':
                    si(f['A'], _binop(bop, gi(f['B']), f['CCCC'], False))
                elif rest == 'int/lit8':
                    si(f['AA'], _binop(bop, gi(f['BB']), f['CC'], False))
                else:
                    raise InterpError('unsupported instruction ' + name)
            pc = nxt
    except _Throw as t:
        return ('exc', str(t))


def _ab(f):
    if 'A' in f:
        return f['A'], f['B']
    if 'AA' in f:
        return f['AA'], f['BBBB']
    return f['AAAA'], f['BBBB']
