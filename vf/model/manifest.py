"""Reference model of what an AndroidManifest.xml *declares* (never imports androguard).

The rules are Android's own (frameworks/base, android.content.pm.PackageParser / ParsingPackageUtils and the
manifest documentation), restated here:

* component-name completion  (PackageParser.buildClassName): for the android:name of an <activity>,
  <activity-alias>, <service>, <receiver>, <provider>
      name starts with '.'          -> package + name
      name contains no '.' at all   -> package + '.' + name
      otherwise                     -> name unchanged (fully qualified)
  Names of permissions, features and libraries are *not* class names: they are used verbatim.
* main (launcher) activity: an <activity> or <activity-alias> that is not android:enabled="false" and has an
  <intent-filter> containing both <action android:name="android.intent.action.MAIN"> and
  <category android:name="android.intent.category.LAUNCHER">  (same filter: an Intent must match ONE filter).
* <uses-sdk>: minSdkVersion defaults to 1; targetSdkVersion defaults to minSdkVersion ("If not set, the default value
  equals that given to minSdkVersion", uses-sdk-element documentation) -> effective target = target, else min, else 1.
* requested permissions: the set of android:name values of the <uses-permission> children of <manifest>
  (Android ignores a repeated request); each request may carry android:maxSdkVersion.

Manifest model (plain dict, JSON-able; this is what vf/gen/manifestgen.py draws and serialises):
  {'package': str,
   'version_code': int|None, 'version_name': str|None,
   'uses_sdk': None | {'min': int|None, 'target': int|None, 'max': int|None},
   'permissions': [{'name': str, 'max_sdk': int|None}, ...]          (document order, duplicates allowed)
   'features': [{'name': str|None, 'required': bool|None, 'gles': int|None}, ...]
   'libraries': [{'name': str, 'required': bool|None}, ...]
   'components': [{'kind': 'activity'|'activity-alias'|'service'|'receiver'|'provider',
                   'name': str (as written), 'enabled': bool|None, 'exported': bool|None,
                   'target': str|None (activity-alias), 'authorities': str|None (provider),
                   'filters': [{'actions': [str], 'categories': [str], 'data': [str scheme]}, ...]}, ...]}
"""
from collections import Counter

ACTION_MAIN = 'android.intent.action.MAIN'
CATEGORY_LAUNCHER = 'android.intent.category.LAUNCHER'
KINDS = ('activity', 'activity-alias', 'service', 'receiver', 'provider')


def complete_name(package, name):
    """PackageParser.buildClassName"""
    if not name:
        raise ValueError('empty component name')
    if name[0] == '.':
        return package + name
    if '.' not in name:
        return package + '.' + name
    return name


def name_form(name):
    """'rel' (.Foo) | 'bare' (Foo) | 'fq' (a.b.Foo)"""
    if name[0] == '.':
        return 'rel'
    return 'bare' if '.' not in name else 'fq'


def components(m, kind):
    """completed names of all components of one kind, document order (a multiset for comparison purposes)"""
    return [complete_name(m['package'], c['name']) for c in m['components'] if c['kind'] == kind]


def filter_is_launcher(f):
    return ACTION_MAIN in f['actions'] and CATEGORY_LAUNCHER in f['categories']


def is_main(c):
    if c['kind'] not in ('activity', 'activity-alias'):
        return False
    if c.get('enabled') is False:
        return False
    return any(filter_is_launcher(f) for f in c['filters'])


def split_main_launcher(c):
    """True when MAIN and LAUNCHER both occur among the filters of c but never in one filter: the case the property
    statement does not fix (generators must not produce it)."""
    has_main = any(ACTION_MAIN in f['actions'] for f in c['filters'])
    has_launcher = any(CATEGORY_LAUNCHER in f['categories'] for f in c['filters'])
    return has_main and has_launcher and not any(filter_is_launcher(f) for f in c['filters'])


def main_activities(m):
    """set of completed names"""
    return {complete_name(m['package'], c['name']) for c in m['components'] if is_main(c)}


def sdk(m, which):
    u = m.get('uses_sdk')
    return None if not u else u.get(which)


def effective_target_sdk(m):
    t = sdk(m, 'target')
    if t is not None:
        return t
    mn = sdk(m, 'min')
    if mn is not None:
        return mn
    return 1


def permission_names(m):
    """requested permission names without duplicates, first-occurrence order"""
    out = []
    for p in m['permissions']:
        if p['name'] not in out:
            out.append(p['name'])
    return out


def permission_requests(m):
    """set of (name, maxSdkVersion|None) pairs the manifest declares"""
    return {(p['name'], p['max_sdk']) for p in m['permissions']}


def has_duplicate_permission(m):
    return any(n > 1 for n in Counter(p['name'] for p in m['permissions']).values())


def features(m):
    return [f['name'] for f in m['features'] if f.get('name') is not None]


def libraries(m):
    return [l['name'] for l in m['libraries']]


def expected(m):
    """everything the property statement talks about, as plain data"""
    return {
        'package': m['package'],
        'version_code': m['version_code'],
        'version_name': m['version_name'],
        'permissions': permission_names(m),
        'permission_requests': sorted(permission_requests(m), key=repr),
        'activities': components(m, 'activity'),
        'services': components(m, 'service'),
        'receivers': components(m, 'receiver'),
        'providers': components(m, 'provider'),
        'main_activities': sorted(main_activities(m)),
        # launcher entries that are real <activity> elements (not aliases)
        'main_declared_activities': sorted({complete_name(m['package'], c['name']) for c in m['components']
                                            if is_main(c) and c['kind'] == 'activity'}),
        'min_sdk': sdk(m, 'min'), 'target_sdk': sdk(m, 'target'), 'max_sdk': sdk(m, 'max'),
        'effective_target_sdk': effective_target_sdk(m),
        'features': features(m),
        'libraries': libraries(m),
    }


def well_formed(m):
    """the generator's contract (checked once per case by the check; a violation is a harness error)"""
    pkg = m['package']
    if '.' not in pkg or pkg[0] == '.' or pkg[-1] == '.' or '..' in pkg:
        return 'package name'
    seen = set()
    for c in m['components']:
        if c['kind'] not in KINDS or not c['name']:
            return 'component'
        full = complete_name(pkg, c['name'])
        if full in seen:
            return 'duplicate component name %s' % full
        seen.add(full)
        if split_main_launcher(c):
            return 'MAIN and LAUNCHER split over two filters'
    for p in m['permissions']:
        if not p['name']:
            return 'permission'
    return None
