"""Reference model for reaching definitions / use-def chains by explicit path search.
Never imports androguard.

Program model
* blocks: list of basic blocks; a block is a list of instructions (uses, lhs): `uses` the registers read,
  `lhs` the register written (or None).  An instruction reads its operands before it writes its result.
* succ[i]: successor blocks of block i (normal and exception edges alike; an edge leaves from the *end*
  of the block).  entry: index of the entry block.
* params: registers holding the method parameters; parameter j is a definition of params[j] located
  immediately before the first instruction of the entry block.

A definition d of register r *reaches* a use of r at instruction u when some path in the graph leads from
just after d to just before u without passing another instruction that writes r.

Definitions are identified as ('p', j) (parameter j) or ('i', block, index); uses as (block, index).
`use_def` searches forward from every definition, `use_def_backward` searches backward from every use;
the two must agree (they are two readings of the same definition).
"""


def use_def(blocks, succ, entry, params):
    """{(reg, (block, index)): set of definitions reaching that use}; only non-empty sets are present."""
    ud = {}

    def walk_block(b, start, reg, d):
        """scan block b from instruction `start`; True when the end of the block is reached un-killed."""
        ins = blocks[b]
        for k in range(start, len(ins)):
            uses, lhs = ins[k]
            if reg in uses:
                ud.setdefault((reg, (b, k)), set()).add(d)
            if lhs == reg:
                return False
        return True

    defs = [(reg, ('p', j), entry, 0) for j, reg in enumerate(params)]
    for b, ins in enumerate(blocks):
        for k, (uses, lhs) in enumerate(ins):
            if lhs is not None:
                defs.append((lhs, ('i', b, k), b, k + 1))
    for reg, d, b, start in defs:
        work = list(succ[b]) if walk_block(b, start, reg, d) else []
        seen = set()
        while work:
            m = work.pop()
            if m in seen:
                continue
            seen.add(m)
            if walk_block(m, 0, reg, d):
                work.extend(succ[m])
    return ud


def use_def_backward(blocks, succ, entry, params):
    """Same relation computed from the uses: walk backwards until a write of the register is met."""
    n = len(blocks)
    pred = {i: [] for i in range(n)}
    for a in range(n):
        for b in succ[a]:
            if a not in pred[b]:
                pred[b].append(a)

    def last_def_before(b, end, reg):
        for k in range(end - 1, -1, -1):
            if blocks[b][k][1] == reg:
                return ('i', b, k)
        return None

    ud = {}
    for b, ins in enumerate(blocks):
        for k, (uses, lhs) in enumerate(ins):
            for reg in set(uses):
                found = set()
                d = last_def_before(b, k, reg)
                if d is not None:
                    found.add(d)
                else:
                    # the top of block b is reached un-killed: look at what flows into it
                    seen_tops = set()
                    tops = [b]
                    while tops:
                        t = tops.pop()
                        if t in seen_tops:
                            continue
                        seen_tops.add(t)
                        if t == entry:
                            for j, preg in enumerate(params):
                                if preg == reg:
                                    found.add(('p', j))
                        for p in pred[t]:
                            dp = last_def_before(p, len(blocks[p]), reg)
                            if dp is not None:
                                found.add(dp)
                            else:
                                tops.append(p)
                if found:
                    ud[(reg, (b, k))] = found
    return ud


def invert(ud):
    """def-use chains: {(reg, definition): set of uses}."""
    du = {}
    for (reg, use), ds in ud.items():
        for d in ds:
            du.setdefault((reg, d), set()).add(use)
    return du
