"""Reference model: dominators, DFS edge classification and the reverse-post-order validity
predicate on plain digraphs (nodes 0..n-1, successor lists). Written from the textbook
definitions; never imports androguard.

Definitions used
* reachable: x is reachable when a path entry ->* x exists.
* d dominates x (both reachable): every path entry ->* x contains d.  Every node dominates itself.
* idom(x), x != entry: the strict dominator of x that is dominated by every other strict dominator
  of x (exists and is unique for reachable x != entry); the entry has none.
* Two independent ways to obtain Dom are provided: the iterative data-flow solution
  Dom(entry) = {entry}, Dom(x) = {x} | AND_{p in preds(x)} Dom(p)   (maximal fixed point), and the
  literal definition "x is not reachable from entry once d is deleted".
"""


def succ_lists(n, edges):
    """edges: iterable of (a, b[, kind]).  Returns {a: [b, ...]} without duplicates, insertion order."""
    succ = {i: [] for i in range(n)}
    for e in edges:
        a, b = e[0], e[1]
        if b not in succ[a]:
            succ[a].append(b)
    return succ


def reachable(succ, entry, removed=None):
    """Nodes reachable from entry (list, DFS discovery order), optionally with one node deleted."""
    if removed == entry:
        return []
    seen = {entry}
    order = [entry]
    stack = [entry]
    while stack:
        x = stack.pop()
        for y in succ[x]:
            if y not in seen and y != removed:
                seen.add(y)
                order.append(y)
                stack.append(y)
    return order


def dominators(succ, entry):
    """Iterative set-based solution.  Returns {x: set of dominators of x} for reachable x."""
    reach = reachable(succ, entry)
    rset = set(reach)
    pred = {x: [] for x in reach}
    for p in reach:
        for x in succ[p]:
            if x in rset and p not in pred[x]:
                pred[x].append(p)
    dom = {x: set(rset) for x in reach}
    dom[entry] = {entry}
    changed = True
    while changed:
        changed = False
        for x in reach:
            if x == entry:
                continue
            ps = pred[x]
            new = set(dom[ps[0]])
            for p in ps[1:]:
                new &= dom[p]
            new.add(x)
            if new != dom[x]:
                dom[x] = new
                changed = True
    return dom


def dominators_by_removal(succ, entry):
    """Literal definition: d dominates x iff x is unreachable from entry when d is deleted (or d == x)."""
    reach = reachable(succ, entry)
    dom = {x: {x} for x in reach}
    for d in reach:
        still = set(reachable(succ, entry, removed=d))
        for x in reach:
            if x != d and x not in still:
                dom[x].add(d)
    return dom


def idom_from_dom(dom, entry):
    idom = {}
    for x, ds in dom.items():
        if x == entry:
            idom[x] = None
            continue
        strict = ds - {x}
        cands = [d for d in strict if all(o in dom[d] for o in strict)]
        if len(cands) != 1:
            raise AssertionError('model error: node %r has %d immediate-dominator candidates' % (x, len(cands)))
        idom[x] = cands[0]
    return idom


def immediate_dominators(succ, entry):
    return idom_from_dom(dominators(succ, entry), entry)


def dfs(succ, entry):
    """Depth-first search visiting successors in list order.
    Returns (parent, pre, post, kinds) with kinds[(a, b)] in {'tree','back','forward','cross'} for every
    edge between reachable nodes (a self-loop is a back edge)."""
    parent = {entry: None}
    pre, post = {}, {}
    kinds = {}
    clock = [0, 0]
    onstack = set()
    # iterative DFS to stay clear of the recursion limit on 300-node ladders
    pre[entry] = clock[0] = 1
    onstack.add(entry)
    stack = [(entry, iter(succ[entry]))]
    while stack:
        x, it = stack[-1]
        advanced = False
        for y in it:
            if y not in pre:
                parent[y] = x
                kinds[(x, y)] = 'tree'
                clock[0] += 1
                pre[y] = clock[0]
                onstack.add(y)
                stack.append((y, iter(succ[y])))
                advanced = True
                break
            if (x, y) in kinds:
                continue
            if y in onstack:
                kinds[(x, y)] = 'back'
            elif pre[y] > pre[x]:
                kinds[(x, y)] = 'forward'
            else:
                kinds[(x, y)] = 'cross'
        if not advanced:
            stack.pop()
            onstack.discard(x)
            clock[1] += 1
            post[x] = clock[1]
    return parent, pre, post, kinds


def is_reducible(succ, entry, dom=None, kinds=None):
    """Reducible iff the target of every DFS back edge dominates its source."""
    if dom is None:
        dom = dominators(succ, entry)
    if kinds is None:
        kinds = dfs(succ, entry)[3]
    return all(b in dom[a] for (a, b), k in kinds.items() if k == 'back')


def rpo_problems(n, succ, entry, num, order=None):
    """Validity predicate for a reverse-post-order numbering of a graph whose n nodes are all reachable.

    num: {node: number}.  order: the node list claimed to be sorted by number (optional).
    Returns a list of (clause, detail) problems, empty when the numbering is acceptable:
      entry   - the entry is numbered 1
      perm    - the numbers are a permutation of 1..n
      sorted  - `order` lists every node exactly once by increasing number
      retreat - an edge u->v with num[u] >= num[v] does not close a cycle: there is no path v ->* u that
                uses only advancing edges (num strictly increasing).  In any numbering obtained from a
                depth-first search, a retreating edge goes to a DFS ancestor and the tree path from that
                ancestor advances, so a true RPO never trips this clause; conversely an edge that retreats
                without closing such a cycle is a forward/cross/tree edge whose source is not numbered
                lower than its target.
    """
    probs = []
    if num.get(entry) != 1:
        probs.append(('entry', 'entry numbered %r' % (num.get(entry),)))
    vals = sorted(num[x] for x in range(n)) if all(isinstance(num.get(x), int) for x in range(n)) else None
    if vals != list(range(1, n + 1)):
        probs.append(('perm', 'numbers %r are not a permutation of 1..%d' % ([num.get(x) for x in range(n)], n)))
        return probs
    if order is not None:
        if sorted(order) != list(range(n)) or [num[x] for x in order] != list(range(1, n + 1)):
            probs.append(('sorted', 'rpo list %r is not the nodes sorted by number' % (order,)))
    adv = {x: [y for y in succ[x] if num[x] < num[y]] for x in range(n)}
    memo = {}

    def reach_adv(a):
        if a not in memo:
            seen = {a}
            stack = [a]
            while stack:
                x = stack.pop()
                for y in adv[x]:
                    if y not in seen:
                        seen.add(y)
                        stack.append(y)
            memo[a] = seen
        return memo[a]

    for u in range(n):
        for v in succ[u]:
            if num[u] >= num[v] and u not in reach_adv(v):
                probs.append(('retreat', 'edge %d->%d retreats (%d -> %d) without closing a cycle' % (u, v, num[u], num[v])))
    return probs
