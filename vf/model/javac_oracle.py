"""Ground truth for Java string literals: javac + the JVM, through the driver java/LitUnits.java.
No androguard import. One JVM per JavacOracle; javac runs in-process inside that JVM (javax.tools), so a
whole shard costs a single JVM start.

    with JavacOracle() as jo:
        res = jo.query([literal_text, ...])      # -> [('OK', [units]) | ('NOTLIT', None) | ('ERR', code)]
"""
import os
import shutil
import subprocess
import tempfile

from vf.core.runner import HarnessError, VERIF
from vf.model.jls_string import utf16_units

DRIVER_SRC = os.path.join(VERIF, 'java', 'LitUnits.java')
BUILD = os.path.join(VERIF, '.build')


class JavacOracle:
    def __init__(self):
        self.tmp = None
        self.proc = None
        self.err = None
        if shutil.which('java') is None or shutil.which('javac') is None:
            raise HarnessError('java/javac not on PATH (needed for the C23 javac oracle)')
        cls = os.path.join(BUILD, 'LitUnits.class')
        if os.path.exists(cls) and os.path.getmtime(cls) >= os.path.getmtime(DRIVER_SRC):
            cp = BUILD
        else:                      # setup.sh not run (or driver edited): compile on demand into a private temp dir
            self.tmp = tempfile.mkdtemp(prefix='vf-c23-javac-')
            r = subprocess.run(['javac', '-nowarn', '-d', self.tmp, DRIVER_SRC], capture_output=True, text=True)
            if r.returncode != 0:
                self.close()
                raise HarnessError('javac failed on %s:\n%s' % (DRIVER_SRC, r.stderr[-2000:]))
            cp = self.tmp
        self.err = tempfile.TemporaryFile()
        self.proc = subprocess.Popen(['java', '-Xmx768m', '-XX:+UseSerialGC', '-XX:TieredStopAtLevel=1', '-Xshare:auto', '-cp', cp, 'LitUnits'], stdin=subprocess.PIPE,
                                     stdout=subprocess.PIPE, stderr=self.err, text=True, encoding='ascii')
        first = self.proc.stdout.readline().strip()
        if first != 'READY':
            msg = self._stderr()
            self.close()
            raise HarnessError('LitUnits driver did not start: %r %s' % (first, msg))

    def _stderr(self):
        try:
            self.err.seek(0)
            return self.err.read()[-2000:].decode('utf-8', 'replace')
        except Exception:
            return ''

    def query(self, literals):
        if not literals:
            return []
        req = ['%d' % len(literals)]
        for lit in literals:
            req.append(''.join('%04x' % u for u in utf16_units(lit)))
        try:
            self.proc.stdin.write('\n'.join(req) + '\n')
            self.proc.stdin.flush()
        except (BrokenPipeError, OSError) as e:
            raise HarnessError('LitUnits driver died: %r %s' % (e, self._stderr()))
        out = []
        for _ in literals:
            line = self.proc.stdout.readline()
            if not line:
                raise HarnessError('LitUnits driver ended early: %s' % self._stderr())
            line = line.strip()
            if line.startswith('OK'):
                h = line[2:].strip()
                out.append(('OK', [int(h[i:i + 4], 16) for i in range(0, len(h), 4)]))
            elif line == 'NOTLIT':
                out.append(('NOTLIT', None))
            elif line.startswith('ERR'):
                out.append(('ERR', line[3:].strip()))
            else:
                raise HarnessError('LitUnits driver: unexpected line %r %s' % (line, self._stderr()))
        if self.proc.stdout.readline().strip() != '.':
            raise HarnessError('LitUnits driver: protocol out of sync %s' % self._stderr())
        return out

    def close(self):
        if self.proc is not None:
            try:
                self.proc.stdin.write('Q\n')
                self.proc.stdin.flush()
                self.proc.stdin.close()
            except (BrokenPipeError, OSError, ValueError):
                pass
            try:
                self.proc.wait(timeout=20)
            except subprocess.TimeoutExpired:
                self.proc.kill()
                self.proc.wait()
            self.proc.stdout.close()
            self.proc = None
        if self.err is not None:
            self.err.close()
            self.err = None
        if self.tmp is not None:
            shutil.rmtree(self.tmp, ignore_errors=True)
            self.tmp = None

    def __enter__(self):
        return self

    def __exit__(self, *a):
        self.close()
