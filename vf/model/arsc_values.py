"""vf.model.arsc_values - reference model for resource-table lookups (C28 / C29). NO androguard import.

Two parts:

1. Printed form of a literal Res_value, restricted to the data types whose text is unambiguous from the AOSP meaning
   of the type (ResourceTypes.h, Res_value::dataType) and androguard's documented format_value():
     TYPE_STRING        the pool string
     TYPE_ATTRIBUTE     '?' + ('android:' iff the package byte is 0x01) + 8 upper-case hex digits
     TYPE_INT_DEC       signed 32-bit decimal           TYPE_INT_HEX  '0x%08X'
     TYPE_INT_BOOLEAN   'false' iff data == 0, else 'true'
     TYPE_INT_COLOR_*   '#%08X'
     TYPE_DIMENSION     only radix 0 (23p0) with a non-negative mantissa: '<mantissa>.000000<unit>', unit from
                        px, dip, sp, pt, in, mm  (other radices / negative mantissas belong to C27)
     TYPE_FLOAT         '%f' of the IEEE single
   Numbers are compared after `norm()` (numeric value + suffix), so the count of printed decimals is not asserted.

2. `TableModel`: which values a resource id resolves to.
   * stored(rid)            -> [(config_words, entry, chunk)] in file order
   * expected_resolution(rid) for tables whose references form a DAG:
       (direct, expansion): `direct` = one element per stored configuration that holds a literal or a complex entry,
       `expansion` = set of elements contributed by following references (all configurations of the target,
       transitively). An element is (config_words, value); value = normalised text, or for a complex entry
       ('complex', tuple of the literal items' texts in order, frozenset of the elements its reference items expand to).
   * flat_reachable(rid)    -> set of (config_words, text): every literal stored in any entry reachable from rid through
       references (plain / compact values and complex items), tagged with the configuration of the entry that stores
       it. Defined for cyclic tables too (graph reachability).
   * path_visits(rid, cap)  -> number of entry visits made by an enumeration of all *simple* reference paths from rid
       (the cost model behind the step budget of C29).
   A reference to an id that has no entry in the table, and the null reference (data 0), contribute nothing.
"""
import re
import struct

from vf.gen import arscgen as G

DIMENSION_UNITS = ('px', 'dip', 'sp', 'pt', 'in', 'mm')


def fmt(value):
    """expected text of a literal [dtype, data]; None when this model does not define it"""
    dtype, data = value
    if dtype == G.TYPE_STRING:
        return data if isinstance(data, str) else None
    data &= 0xffffffff
    if dtype == G.TYPE_ATTRIBUTE:
        return '?%s%08X' % ('android:' if data >> 24 == 1 else '', data)
    if dtype == G.TYPE_INT_DEC:
        return '%d' % (data - (1 << 32) if data & 0x80000000 else data)
    if dtype == G.TYPE_INT_HEX:
        return '0x%08X' % data
    if dtype == G.TYPE_INT_BOOLEAN:
        return 'false' if data == 0 else 'true'
    if G.TYPE_INT_COLOR_ARGB8 <= dtype <= G.TYPE_INT_COLOR_RGB4:
        return '#%08X' % data
    if dtype == G.TYPE_DIMENSION:
        radix = (data >> 4) & 3
        unit = data & 0xf
        mant = data >> 8
        if radix != 0 or unit > 5 or mant & 0x800000:
            return None
        return '%d.000000%s' % (mant, DIMENSION_UNITS[unit])
    if dtype == G.TYPE_FLOAT:
        f = struct.unpack('<f', struct.pack('<I', data))[0]
        if f != f or f in (float('inf'), float('-inf')):
            return None
        return '%f' % f
    return None


_NUM = re.compile(r'^(-?\d+\.\d+)(px|dip|sp|pt|in|mm|)$')


def norm(text):
    """normal form of a printed value: numbers with an optional dimension unit compare numerically"""
    m = _NUM.match(text) if isinstance(text, str) else None
    if m and len(text) < 40:
        return ('num', float(m.group(1)), m.group(2))
    return text


def is_ref(value):
    return value[0] == G.TYPE_REFERENCE


def locale_name(cfg):
    """androguard's documented locale key: '\\x00\\x00' for the default locale, else language[-rREGION]"""
    q = G.locale_qualifier(cfg)
    return q if q else '\x00\x00'


def config_id(cfg):
    """identity of a configuration as seen through a parser: the nine 32-bit words plus locale script and variant"""
    return G.config_words(cfg) + ((cfg.get('script', '') or '').encode('ascii').ljust(4, b'\0'),
                                  (cfg.get('variant', '') or '').encode('ascii').ljust(8, b'\0'))


class TableModel:
    def __init__(self, table):
        self.table = table
        self.by_id = {}
        self.order = []
        for rid, p, t, ch, i, e in G.iter_entries(table):
            if rid not in self.by_id:
                self.by_id[rid] = []
                self.order.append(rid)
            self.by_id[rid].append((config_id(ch['config']), e, ch, t, p))

    def stored(self, rid):
        return self.by_id.get(rid, [])

    @staticmethod
    def values_of(e):
        """the Res_values of an entry in order: [value] or the item values"""
        if e['kind'] == 'complex':
            return [v for _, v in e['items']]
        return [e['value']]

    def targets(self, rid):
        """ids referenced by any configuration of rid (existing ones only, self included)"""
        out = []
        for _, e, *_ in self.stored(rid):
            for v in self.values_of(e):
                if is_ref(v) and v[1] in self.by_id and v[1] not in out:
                    out.append(v[1])
        return out

    def closure(self, rid):
        seen = []
        todo = [rid]
        while todo:
            r = todo.pop()
            if r in seen:
                continue
            seen.append(r)
            todo.extend(self.targets(r))
        return seen

    def has_cycle_from(self, rid):
        state = {}

        def dfs(r):
            state[r] = 1
            for t in self.targets(r):
                if state.get(t) == 1 or (t not in state and dfs(t)):
                    return True
            state[r] = 2
            return False
        return dfs(rid)

    def unresolvable_refs(self, rid):
        """number of null / dangling references met in the closure of rid"""
        n = 0
        for r in self.closure(rid):
            for _, e, *_ in self.stored(r):
                for v in self.values_of(e):
                    if is_ref(v) and v[1] not in self.by_id:
                        n += 1
        return n

    # ---- DAG semantics ------------------------------------------------------------------------
    def expected_resolution(self, rid, _memo=None):
        memo = {} if _memo is None else _memo
        if rid in memo:
            if memo[rid] is None:
                raise ValueError('reference cycle through 0x%08x: expected_resolution is defined for DAGs only' % rid)
            return memo[rid]
        memo[rid] = None
        direct = []
        expansion = set()

        def expand(target, into):
            if target == rid:
                return          # an entry that references its own id contributes nothing
            if target in self.by_id:
                d, x = self.expected_resolution(target, memo)
                into.update(d)
                into.update(x)

        for cfg, e, *_ in self.stored(rid):
            if e['kind'] == 'complex':
                lits = []
                exp = set()
                for _, v in e['items']:
                    if is_ref(v):
                        expand(v[1], exp)
                    else:
                        lits.append(norm(fmt(v)))
                direct.append((cfg, ('complex', tuple(lits), frozenset(exp))))
            elif is_ref(e['value']):
                expand(e['value'][1], expansion)
            else:
                direct.append((cfg, norm(fmt(e['value']))))
        memo[rid] = (direct, expansion)
        return memo[rid]

    # ---- graph semantics (cycles allowed) -----------------------------------------------------
    def flat_reachable(self, rid):
        out = set()
        for r in self.closure(rid):
            for cfg, e, *_ in self.stored(r):
                for v in self.values_of(e):
                    if not is_ref(v):
                        out.add((cfg, norm(fmt(v))))
        return out

    def path_visits(self, rid, cap=100000):
        count = 0
        stack = set()

        def visit(r):
            nonlocal count
            if r in stack or count > cap:
                return
            stack.add(r)
            for _, e, *_ in self.stored(r):
                count += 1
                for v in self.values_of(e):
                    if is_ref(v) and v[1] in self.by_id:
                        visit(v[1])
            stack.discard(r)
        visit(rid)
        return count
