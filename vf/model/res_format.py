"""Reference model: what a typed resource value (Res_value: dataType + 32-bit data) means on Android, and the textual
shape androguard documents for it. Imports nothing from androguard.

Numeric meaning (AOSP): frameworks/base/libs/androidfw/ResourceTypes.cpp (print_complex / complex_to_float),
android.util.TypedValue (complexToFloat, coerceToString), ResourceTypes.h (Res_value):

  complex (TYPE_DIMENSION / TYPE_FRACTION)
      value = (int32)(data & 0xFFFFFF00) * MANTISSA_MULT * RADIX        -- the mantissa is the SIGNED top 24 bits
      MANTISSA_MULT = 1/(1<<8); RADIX (bits 4..5) = 23p0: 1, 16p7: 1/(1<<7), 8p15: 1/(1<<15), 0p23: 1/(1<<23)
      unit (bits 0..3): dimension 0 px, 1 dip, 2 sp, 3 pt, 4 in, 5 mm; fraction 0 '%', 1 '%p' (value is shown * 100).
      Other unit codes are not defined by the platform: `unit` is None, only the number is specified.
  TYPE_FLOAT        IEEE-754 binary32 with the bit pattern `data`
  TYPE_INT_DEC      data as signed 32-bit, decimal
  TYPE_INT_HEX      0x + hex digits of data (androguard: 8 digits, zero padded)
  TYPE_INT_BOOLEAN  data != 0 -> true, else false
  TYPE_INT_COLOR_*  data is always the full 32-bit ARGB value -> '#' + 8 hex digits (the four types only record how
                    the colour was written in the source)
  TYPE_REFERENCE    '@' [+ 'android:' iff package byte (data >> 24) == 1] + 8 hex digits of the id
  TYPE_ATTRIBUTE    '?' likewise
  TYPE_STRING       the pool string data refers to
  TYPE_NULL, dynamic reference/attribute, undefined type codes: not covered by the property statement -> kind 'unspecified'.

An expectation is a dict {'kind': ..., ...}; `matches(exp, text)` decides whether androguard's text conforms and
`render(exp)` gives a canonical text for messages. Numeric comparison tolerance (DESIGN 2.6) for complex values:
|got - exp| <= 5e-7 + 2e-7*|exp|  (6 printed decimals + 7-significant-digit radix constants in androguard);
floats: |got - exp| <= 5e-7 + 1e-12*|exp| ("%f" of the exact double value of the binary32).
"""
import math
import re
import struct

TYPE_NULL = 0x00
TYPE_REFERENCE = 0x01
TYPE_ATTRIBUTE = 0x02
TYPE_STRING = 0x03
TYPE_FLOAT = 0x04
TYPE_DIMENSION = 0x05
TYPE_FRACTION = 0x06
TYPE_DYNAMIC_REFERENCE = 0x07
TYPE_DYNAMIC_ATTRIBUTE = 0x08
TYPE_INT_DEC = 0x10
TYPE_INT_HEX = 0x11
TYPE_INT_BOOLEAN = 0x12
TYPE_INT_COLOR_ARGB8 = 0x1C
TYPE_INT_COLOR_RGB8 = 0x1D
TYPE_INT_COLOR_ARGB4 = 0x1E
TYPE_INT_COLOR_RGB4 = 0x1F

TYPE_NAMES = {0: 'null', 1: 'reference', 2: 'attribute', 3: 'string', 4: 'float', 5: 'dimension', 6: 'fraction',
              7: 'dynamic_reference', 8: 'dynamic_attribute', 0x10: 'int_dec', 0x11: 'int_hex', 0x12: 'int_boolean',
              0x1C: 'color_argb8', 0x1D: 'color_rgb8', 0x1E: 'color_argb4', 0x1F: 'color_rgb4'}
SPECIFIED_TYPES = (1, 2, 3, 4, 5, 6, 0x10, 0x11, 0x12, 0x1C, 0x1D, 0x1E, 0x1F)

COMPLEX_UNIT_MASK = 0xF
COMPLEX_RADIX_SHIFT = 4
COMPLEX_RADIX_MASK = 0x3
COMPLEX_MANTISSA_SHIFT = 8
MANTISSA_MULT = 1.0 / (1 << COMPLEX_MANTISSA_SHIFT)
RADIX_MULTS = (1.0 * MANTISSA_MULT, 1.0 / (1 << 7) * MANTISSA_MULT, 1.0 / (1 << 15) * MANTISSA_MULT,
               1.0 / (1 << 23) * MANTISSA_MULT)
RADIX_NAMES = ('23p0', '16p7', '8p15', '0p23')
DIMENSION_UNITS = ('px', 'dip', 'sp', 'pt', 'in', 'mm')       # COMPLEX_UNIT_PX .. COMPLEX_UNIT_MM
FRACTION_UNITS = ('%', '%p')                                  # COMPLEX_UNIT_FRACTION, COMPLEX_UNIT_FRACTION_PARENT

ABS_TOL = 5e-7
REL_TOL_COMPLEX = 2e-7
REL_TOL_FLOAT = 1e-12


def signed32(x):
    x &= 0xFFFFFFFF
    return x - (1 << 32) if x & 0x80000000 else x


def mantissa(data):
    """signed 24-bit mantissa"""
    m = (data >> 8) & 0xFFFFFF
    return m - (1 << 24) if m & 0x800000 else m


def radix(data):
    return (data >> COMPLEX_RADIX_SHIFT) & COMPLEX_RADIX_MASK


def unit(data):
    return data & COMPLEX_UNIT_MASK


def complex_to_float(data):
    """AOSP complex_to_float / TypedValue.complexToFloat. Exact in binary64 (24-bit integer times a power of two)."""
    return signed32(data & 0xFFFFFF00) * RADIX_MULTS[radix(data)]


def float_from_bits(data):
    return struct.unpack('<f', struct.pack('<I', data & 0xFFFFFFFF))[0]


def expected(type_, data, string=None):
    """Expectation for Res_value(type_, data). `string`: the pool string for TYPE_STRING (caller resolves it)."""
    data &= 0xFFFFFFFF
    if type_ == TYPE_STRING:
        return {'kind': 'string', 'text': string}
    if type_ in (TYPE_REFERENCE, TYPE_ATTRIBUTE):
        return {'kind': 'hexci', 'text': ('@' if type_ == TYPE_REFERENCE else '?') +
                ('android:' if (data >> 24) == 1 else '') + '%08X' % data}
    if type_ == TYPE_FLOAT:
        return {'kind': 'float', 'value': float_from_bits(data)}
    if type_ == TYPE_DIMENSION:
        u = unit(data)
        return {'kind': 'complex', 'value': complex_to_float(data),
                'unit': DIMENSION_UNITS[u] if u < len(DIMENSION_UNITS) else None}
    if type_ == TYPE_FRACTION:
        u = unit(data)
        return {'kind': 'complex', 'value': complex_to_float(data) * 100,
                'unit': FRACTION_UNITS[u] if u < len(FRACTION_UNITS) else None}
    if type_ == TYPE_INT_DEC:
        return {'kind': 'exact', 'text': '%d' % signed32(data)}
    if type_ == TYPE_INT_HEX:
        return {'kind': 'hexci', 'text': '0x%08X' % data}
    if type_ == TYPE_INT_BOOLEAN:
        return {'kind': 'exact', 'text': 'true' if data != 0 else 'false'}
    if TYPE_INT_COLOR_ARGB8 <= type_ <= TYPE_INT_COLOR_RGB4:
        return {'kind': 'hexci', 'text': '#%08X' % data}
    return {'kind': 'unspecified'}


_NUM = re.compile(r'^(-?(?:\d+(?:\.\d*)?|\.\d+)(?:[eE][-+]?\d+)?|-?inf|-?nan)(.*)$', re.S)


def split_number(text):
    """'12.500000dip' -> (12.5, 'dip'); None if there is no leading decimal number"""
    m = _NUM.match(text)
    if not m:
        return None
    return float(m.group(1)), m.group(2)


def close(got, exp, rel):
    if math.isnan(exp):
        return math.isnan(got)
    if math.isinf(exp):
        return got == exp
    return abs(got - exp) <= ABS_TOL + rel * abs(exp)


def matches(exp, text):
    """-> (ok, reason). `text` is what androguard printed."""
    k = exp['kind']
    if not isinstance(text, str):
        return False, 'not a string: %r' % (text,)
    if k == 'unspecified':
        return True, ''
    if k in ('exact', 'string'):
        return text == exp['text'], 'expected %r' % (exp['text'],)
    if k == 'hexci':
        return text.lower() == exp['text'].lower(), 'expected %r (hex digits case-insensitive)' % (exp['text'],)
    if k == 'float':
        sp = split_number(text)
        if sp is None or sp[1] != '':
            return False, 'expected a decimal number close to %r' % exp['value']
        return close(sp[0], exp['value'], REL_TOL_FLOAT), 'expected %r' % exp['value']
    if k == 'complex':
        sp = split_number(text)
        if sp is None:
            return False, 'expected a number + unit, value %r unit %r' % (exp['value'], exp['unit'])
        if not close(sp[0], exp['value'], REL_TOL_COMPLEX):
            return False, 'number %r, expected %r' % (sp[0], exp['value'])
        if exp['unit'] is not None and sp[1] != exp['unit']:
            return False, 'unit %r, expected %r' % (sp[1], exp['unit'])
        return True, ''
    raise ValueError('unknown expectation kind %r' % k)


def render(exp):
    k = exp['kind']
    if k in ('exact', 'string', 'hexci'):
        return exp['text']
    if k == 'float':
        return '%f' % exp['value']
    if k == 'complex':
        return '%f%s' % (exp['value'], exp['unit'] if exp['unit'] is not None else '<any unit>')
    return '<unspecified>'
