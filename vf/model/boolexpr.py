"""A small evaluator for printed Java boolean conditions (C25).  Never imports androguard.

Grammar (Java precedence: ! binds tighter than relational, then &&, then ||; parentheses group):

    expr   := and ( '||' and )*
    and    := unary ( '&&' unary )*
    unary  := '!' unary | '(' expr ')' | atom
    atom   := NAME [ relop INT ]            relop in == != < <= > >=
    NAME   := [A-Za-z_][A-Za-z_0-9]*        INT := -?[0-9]+

`evaluate(text, env)`: env maps NAME -> bool (bare atoms) or int (compared atoms; a bare int atom is an
error).  Anything outside the grammar raises ParseError: the caller decides what that means.
"""
import re

TOKEN = re.compile(r'\s*(\|\||&&|==|!=|<=|>=|<|>|!|\(|\)|-?[0-9]+|[A-Za-z_][A-Za-z_0-9]*)')
RELOPS = {'==': lambda a, b: a == b, '!=': lambda a, b: a != b, '<': lambda a, b: a < b,
          '<=': lambda a, b: a <= b, '>': lambda a, b: a > b, '>=': lambda a, b: a >= b}


class ParseError(Exception):
    pass


def tokenize(text):
    pos, out = 0, []
    text = text.rstrip()
    while pos < len(text):
        m = TOKEN.match(text, pos)
        if not m:
            raise ParseError('unexpected character at %d in %r' % (pos, text))
        out.append(m.group(1))
        pos = m.end()
    return out


def parse(text):
    """text -> AST: ('or', a, b) | ('and', a, b) | ('not', a) | ('var', name) | ('cmp', op, name, int)"""
    toks = tokenize(text)
    pos = [0]

    def peek():
        return toks[pos[0]] if pos[0] < len(toks) else None

    def take(expected=None):
        t = peek()
        if t is None or (expected is not None and t != expected):
            raise ParseError('expected %r, found %r in %r' % (expected, t, text))
        pos[0] += 1
        return t

    def expr():
        node = conj()
        while peek() == '||':
            take()
            node = ('or', node, conj())
        return node

    def conj():
        node = unary()
        while peek() == '&&':
            take()
            node = ('and', node, unary())
        return node

    def unary(allow_rel=True):
        t = peek()
        if t == '!':
            take()
            return ('not', unary(False))
        if t == '(':
            take()
            node = expr()
            take(')')
            return node
        if t is None or not re.fullmatch(r'[A-Za-z_][A-Za-z_0-9]*', t):
            raise ParseError('expected an operand, found %r in %r' % (t, text))
        take()
        if peek() in RELOPS:
            if not allow_rel:
                raise ParseError('! applied to a relational operand without parentheses in %r' % (text,))
            op = take()
            lit = take()
            if not re.fullmatch(r'-?[0-9]+', lit):
                raise ParseError('expected an integer after %s, found %r in %r' % (op, lit, text))
            return ('cmp', op, t, int(lit))
        return ('var', t)

    node = expr()
    if peek() is not None:
        raise ParseError('trailing %r in %r' % (peek(), text))
    return node


def eval_ast(node, env):
    k = node[0]
    if k == 'or':
        return eval_ast(node[1], env) or eval_ast(node[2], env)
    if k == 'and':
        return eval_ast(node[1], env) and eval_ast(node[2], env)
    if k == 'not':
        return not eval_ast(node[1], env)
    if k == 'var':
        v = env[node[1]]
        if not isinstance(v, bool):
            raise ParseError('%s used as a boolean but bound to %r' % (node[1], v))
        return v
    v = env[node[2]]
    if isinstance(v, bool):
        raise ParseError('%s compared with an integer but bound to a boolean' % node[2])
    return RELOPS[node[1]](v, node[3])


def evaluate(text, env):
    return eval_ast(parse(text), env)
