"""Reference control-flow model of one Dalvik method (no androguard import).

Input: the item list of a method (instructions and payload pseudo-instructions with their BYTE offsets and raw
bytes - from vf.gen.asm.assemble().items, from a table driven sweep of the insns array, or from any
(offset, raw) sequence) plus the try ranges of its code_item. Output: the facts the properties C10/C11/C12/C40
talk about, derived from the Dalvik bytecode specification only:

  * branch offsets (goto*, if-*, if-*z) are signed, in 16-bit code units, relative to the address of the
    branching instruction; goto has no fall-through; if-* falls through when the test fails;
  * packed-switch / sparse-switch: "+BBBBBBBB" designates the payload (relative to the switch instruction, code
    units); the targets in the payload are relative to the address of the *switch opcode*, not of the table;
    if no case matches execution continues at the next instruction;
  * return-void / return / return-wide / return-object and throw have no successor inside the method
    (exception edges are not part of the successor relation of C11; they are what C12 is about);
  * fill-array-data refers to its payload the same way and then falls through;
  * every other instruction continues with the next instruction;
  * a branch or switch-case target outside [0, size of the insns array) designates no instruction of the method: it
    is no successor (C11: "the in-method targets") and requires no leader (C10); nothing else changes;
  * a try_item covers the code units [start_addr, start_addr + insn_count); an encoded_catch_handler has typed
    handlers (type, addr) in order and optionally a catch-all address.

All offsets in this module are BYTE offsets from the start of the insns array (androguard's convention for
block boundaries and xref offsets); tries/handlers are converted from code units by the constructors below.

API
---
  Item(off, length, kind, op, raw)            kind: 'ins' | 'payload'
  items_from_emitted(asm_items)               asm 'pad' items are ordinary nop instructions
  items_from_raws([(off, raw), ...])          e.g. from some disassembler's output
  items_from_code(insns_bytes)                own linear sweep (vf.gen.dalvik_spec.sweep)
  Try(start, end, handlers, catch_all)        bytes; end exclusive; handlers [(type_descriptor, addr)]
  tries_from_dexgen(tries, handlers)          dexgen form ([(start, count, hidx)], [([(type, addr)], catch_all)])
  MethodModel(items, tries)
      .code_len  .items  .at[off] -> Item  .order[off] -> position
      .kind_of(item) -> 'goto'|'if'|'switch'|'return'|'throw'|'fill'|'plain'|'payload'
      .is_terminator(item)                    goto/if/switch/return/throw
      .payload_target(item) -> byte offset the 31t instruction encodes
      .payload_of(item) -> Item or None       the payload item located exactly there (matching ident), else None
      .switch_targets(item) -> [byte offsets] in table order (duplicates kept); None when payload_of is None
      .successors(item) -> set of in-method byte offsets, or None for payload items (undefined: data)
      .required_leaders() -> {offset: set(sources)}   sources: 'entry','branch-target','switch-target',
                             'after-terminator','try-start','handler'
      .offsets_in(start, end) -> item offsets in [start, end)
      .tries_overlapping(start, end) -> [Try] whose range contains the offset of an item in [start, end)
      .handler_list(t) -> [(type, addr)] with the catch-all as ('<any>', addr) last
  parse_dex_methods(buf) -> iterator of DexMethod(class_idx, method_idx, code_off, insns, tries) read with an own
      minimal DEX reader (header -> class_defs -> class_data -> code_item -> tries / handlers; type names resolved)
"""
import bisect
import struct
from collections import namedtuple

from vf.gen import dalvik_spec as ds

Item = namedtuple('Item', 'off length kind op raw')
Try = namedtuple('Try', 'start end handlers catch_all')
DexMethod = namedtuple('DexMethod', 'class_idx method_idx code_off insns tries')

CATCH_ALL = '<any>'
_WANT = {0x26: ds.PAYLOAD_FILL, 0x2b: ds.PAYLOAD_PACKED, 0x2c: ds.PAYLOAD_SPARSE}


class ModelError(Exception):
    """the input is outside the domain of the model (not a tiling, unknown opcode, ...)"""


def _mk(off, raw):
    raw = bytes(raw)
    if len(raw) < 2 or len(raw) % 2:
        raise ModelError('item at %d has %d bytes' % (off, len(raw)))
    unit = raw[0] | raw[1] << 8
    if unit in ds.PAYLOAD_NAMES:
        return Item(off, len(raw), 'payload', unit, raw)
    op = unit & 0xff
    if op in ds.UNUSED:
        raise ModelError('unused opcode %02x at %d' % (op, off))
    return Item(off, len(raw), 'ins', op, raw)


def items_from_emitted(emitted):
    out = []
    for e in emitted:
        if e.kind not in ('ins', 'pad', 'payload'):
            raise ModelError('raw item in program')
        out.append(_mk(e.offset, e.raw))
    return out


def items_from_raws(pairs):
    return [_mk(off, raw) for off, raw in pairs]


def items_from_code(code):
    try:
        return [_mk(it.off * 2, code[it.off * 2:(it.off + it.units) * 2]) for it in ds.sweep(code)]
    except ds.SpecError as e:
        raise ModelError(str(e))


def tries_from_dexgen(tries, handlers):
    out = []
    for (start, count, hidx) in tries:
        pairs, call = handlers[hidx]
        out.append(Try(start * 2, (start + count) * 2, [(t, a * 2) for (t, a) in pairs],
                       None if call is None else call * 2))
    return out


class MethodModel:
    def __init__(self, items, tries=()):
        self.items = list(items)
        self.tries = list(tries)
        pos = 0
        self.at = {}
        self.order = {}
        for k, it in enumerate(self.items):
            if it.off != pos:
                raise ModelError('items do not tile the code: item %d at %d, expected %d' % (k, it.off, pos))
            self.at[it.off] = it
            self.order[it.off] = k
            pos += it.length
        self.code_len = pos
        self.offsets = [it.off for it in self.items]
        self._fields = {}

    # -- decoding -------------------------------------------------------------------------------
    def fields(self, it):
        f = self._fields.get(it.off)
        if f is None:
            f = self._fields[it.off] = ds.decode_fields(it.raw)[1]
        return f

    def kind_of(self, it):
        if it.kind == 'payload':
            return 'payload'
        op = it.op
        if ds.is_goto(op):
            return 'goto'
        if ds.is_if(op):
            return 'if'
        if ds.is_switch(op):
            return 'switch'
        if ds.is_return(op):
            return 'return'
        if ds.is_throw(op):
            return 'throw'
        if ds.is_fill_array_data(op):
            return 'fill'
        return 'plain'

    def is_terminator(self, it):
        return self.kind_of(it) in ('goto', 'if', 'switch', 'return', 'throw')

    def next_off(self, it):
        n = it.off + it.length
        return n if n < self.code_len else None

    def branch_target(self, it):
        """absolute byte offset encoded by a goto / if instruction"""
        return it.off + 2 * self.fields(it)[ds.offset_field(it.op)]

    def payload_target(self, it):
        return it.off + 2 * self.fields(it)['BBBBBBBB']

    def payload_of(self, it):
        p = self.at.get(self.payload_target(it))
        if p is None or p.kind != 'payload' or p.op != _WANT[it.op]:
            return None
        return p

    def switch_targets(self, it):
        p = self.payload_of(it)
        if p is None:
            return None
        size = struct.unpack_from('<H', p.raw, 2)[0]
        if p.op == ds.PAYLOAD_PACKED:
            rel = struct.unpack_from('<%di' % size, p.raw, 8)
        else:
            rel = struct.unpack_from('<%di' % size, p.raw, 4 + 4 * size)
        return [it.off + 2 * r for r in rel]

    def successors(self, it):
        k = self.kind_of(it)
        if k == 'payload':
            return None
        if k in ('return', 'throw'):
            return set()
        out = set()
        if k == 'goto':
            out.add(self.branch_target(it))
        else:
            n = self.next_off(it)
            if n is not None:
                out.add(n)
            if k == 'if':
                out.add(self.branch_target(it))
            elif k == 'switch':
                ts = self.switch_targets(it)
                if ts is None:
                    raise ModelError('switch at %d has no payload at %d' % (it.off, self.payload_target(it)))
                out.update(ts)
        return {o for o in out if 0 <= o < self.code_len}

    # -- C10 ------------------------------------------------------------------------------------
    def required_leaders(self):
        req = {}

        def add(off, why):
            if off is not None and 0 <= off < self.code_len:
                req.setdefault(off, set()).add(why)
        add(0, 'entry')
        for it in self.items:
            k = self.kind_of(it)
            if k in ('goto', 'if'):
                add(self.branch_target(it), 'branch-target')
            elif k == 'switch':
                for t in self.switch_targets(it) or ():
                    add(t, 'switch-target')
            if k in ('goto', 'if', 'switch', 'return', 'throw'):
                add(self.next_off(it), 'after-terminator')
        for t in self.tries:
            add(t.start, 'try-start')
            for (_ty, a) in self.handler_list(t):
                add(a, 'handler')
        return req

    # -- C12 ------------------------------------------------------------------------------------
    def tries_overlapping(self, start, end):
        """an instruction is covered by a try when its address (first code unit) lies in the try's range:
        that is the address the VM looks up when the instruction throws"""
        out = []
        for t in self.tries:
            lo, hi = max(start, t.start), min(end, t.end)
            if lo < hi:
                k = bisect.bisect_left(self.offsets, lo)
                if k < len(self.offsets) and self.offsets[k] < hi:
                    out.append(t)
        return out

    def handler_list(self, t):
        hl = list(t.handlers)
        if t.catch_all is not None:
            hl.append((CATCH_ALL, t.catch_all))
        return hl

    def offsets_in(self, start, end):
        """offsets of the items whose address lies in [start, end)"""
        return self.offsets[bisect.bisect_left(self.offsets, start):bisect.bisect_left(self.offsets, end)]

    def try_offsets(self, t):
        """offsets of the items covered by a try range"""
        return self.offsets[bisect.bisect_left(self.offsets, t.start):bisect.bisect_left(self.offsets, t.end)]


# ---------------------------------------------------------------------------------------------------
# own minimal DEX reader for the shipped files (independent of androguard's parser)
# ---------------------------------------------------------------------------------------------------
def _uleb(buf, p):
    r = s = 0
    while True:
        b = buf[p]
        p += 1
        r |= (b & 0x7f) << s
        s += 7
        if not b & 0x80:
            return r, p


def _sleb(buf, p):
    r = s = 0
    while True:
        b = buf[p]
        p += 1
        r |= (b & 0x7f) << s
        s += 7
        if not b & 0x80:
            if b & 0x40:
                r -= 1 << s
            return r, p


def _mutf8(buf, p):
    """decode a string_data_item at p (uleb utf16 length, MUTF-8 bytes, NUL) to a Python str (surrogates kept)"""
    _n, p = _uleb(buf, p)
    us = []
    while buf[p] != 0:
        b = buf[p]
        if b < 0x80:
            us.append(b)
            p += 1
        elif b & 0xe0 == 0xc0:
            us.append((b & 0x1f) << 6 | buf[p + 1] & 0x3f)
            p += 2
        else:
            us.append((b & 0x0f) << 12 | (buf[p + 1] & 0x3f) << 6 | buf[p + 2] & 0x3f)
            p += 3
    return struct.pack('<%dH' % len(us), *us).decode('utf-16-le', 'surrogatepass')


def parse_dex_methods(buf):
    """yields DexMethod for every encoded_method with a code_item (each code_off once)"""
    if buf[:4] != b'dex\n':
        raise ModelError('not a DEX file')
    sid_size, sid_off, tid_size, tid_off = struct.unpack_from('<4I', buf, 0x38)
    cd_size, cd_off = struct.unpack_from('<2I', buf, 0x60)
    tname = {}

    def type_name(i):
        if i not in tname:
            if not 0 <= i < tid_size:
                raise ModelError('type index %d out of range' % i)
            s = struct.unpack_from('<I', buf, tid_off + 4 * i)[0]
            tname[i] = _mutf8(buf, struct.unpack_from('<I', buf, sid_off + 4 * s)[0])
        return tname[i]

    seen = set()
    for ci in range(cd_size):
        class_data_off = struct.unpack_from('<I', buf, cd_off + 32 * ci + 24)[0]
        if not class_data_off:
            continue
        p = class_data_off
        nsf, p = _uleb(buf, p)
        nif, p = _uleb(buf, p)
        ndm, p = _uleb(buf, p)
        nvm, p = _uleb(buf, p)
        for _ in range(nsf + nif):
            _, p = _uleb(buf, p)
            _, p = _uleb(buf, p)
        for group in (ndm, nvm):
            midx = 0
            for _ in range(group):
                d, p = _uleb(buf, p)
                midx += d
                _, p = _uleb(buf, p)
                code_off, p = _uleb(buf, p)
                if not code_off or code_off in seen:
                    continue
                seen.add(code_off)
                tries_size = struct.unpack_from('<H', buf, code_off + 6)[0]
                insns_size = struct.unpack_from('<I', buf, code_off + 12)[0]
                insns = bytes(buf[code_off + 16:code_off + 16 + 2 * insns_size])
                tries = []
                if tries_size:
                    q = code_off + 16 + 2 * insns_size
                    if insns_size % 2:
                        q += 2
                    hbase = q + 8 * tries_size
                    for k in range(tries_size):
                        start, count, hoff = struct.unpack_from('<IHH', buf, q + 8 * k)
                        hp = hbase + hoff
                        size, hp = _sleb(buf, hp)
                        pairs = []
                        for _ in range(abs(size)):
                            ti, hp = _uleb(buf, hp)
                            addr, hp = _uleb(buf, hp)
                            pairs.append((type_name(ti), addr * 2))
                        call = None
                        if size <= 0:
                            call, hp = _uleb(buf, hp)
                            call *= 2
                        tries.append(Try(start * 2, (start + count) * 2, pairs, call))
                yield DexMethod(ci, midx, code_off, insns, tries)
