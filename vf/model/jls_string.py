r"""Reference reader for ONE Java string literal (Java SE 17 lexical rules). No androguard import.

    read_literal(text) -> list of UTF-16 code units the literal denotes      (raises LiteralError otherwise)

`text` is the complete source text of the literal including both quotes, as a Python str (or a
sequence of UTF-16 code units). The reader follows the two passes of the JLS:

 1. JLS 3.3  Unicode escapes.  The raw input is a sequence of UTF-16 code units. A raw backslash is
    *eligible* to begin a Unicode escape iff the number of raw backslashes contiguously preceding it
    is even.  An eligible backslash followed by one or more 'u' and exactly four hex digits is
    replaced by that code unit; an eligible backslash followed by 'u' and anything else is a
    compile-time error.  The produced unit takes no part in further Unicode escapes (but it counts
    as what it is for tokenisation: a produced backslash starts an escape sequence, a produced
    quote ends the literal, a produced CR/LF is a line terminator).
    A backslash that is not eligible, or not followed by 'u', is left alone.
    (javac 17 counts a backslash produced by \u005c in the parity as well; see translate_unicode_escapes.)
 2. JLS 3.10.5 StringLiteral:  " {StringCharacter} "  where a StringCharacter is any input
    character except ", \, CR, LF, or an EscapeSequence (JLS 3.10.7):
        \b \s \t \n \f \r \" \' \\       and octal  \o  \oo  \zoo  (o in 0-7, z in 0-3; longest match)
    (`\s` = U+0020 exists since Java 15; `\<line terminator>` is only legal in text blocks.)
    A text that starts with three quotes opens a text block (JLS 3.10.6), which is not a string
    literal: reported as LiteralError('text-block').

The whole text must be exactly one literal: anything after the closing quote is an error.
U+2028/U+2029/U+0085 are NOT line terminators in Java (JLS 3.4: only CR, LF, CRLF).
"""
import struct

BACKSLASH = 0x5C
QUOTE = 0x22
CR = 0x0D
LF = 0x0A
_HEX = {ord(c): int(c, 16) for c in '0123456789abcdefABCDEF'}
_SIMPLE = {ord('b'): 0x08, ord('s'): 0x20, ord('t'): 0x09, ord('n'): 0x0A, ord('f'): 0x0C, ord('r'): 0x0D,
           ord('"'): 0x22, ord("'"): 0x27, ord('\\'): 0x5C}


class LiteralError(Exception):
    def __init__(self, kind, pos=-1):
        Exception.__init__(self, '%s at %d' % (kind, pos))
        self.kind = kind
        self.pos = pos


def utf16_units(s):
    """Python str (may contain lone surrogates) -> list of UTF-16 code units."""
    b = s.encode('utf-16-le', 'surrogatepass')
    return list(struct.unpack('<%dH' % (len(b) // 2), b))


def units_to_str(units):
    """UTF-16 code units -> Python str in canonical form (surrogate pairs merged, lone ones kept)."""
    return struct.pack('<%dH' % len(units), *units).decode('utf-16-le', 'surrogatepass')


def translate_unicode_escapes(units, javac_parity=False):
    """JLS 3.3. Returns list of (unit, raw_start_index). Raises LiteralError('bad-unicode-escape').

    javac_parity=False: the reading of the JLS text -- only *raw* backslashes count when deciding whether a raw
    backslash is preceded by an even number of backslashes.
    javac_parity=True: what javac 17 implements -- backslashes are consumed in pairs, and a backslash produced by a
    unicode escape (\u005c) takes part in the pairing: in  \u005c\\u0041  javac pairs the produced backslash with the
    next raw one and then translates \u0041, whereas by the JLS text the third backslash is preceded by one raw
    backslash and is not eligible. The two readings differ only when \u005c is directly followed by a raw backslash.
    """
    if javac_parity:
        return _translate_javac(units)
    out = []
    n = len(units)
    i = 0
    run = 0            # number of raw backslashes contiguously preceding position i
    while i < n:
        u = units[i]
        if u != BACKSLASH:
            out.append((u, i))
            run = 0
            i += 1
            continue
        if run % 2 == 0 and i + 1 < n and units[i + 1] == 0x75:      # eligible and followed by 'u'
            v, j = _escape_value(units, i)
            out.append((v, i))
            run = 0      # the raw characters just consumed end with a hex digit
            i = j
            continue
        out.append((u, i))
        run += 1
        i += 1
    return out


def _escape_value(units, i):
    """units[i] is a backslash and units[i+1] is 'u': -> (code unit, index after the escape)"""
    n = len(units)
    j = i + 1
    while j < n and units[j] == 0x75:
        j += 1
    if j + 4 > n or any(units[k] not in _HEX for k in range(j, j + 4)):
        raise LiteralError('bad-unicode-escape', i)
    v = 0
    for k in range(j, j + 4):
        v = v * 16 + _HEX[units[k]]
    return v, j + 4


def _translate_javac(units):
    out = []
    n = len(units)
    i = 0
    open_bs = False        # the previous input character is a backslash that has not been paired yet
    from_escape = False    # ... and it was produced by a unicode escape
    while i < n:
        u = units[i]
        if u == BACKSLASH and (not open_bs or from_escape):
            if i + 1 < n and units[i + 1] == 0x75:
                v, j = _escape_value(units, i)
                out.append((v, i))
                open_bs = (v == BACKSLASH and not open_bs)
                from_escape = True
                i = j
            else:
                out.append((u, i))
                from_escape = False
                open_bs = not open_bs
                i += 1
        else:
            out.append((u, i))
            open_bs = False
            from_escape = False
            i += 1
    return out


def read_literal(text, javac_parity=False):
    units = utf16_units(text) if isinstance(text, str) else list(text)
    tr = translate_unicode_escapes(units, javac_parity)
    t = [u for u, _ in tr]
    pos = [p for _, p in tr]
    n = len(t)
    if n == 0 or t[0] != QUOTE:
        raise LiteralError('no-opening-quote', 0)
    if n >= 3 and t[1] == QUOTE and t[2] == QUOTE:
        raise LiteralError('text-block', 0)
    res = []
    i = 1
    while True:
        if i >= n:
            raise LiteralError('unterminated', len(units))
        u = t[i]
        if u == QUOTE:
            i += 1
            break
        if u == CR or u == LF:
            raise LiteralError('line-terminator', pos[i])
        if u != BACKSLASH:
            res.append(u)
            i += 1
            continue
        # escape sequence
        if i + 1 >= n:
            raise LiteralError('unterminated', len(units))
        e = t[i + 1]
        if e in _SIMPLE:
            res.append(_SIMPLE[e])
            i += 2
        elif 0x30 <= e <= 0x37:
            maxlen = 3 if e <= 0x33 else 2
            j = i + 1
            v = 0
            while j < n and j < i + 1 + maxlen and 0x30 <= t[j] <= 0x37:
                v = v * 8 + (t[j] - 0x30)
                j += 1
            res.append(v)
            i = j
        else:
            raise LiteralError('bad-escape', pos[i])
    if i != n:
        raise LiteralError('trailing-text', pos[i])
    return res


def try_read(text, javac_parity=False):
    """-> (units, None) or (None, error-kind)"""
    try:
        return read_literal(text, javac_parity), None
    except LiteralError as e:
        return None, e.kind
