"""Reference model of the locale part of ResTable_config (no androguard import).

Transcribed from AOSP frameworks/base/libs/androidfw/ResourceTypes.cpp:

    void packLanguageOrRegion(const char* in, const char base, char out[2]) {
      if (in[2] == 0 || in[2] == '-') {          // two characters: stored verbatim
          out[0] = in[0];
          out[1] = in[1];
      } else {                                   // three characters: 5 bits each, high bit of out[0] set
          uint8_t first  = (in[0] - base) & 0x007f;
          uint8_t second = (in[1] - base) & 0x007f;
          uint8_t third  = (in[2] - base) & 0x007f;
          out[0] = (0x80 | (third << 2) | (second >> 3));
          out[1] = ((second << 5) | first);
      }
    }
    packLanguage(in) = packLanguageOrRegion(in, 'a', language);  packRegion(in) = packLanguageOrRegion(in, '0', country)

ResTable_config layout (ResourceTypes.h): uint32 size; uint16 mcc, mnc; char language[2]; char country[2]; ...
so the little-endian 32-bit "locale" word is language[0] | language[1]<<8 | country[0]<<16 | country[1]<<24.

The textual form used by androguard (and by aapt resource directory qualifiers) is  <language>  or
<language>-r<REGION>.
"""
import struct

LANG_BASE = ord('a')
REGION_BASE = ord('0')

LOWER = 'abcdefghijklmnopqrstuvwxyz'
UPPER_DIGIT = 'ABCDEFGHIJKLMNOPQRSTUVWXYZ0123456789'
DIGITS = '0123456789'


def pack_language_or_region(code, base):
    """code: '' (unset), 2 or 3 ASCII characters -> 2 bytes"""
    if code == '':
        return b'\x00\x00'
    if len(code) == 2:
        return bytes([ord(code[0]), ord(code[1])])
    if len(code) != 3:
        raise ValueError('language/region codes have 2 or 3 characters: %r' % (code,))
    first = (ord(code[0]) - base) & 0x7f
    second = (ord(code[1]) - base) & 0x7f
    third = (ord(code[2]) - base) & 0x7f
    return bytes([(0x80 | (third << 2) | (second >> 3)) & 0xff, ((second << 5) | first) & 0xff])


def pack_locale(language, region=''):
    """-> (4 bytes language[2]+country[2], the little-endian uint32 read over them)"""
    b = pack_language_or_region(language, LANG_BASE) + pack_language_or_region(region, REGION_BASE)
    return b, struct.unpack('<I', b)[0]


def locale_string(language, region=''):
    return language + ('-r' + region if region else '')


def config_bytes(locale4, size=28, fill=0):
    """A ResTable_config of `size` bytes (28..64, multiple of 4) whose language/country bytes are locale4.
    fill: byte value for every other field (0 = 'any')."""
    assert len(locale4) == 4 and size >= 16 and size % 4 == 0
    body = bytearray([fill & 0xff]) * (size - 4)
    body[4:8] = locale4                       # offset 8 of the struct = 4 after the size field
    return struct.pack('<I', size) + bytes(body)


def two_letter_languages():
    return [a + b for a in LOWER for b in LOWER]


def three_letter_languages():
    return [a + b + c for a in LOWER for b in LOWER for c in LOWER]


def two_char_regions():
    return [a + b for a in UPPER_DIGIT for b in UPPER_DIGIT]


def three_digit_regions():
    return [a + b + c for a in DIGITS for b in DIGITS for c in DIGITS]
