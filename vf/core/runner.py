"""Shared plumbing for every check: context (counters, failures), sharded execution,
Hypothesis collect-then-shrink helpers, known-findings registry, evidence and replay files.

A check module (vf/checks/cNN.py) defines

    PROPERTY = "Cnn"
    LEVEL    = "exploration" | "fault_enumeration" | ...
    RULE     = "<how cases are generated and what makes one non-trivial/distinct>"
    ASSUMPTIONS = [...]                       (optional)
    def shards(tier, seed) -> list            picklable shard descriptors
    def run_shard(ctx, shard) -> None         generate + check; report via ctx.case()/ctx.fail()
    def replay(ctx, case) -> None             re-evaluate the oracle on one concrete case (dict)
    MATCHERS = {name: fn(bucket, case, msg) -> bool}     (optional; for open known findings)
    EXHAUSTIVE = bool or fn(tier)->bool       (optional)
    EXTRA_COVERAGE = fn(merged) -> dict       (optional)

Exit status contract (run.py): 0 held / 1 VIOLATION / 2 harness error.
"""
import hashlib
import json
import os
import sys
import time
import traceback
import multiprocessing as mp
from collections import Counter

VERIF = os.path.dirname(os.path.dirname(os.path.dirname(os.path.abspath(__file__))))
MAX_CASES_PER_BUCKET = 3
MAX_SAMPLES = 8


class HarnessError(Exception):
    """Something is wrong with the checking machinery (never a VIOLATION)."""


class _ShrinkHit(Exception):
    pass


def digest(obj):
    if isinstance(obj, (bytes, bytearray)):
        b = bytes(obj)
    elif isinstance(obj, str):
        b = obj.encode('utf-8', 'surrogatepass')
    else:
        b = repr(obj).encode('utf-8', 'surrogatepass')
    return hashlib.blake2b(b, digest_size=8).digest()


def jsonable(o, depth=0):
    """Best-effort conversion of a case/sample to JSON-safe data (bytes -> hex)."""
    if isinstance(o, (bytes, bytearray)):
        return {'hex': bytes(o).hex()}
    if isinstance(o, str):
        try:
            o.encode('utf-8')
            return o
        except UnicodeEncodeError:
            return {'utf16units': [c for c in _units(o)]}
    if isinstance(o, (int, float, bool)) or o is None:
        return o
    if isinstance(o, dict):
        return {str(k): jsonable(v, depth + 1) for k, v in o.items()}
    if isinstance(o, (list, tuple, set, frozenset)):
        return [jsonable(v, depth + 1) for v in (sorted(o, key=repr) if isinstance(o, (set, frozenset)) else o)]
    return repr(o)


def unhex(o):
    """Inverse of jsonable for bytes and surrogate strings (recursive)."""
    if isinstance(o, dict):
        if set(o) == {'hex'}:
            return bytes.fromhex(o['hex'])
        if set(o) == {'utf16units'}:
            import struct
            return struct.pack('<%dH' % len(o['utf16units']), *o['utf16units']).decode('utf-16-le', 'surrogatepass')
        return {k: unhex(v) for k, v in o.items()}
    if isinstance(o, list):
        return [unhex(v) for v in o]
    return o


def _units(s):
    import struct
    b = s.encode('utf-16-le', 'surrogatepass')
    return struct.unpack('<%dH' % (len(b) // 2), b)


class Ctx:
    """Per-shard accumulator. `fail` never raises in collect mode."""

    def __init__(self, prop, tier, seed, shard_index=0):
        self.prop = prop
        self.tier = tier
        self.seed = seed
        self.shard_index = shard_index
        self.evaluations = 0
        self.nontrivial = set()
        self.classes = Counter()
        self.samples = []
        self.failures = {}      # bucket -> list of (size, case, msg)
        self.fail_counts = Counter()
        self.extra = Counter()  # free-form integer counters (filter rates, programs, ...)
        self.notes = []
        self._shrink_bucket = None
        self._t0 = time.time()

    # -- reporting API used by checks ---------------------------------------------------
    def case(self, nontrivial=False, key=None, labels=(), sample=None):
        """Count one generated case. key: anything hashable/bytes identifying the case
        (used for the distinct count). labels: class labels for the histogram."""
        self.evaluations += 1
        if nontrivial:
            self.nontrivial.add(digest(key if key is not None else self.evaluations))
        for l in ((labels,) if isinstance(labels, str) else labels):
            self.classes[l] += 1
        if sample is not None and len(self.samples) < MAX_SAMPLES and (nontrivial or not self.samples):
            if self.evaluations % 7 == 1 or len(self.samples) < 2:
                self.samples.append(jsonable(sample))

    def label(self, *labels):
        for l in labels:
            self.classes[l] += 1

    def count(self, name, n=1):
        self.extra[name] += n

    def fail(self, bucket, case, msg=''):
        """Record an oracle mismatch. bucket: short stable string naming the oracle clause
        and coarse case class. case: JSON-able dict sufficient for replay()."""
        bucket = str(bucket)
        if self._shrink_bucket is not None:
            if bucket == self._shrink_bucket:
                raise _ShrinkHit(bucket)
            return
        self.fail_counts[bucket] += 1
        jc = jsonable(case)
        size = len(json.dumps(jc))
        lst = self.failures.setdefault(bucket, [])
        lst.append((size, jc, str(msg)[:2000]))
        lst.sort(key=lambda t: t[0])
        del lst[MAX_CASES_PER_BUCKET:]

    def check(self, cond, bucket, case, msg=''):
        if not cond:
            self.fail(bucket, case() if callable(case) else case, msg)
        return cond

    def elapsed(self):
        return time.time() - self._t0

    def dump(self):
        return dict(evaluations=self.evaluations, nontrivial=self.nontrivial, classes=self.classes,
                    samples=self.samples, failures=self.failures, fail_counts=self.fail_counts,
                    extra=self.extra, notes=self.notes)


# -- Hypothesis helpers -----------------------------------------------------------------

def hyp_settings(max_examples, phases=None, **kw):
    from hypothesis import settings, HealthCheck, Phase
    if phases is None:
        phases = (Phase.generate,)
    return settings(max_examples=max_examples, database=None, deadline=None, derandomize=False,
                    report_multiple_bugs=False, phases=phases,
                    suppress_health_check=[HealthCheck.too_slow, HealthCheck.data_too_large,
                                           HealthCheck.large_base_example],
                    **kw)


def hyp_seed(ctx, salt=0):
    return (ctx.seed * 1000003 + ctx.shard_index * 7919 + salt) & 0x7fffffff


def hyp_collect(ctx, strategy, fn, max_examples, salt=0, shrink=True, shrink_examples=300, budget_s=None):
    """Collect phase: run fn(ctx, value) on max_examples generated values (fn reports mismatches
    with ctx.fail and must not raise for them). Then, for each bucket first seen in this call,
    run a bounded shrink phase and record the minimal case under the same bucket."""
    from hypothesis import given, seed
    import hypothesis.errors as he
    before = set(ctx.failures)
    t0 = time.time()

    @seed(hyp_seed(ctx, salt))
    @hyp_settings(max_examples)
    @given(strategy)
    def collect(v):
        if budget_s is not None and time.time() - t0 > budget_s:
            ctx.count('budget_skipped')
            return
        fn(ctx, v)

    try:
        collect()
    except (he.FailedHealthCheck, he.Unsatisfiable) as e:
        raise HarnessError('generator health check: %r' % (e,))
    if shrink:
        for bucket in [b for b in ctx.failures if b not in before]:
            hyp_shrink(ctx, strategy, fn, bucket, max_examples=shrink_examples, salt=salt)


def hyp_shrink(ctx, strategy, fn, bucket, max_examples=300, salt=0, budget_s=25):
    from hypothesis import given, seed, Phase
    minimal = []
    t0 = time.time()

    @seed(hyp_seed(ctx, salt))
    @hyp_settings(max_examples, phases=(Phase.generate, Phase.shrink))
    @given(strategy)
    def find(v):
        if minimal and time.time() - t0 > budget_s:
            return                    # shrink budget used up: keep the smallest case found so far
        sub = Ctx(ctx.prop, ctx.tier, ctx.seed, ctx.shard_index)
        sub._shrink_bucket = bucket
        try:
            fn(sub, v)
        except _ShrinkHit:
            minimal[:] = [v]
            raise AssertionError(bucket)

    try:
        find()
    except AssertionError:
        pass
    except Exception:
        return
    if minimal:
        ev = ctx.evaluations
        nt = set(ctx.nontrivial)
        fn(ctx, minimal[0])           # re-record the minimal case (collect mode)
        ctx.evaluations = ev
        ctx.nontrivial = nt


# -- known findings ---------------------------------------------------------------------

def load_findings(prop):
    path = os.path.join(VERIF, 'known_findings.json')
    if not os.path.exists(path):
        return []
    with open(path) as f:
        data = json.load(f)
    return [e for e in data.get('findings', []) if e.get('property') == prop]


# -- sharded execution ------------------------------------------------------------------

def _worker(args):
    modname, tier, seed, idx, shard = args
    _quiet()
    _preimport()
    import importlib
    mod = importlib.import_module(modname)
    ctx = Ctx(mod.PROPERTY, tier, seed, idx)
    try:
        mod.run_shard(ctx, shard)
    except HarnessError as e:
        return {'harness_error': 'shard %r: %s' % (shard, e)}
    except BaseException:
        return {'harness_error': 'shard %r raised:\n%s' % (shard, traceback.format_exc())}
    return ctx.dump()


def _quiet():
    try:
        from loguru import logger
        logger.remove()
    except Exception:
        pass
    import logging
    logging.disable(logging.CRITICAL)
    import warnings
    warnings.simplefilter('ignore')


def _preimport():
    """Import androguard before forking the workers: cheaper (imported once) and it keeps Hypothesis'
    generation independent of *when* a worker first imports it (a lazy import inside the first example was
    observed to change what is generated afterwards)."""
    import importlib
    for m in ('androguard.core.dex', 'androguard.core.analysis.analysis', 'androguard.core.axml',
              'androguard.core.apk', 'androguard.decompiler.decompile', 'androguard.misc', 'hypothesis'):
        try:
            importlib.import_module(m)
        except Exception as e:      # a broken tree shows up in the checks themselves
            sys.stderr.write('preimport %s failed: %r\n' % (m, e))
    _quiet()


def merge(dumps):
    m = dict(evaluations=0, nontrivial=set(), classes=Counter(), samples=[], failures={},
             fail_counts=Counter(), extra=Counter(), notes=[])
    for d in dumps:
        m['evaluations'] += d['evaluations']
        m['nontrivial'] |= d['nontrivial']
        m['classes'].update(d['classes'])
        m['extra'].update(d['extra'])
        m['fail_counts'].update(d['fail_counts'])
        m['notes'].extend(d['notes'])
        for s in d['samples']:
            if len(m['samples']) < MAX_SAMPLES:
                m['samples'].append(s)
        for b, lst in d['failures'].items():
            cur = m['failures'].setdefault(b, [])
            cur.extend(lst)
            cur.sort(key=lambda t: t[0])
            del cur[MAX_CASES_PER_BUCKET:]
    return m


def run_check(mod, tier, seed, jobs=None):
    """Returns exit status."""
    t0 = time.time()
    prop = mod.PROPERTY
    findings = load_findings(prop)
    matchers = getattr(mod, 'MATCHERS', {})
    out_lines = []

    # 1. regression cases of fixed findings and probes of open findings (run in-process)
    pre = Ctx(prop, tier, seed, 0)
    open_hit = {}
    for e in findings:
        if e['status'] == 'fixed':
            for case in e.get('regression', []):
                sub = Ctx(prop, tier, seed, 0)
                mod.replay(sub, unhex(case))
                for b, lst in sub.failures.items():
                    for (size, c, msg) in lst:
                        pre.fail('regression:%s:%s' % (e['id'], b), c, msg)
                pre.evaluations += 1
        elif e['status'] == 'open':
            still = False
            for case in e.get('probe', []):
                sub = Ctx(prop, tier, seed, 0)
                mod.replay(sub, unhex(case))
                pre.evaluations += 1
                if sub.failures:
                    still = True
            open_hit[e['id']] = still

    # 2. sharded generated search
    _preimport()
    shards = mod.shards(tier, seed)
    jobs = jobs or min(len(shards), int(os.environ.get('VERIF_JOBS', '16'))) or 1
    args = [(mod.__name__, tier, seed, i, s) for i, s in enumerate(shards)]
    if jobs == 1 or len(shards) == 1:
        dumps = [_worker(a) for a in args]
    else:
        ctxm = mp.get_context(getattr(mod, 'MP_CONTEXT', 'fork'))
        with ctxm.Pool(jobs, maxtasksperchild=getattr(mod, 'MAXTASKS', None)) as pool:
            dumps = pool.map(_worker, args, chunksize=1)
    errs = [d['harness_error'] for d in dumps if 'harness_error' in d]
    if errs:
        raise HarnessError('\n'.join(errs))
    m = merge([pre.dump()] + dumps)

    # 3. classify failures: known (open finding matcher) vs new
    new = {}
    known_counts = Counter()
    for b, lst in m['failures'].items():
        for (size, case, msg) in lst:
            matched = None
            for e in findings:
                if e['status'] != 'open':
                    continue
                fn = matchers.get(e.get('matcher'))
                if fn is not None and fn(b, unhex(case), msg):
                    matched = e['id']
                    break
            if matched:
                known_counts[matched] += m['fail_counts'].get(b, 1)
                open_hit[matched] = True
            else:
                new.setdefault(b, []).append((size, case, msg))
    for e in findings:
        if e['status'] == 'open' and open_hit.get(e['id']):
            out_lines.append('KNOWN-FINDING: property=%s %s' % (prop, e['what']))

    # 4. replay files for new violations
    status = 0
    nviol = 0
    for b, lst in sorted(new.items()):
        size, case, msg = lst[0]
        nviol += 1
        rdir = os.path.join(VERIF, 'replays', prop)
        os.makedirs(rdir, exist_ok=True)
        payload = {'property': prop, 'bucket': b, 'message': msg, 'case': case,
                   'occurrences': m['fail_counts'].get(b, 1)}
        name = hashlib.sha1(json.dumps(payload, sort_keys=True).encode()).hexdigest()[:16] + '.json'
        path = os.path.join(rdir, name)
        with open(path, 'w') as f:
            json.dump(payload, f, indent=1, sort_keys=True)
        out_lines.append('VIOLATION property=%s replay=%s' % (prop, path))
        out_lines.append('  bucket=%s occurrences=%d: %s' % (b, m['fail_counts'].get(b, 1), msg[:300].replace('\n', ' | ')))
        status = 1

    # 5. evidence
    exhaustive = getattr(mod, 'EXHAUSTIVE', False)
    if callable(exhaustive):
        exhaustive = exhaustive(tier)
    cov = {
        'evaluations': m['evaluations'],
        'distinct_nontrivial': len(m['nontrivial']),
        'rule': mod.RULE,
        'samples': m['samples'] or ['(no sample recorded)'],
        'classes': dict(sorted(m['classes'].items())),
        'counters': dict(sorted(m['extra'].items())),
        'shards': len(shards),
        'exhaustive': bool(exhaustive),
        'known_finding_hits': dict(known_counts),
        'failure_buckets': {b: m['fail_counts'].get(b, 1) for b in m['failures']},
    }
    extra_cov = getattr(mod, 'EXTRA_COVERAGE', None)
    if extra_cov:
        cov.update(extra_cov(m))
    ev = {
        'property_id': prop, 'tier': tier, 'seed': seed, 'level': mod.LEVEL, 'coverage': cov,
        'assumptions': list(getattr(mod, 'ASSUMPTIONS', [])) + m['notes'][:10],
        'wall_s': round(time.time() - t0, 2), 'violations': nviol,
    }
    # sensitivity experiments against a patched scratch tree (tools/verify_seeded.sh, tools/mut.sh) must not overwrite the
    # evidence of /repo: they point VERIF_EVIDENCE_DIR at a scratch directory
    evdir = os.environ.get('VERIF_EVIDENCE_DIR') or os.path.join(VERIF, 'evidence')
    os.makedirs(evdir, exist_ok=True)
    with open(os.path.join(evdir, prop + '.json'), 'w') as f:
        json.dump(ev, f, indent=1, sort_keys=True)
        f.write('\n')
    for l in out_lines:
        print(l)
    print('%s %s seed=%d: evaluations=%d distinct_nontrivial=%d violations=%d known=%d wall=%.1fs' % (
        prop, tier, seed, m['evaluations'], len(m['nontrivial']), nviol, sum(known_counts.values()), time.time() - t0))
    if m['evaluations'] < 1 or len(m['nontrivial']) < 2:
        raise HarnessError('vacuous run: evaluations=%d distinct_nontrivial=%d' % (m['evaluations'], len(m['nontrivial'])))
    return status


def run_replay(mod, path):
    with open(path) as f:
        payload = json.load(f)
    ctx = Ctx(mod.PROPERTY, 'quick', 0, 0)
    mod.replay(ctx, unhex(payload['case']))
    if ctx.failures:
        for b, lst in ctx.failures.items():
            print('VIOLATION property=%s replay=%s' % (mod.PROPERTY, os.path.abspath(path)))
            print('  bucket=%s: %s' % (b, lst[0][2][:500]))
        return 1
    print('%s replay %s: property holds on this case' % (mod.PROPERTY, path))
    return 0
