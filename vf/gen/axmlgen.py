"""Independent writer (and strict reader) for Android binary XML (ResXMLTree), typed from
frameworks/base/libs/androidfw/include/androidfw/ResourceTypes.h. Imports nothing from androguard.

API SUMMARY (for other builders: C26, C27, C31 manifest queries, C35 fuzzing)
---------------------------------------------------------------------------------------------------
Model
  Attr(ns, name, type, data=0, raw=None, resid=None)
        ns    namespace URI (str) or None            name  attribute name (str; may be '' when resid is given)
        type  Res_value dataType (TYPE_* below)      data  32-bit payload (ignored for TYPE_STRING)
        raw   TYPE_STRING: the string value (required; data and rawValue both become its pool index)
              other types: optional source text stored as rawValue (None -> rawValue = 0xFFFFFFFF)
        resid resource id of the attribute NAME -> the name string is put at the front of the pool and
              gets an entry in the RES_XML_RESOURCE_MAP chunk (None -> plain pool string)
  Element(ns, name, attrs=(), children=(), text=None, nsdecls=(), line=1, comment=None)
        ns/name     element namespace URI (or None) and local name
        children    list of Element and str (str = a CDATA chunk at that position: mixed content allowed)
        text        shortcut: a CDATA chunk placed before the children
        nsdecls     [(prefix, uri), ...] START_NAMESPACE chunks emitted before this element and closed
                    (END_NAMESPACE, reverse order) after its END_ELEMENT
  Document(root, utf8=False, extra_strings=(), pre_strings=())
        utf8           string pool encoding (UTF8_FLAG) instead of UTF-16
        extra_strings  unused strings appended to the pool; pre_strings: unused strings placed right after
                       the resource-mapped names (shifts all indices)
Writer
  build(doc) -> bytes                      Document -> complete RES_XML_TYPE file
  build_axml(root, utf8=False, **kw)       same, from a root Element
  string_pool(strings, utf8) -> bytes      just a ResStringPool chunk (also usable for resources.arsc)
  Helpers for explicit trees (C31/C35):  E(name, attrs=(), children=(), ns=None, nsdecls=(), text=None)
      a_str(name, s, ns=NS_ANDROID), a_int(...), a_hex(...), a_bool(...), a_ref(name, resid, ns=...),
      a_typed(name, type, data, ns=..., raw=None); android attribute names known to ANDROID_ATTR_IDS get their
      public resource id automatically when with_resid=True is passed to the helper.
      manifest_root(package, attrs=(), children=()) -> Element('manifest') with xmlns:android declared.
Reader (strict; used for self-tests on shipped files, raises AxmlFormatError on anything unexpected)
  parse(data) -> Document                  inverse of build for the subset the writer emits (+ styles skipped)
  read_pool(data, off) -> (strings, flags, chunk_size)
JSON
  to_json(doc) / from_json(obj)            lossless (used in replay files)
Domain predicates (pure functions on the model)
  in_domain(doc)                  every used namespace URI is bound to a visible prefix, attributes unique, one declaration per prefix
  rebind_keeps_uri(visible, decls) / has_rebind_keeping_uri(doc)   shape of the C26 open finding 'rebound-prefix'
Hypothesis strategies (hypothesis is imported lazily, only by these)
  names(), prefixes(), uris()     ASCII, inside the alphabet androguard's _fix_name / lxml accept unchanged
  xml_chars(bmp_only), xml_text(bmp_only, max_size, long_form=None|'utf8'|'utf16')   XML 1.0 Chars; some strings start with U+FEFF
  data32(), complex_data()        32-bit payloads biased to boundaries / structured complex values
  values(strings) -> (type, data, raw)   every specified value type, complex values with defined units only
  documents(max_depth=3, max_children=3, max_attrs=5, mixed=False, utf8=None, long_strings=False, resmap=True,
            value_strategy=None, allow_rebind_keeping_uri=True) -> Document
        well-formed documents (see in_domain), XML-name-safe names, XML-Char-safe text; mixed=True puts text chunks
        between children; long_strings=True adds strings that need the 2-byte / 2-word length prefix.
Example (explicit tree, e.g. a manifest for APK-level checks):
    root = manifest_root('com.ex.app', [a_int('versionCode', 7, with_resid=True)],
                         [E('uses-permission', [a_str('name', 'android.permission.INTERNET', with_resid=True)]),
                          E('application', [a_ref('label', 0x7F040001)], [E('activity', [a_str('name', '.Main')])])])
    data = build_axml(root, utf8=True)          # bytes of AndroidManifest.xml
Format facts used (ResourceTypes.h): chunk header = type u16, headerSize u16, size u32. String pool header is
28 bytes: stringCount, styleCount, flags (SORTED 1<<0, UTF8 1<<8), stringsStart, stylesStart, then u32 offsets;
stringsStart = 28 + 4*(strings+styles) (androguard recomputes stringCount from it). UTF-16 string: u16 length
(>0x7FFF: two u16, high word | 0x8000 first), units, u16 0. UTF-8 string: UTF-16 length then byte length, each one
byte or (>0x7F) two bytes with high byte | 0x80 first; bytes; NUL. String data padded to 4 bytes.
XML node: header (headerSize 16) + lineNumber u32 + comment ref u32, then the ext struct. START_ELEMENT ext:
ns, name, attributeStart u16 (20), attributeSize u16 (20), attributeCount u16, idIndex, classIndex, styleIndex u16
(1-based index of the un-namespaced attributes "id"/"class"/"style", 0 if absent); attribute = ns, name, rawValue,
Res_value {size u16 = 8, res0 u8 = 0, dataType u8, data u32}. CDATA ext = data ref + Res_value{8,0,TYPE_NULL,0}.
"""
import struct

NS_ANDROID = 'http://schemas.android.com/apk/res/android'
NO_ENTRY = 0xFFFFFFFF

RES_STRING_POOL_TYPE = 0x0001
RES_XML_TYPE = 0x0003
RES_XML_START_NAMESPACE_TYPE = 0x0100
RES_XML_END_NAMESPACE_TYPE = 0x0101
RES_XML_START_ELEMENT_TYPE = 0x0102
RES_XML_END_ELEMENT_TYPE = 0x0103
RES_XML_CDATA_TYPE = 0x0104
RES_XML_RESOURCE_MAP_TYPE = 0x0180
SORTED_FLAG = 1 << 0
UTF8_FLAG = 1 << 8

# Res_value::dataType
TYPE_NULL = 0x00
TYPE_REFERENCE = 0x01
TYPE_ATTRIBUTE = 0x02
TYPE_STRING = 0x03
TYPE_FLOAT = 0x04
TYPE_DIMENSION = 0x05
TYPE_FRACTION = 0x06
TYPE_DYNAMIC_REFERENCE = 0x07
TYPE_DYNAMIC_ATTRIBUTE = 0x08
TYPE_INT_DEC = 0x10
TYPE_INT_HEX = 0x11
TYPE_INT_BOOLEAN = 0x12
TYPE_INT_COLOR_ARGB8 = 0x1C
TYPE_INT_COLOR_RGB8 = 0x1D
TYPE_INT_COLOR_ARGB4 = 0x1E
TYPE_INT_COLOR_RGB4 = 0x1F

# A few ids from the platform's public.xml (stable API). Validated against the resource maps of shipped, aapt-built
# manifests by vf/checks/c26.py (self-test shard): pool string i <-> resource map entry i.
ANDROID_ATTR_IDS = {
    'theme': 0x01010000, 'label': 0x01010001, 'icon': 0x01010002, 'name': 0x01010003,
    'permission': 0x01010006, 'protectionLevel': 0x01010009, 'sharedUserId': 0x0101000b,
    'hasCode': 0x0101000c, 'persistent': 0x0101000d, 'enabled': 0x0101000e, 'debuggable': 0x0101000f,
    'exported': 0x01010010, 'process': 0x01010011, 'taskAffinity': 0x01010012,
    'authorities': 0x01010018, 'priority': 0x0101001c, 'launchMode': 0x0101001d,
    'screenOrientation': 0x0101001e, 'configChanges': 0x0101001f, 'description': 0x01010020,
    'targetPackage': 0x01010021, 'value': 0x01010024, 'resource': 0x01010025, 'mimeType': 0x01010026,
    'scheme': 0x01010027, 'host': 0x01010028, 'port': 0x01010029, 'path': 0x0101002a,
    'minSdkVersion': 0x0101020c, 'versionCode': 0x0101021b, 'versionName': 0x0101021c,
    'targetSdkVersion': 0x01010270, 'maxSdkVersion': 0x01010271, 'required': 0x0101028e,
    'glEsVersion': 0x01010281, 'allowBackup': 0x01010280,
}


class AxmlFormatError(ValueError):
    pass


class Attr:
    __slots__ = ('ns', 'name', 'type', 'data', 'raw', 'resid')

    def __init__(self, ns, name, type, data=0, raw=None, resid=None):
        self.ns, self.name, self.type, self.data, self.raw, self.resid = ns, name, type, data & 0xFFFFFFFF, raw, resid
        if type == TYPE_STRING and raw is None:
            raise ValueError('TYPE_STRING attribute needs raw=<string value>')

    def __repr__(self):
        return 'Attr(%r, %r, 0x%02x, 0x%08x, %r, %r)' % (self.ns, self.name, self.type, self.data, self.raw, self.resid)

    def __eq__(self, o):
        return isinstance(o, Attr) and all(getattr(self, k) == getattr(o, k) for k in self.__slots__)

    __hash__ = None


class Element:
    __slots__ = ('ns', 'name', 'attrs', 'children', 'nsdecls', 'line', 'comment')

    def __init__(self, ns, name, attrs=(), children=(), text=None, nsdecls=(), line=1, comment=None):
        self.ns, self.name = ns, name
        self.attrs = list(attrs)
        self.children = ([text] if text is not None else []) + list(children)
        self.nsdecls = [tuple(d) for d in nsdecls]
        self.line, self.comment = line, comment

    def __repr__(self):
        return 'Element(%r, %r, attrs=%r, children=%r, nsdecls=%r)' % (self.ns, self.name, self.attrs, self.children, self.nsdecls)

    def __eq__(self, o):
        return isinstance(o, Element) and all(getattr(self, k) == getattr(o, k) for k in self.__slots__)

    __hash__ = None

    def walk(self):
        yield self
        for c in self.children:
            if isinstance(c, Element):
                for e in c.walk():
                    yield e


class Document:
    __slots__ = ('root', 'utf8', 'extra_strings', 'pre_strings', 'meta', 'sorted_flag')
    _FIELDS = ('root', 'utf8', 'extra_strings', 'pre_strings')

    def __init__(self, root, utf8=False, extra_strings=(), pre_strings=(), sorted_flag=False):
        self.root, self.utf8 = root, bool(utf8)
        # sorted_flag: set ResStringPool SORTED_FLAG -- only honoured by build() when the pool it writes really is sorted
        # (by UTF-16 code units), so that the flag never lies
        self.sorted_flag = bool(sorted_flag)
        self.extra_strings, self.pre_strings = list(extra_strings), list(pre_strings)
        self.meta = {}              # generator notes; not serialised, not compared

    def __repr__(self):
        return 'Document(%r, utf8=%r, extra_strings=%r, pre_strings=%r)' % (self.root, self.utf8, self.extra_strings, self.pre_strings)

    def __eq__(self, o):
        return isinstance(o, Document) and all(getattr(self, k) == getattr(o, k) for k in self._FIELDS)

    __hash__ = None


# ---------------------------------------------------------------------------------------------------
# string pool

def utf16_units(s):
    return len(s.encode('utf-16-le', 'surrogatepass')) // 2


def _len8(n):
    if n > 0x7FFF:
        raise ValueError('UTF-8 pool string too long (%d)' % n)
    return bytes([n]) if n <= 0x7F else bytes([0x80 | (n >> 8), n & 0xFF])


def _len16(n):
    if n > 0x7FFFFFFF:
        raise ValueError('UTF-16 pool string too long')
    return struct.pack('<H', n) if n <= 0x7FFF else struct.pack('<HH', 0x8000 | (n >> 16), n & 0xFFFF)


def encode_string(s, utf8):
    """One string-pool entry (length prefix(es), code units, terminator)."""
    if utf8:
        b = s.encode('utf-8', 'surrogatepass')
        return _len8(utf16_units(s)) + _len8(len(b)) + b + b'\x00'
    b = s.encode('utf-16-le', 'surrogatepass')
    return _len16(len(b) // 2) + b + b'\x00\x00'


def string_pool(strings, utf8=False, flags_extra=0):
    offs, data = [], bytearray()
    for s in strings:
        offs.append(len(data))
        data += encode_string(s, utf8)
    while len(data) % 4:
        data.append(0)
    strings_start = 28 + 4 * len(strings)
    size = strings_start + len(data)
    flags = (UTF8_FLAG if utf8 else 0) | flags_extra
    return (struct.pack('<HHIIIIII', RES_STRING_POOL_TYPE, 28, size, len(strings), 0, flags, strings_start, 0)
            + b''.join(struct.pack('<I', o) for o in offs) + bytes(data))


# ---------------------------------------------------------------------------------------------------
# writer

class _Pool:
    def __init__(self):
        self.keys = {}
        self.strings = []
        self.resids = []

    def add(self, s, resid=None):
        k = (s, resid)
        if k not in self.keys:
            self.keys[k] = len(self.strings)
            self.strings.append(s)
        return self.keys[k]

    def ref(self, s, resid=None):
        if s is None:
            return NO_ENTRY
        return self.keys[(s, resid)]


def _node(t, line, comment_ref, ext):
    return struct.pack('<HHIII', t, 16, 16 + len(ext), line & 0xFFFFFFFF, comment_ref) + ext


def build(doc):
    pool = _Pool()
    # 1. attribute names that carry a resource id come first (sorted by id, like aapt), parallel to the resource map
    mapped = {}
    for e in doc.root.walk():
        for a in e.attrs:
            if a.resid is not None:
                mapped[(a.name, a.resid)] = True
    for (name, rid) in sorted(mapped, key=lambda k: (k[1], k[0])):
        pool.add(name, rid)
        pool.resids.append(rid)
    for s in doc.pre_strings:
        pool.keys[('\x00pre', len(pool.strings))] = len(pool.strings)   # never deduplicated with used strings
        pool.strings.append(s)
    # 2. everything else in order of first use

    def collect(e):
        for (p, u) in e.nsdecls:
            pool.add(p)
            pool.add(u)
        if e.comment is not None:
            pool.add(e.comment)
        if e.ns is not None:
            pool.add(e.ns)
        pool.add(e.name)
        for a in e.attrs:
            if a.ns is not None:
                pool.add(a.ns)
            if a.resid is None:
                pool.add(a.name)
            if a.raw is not None:
                pool.add(a.raw)
        for c in e.children:
            if isinstance(c, Element):
                collect(c)
            else:
                pool.add(c)
    collect(doc.root)
    for s in doc.extra_strings:
        pool.keys[('\x00extra', len(pool.strings))] = len(pool.strings)
        pool.strings.append(s)

    out = bytearray()

    def emit(e):
        for (p, u) in e.nsdecls:
            out.extend(_node(RES_XML_START_NAMESPACE_TYPE, e.line, NO_ENTRY, struct.pack('<II', pool.ref(p), pool.ref(u))))
        if len(e.attrs) > 0xFFFF:
            raise ValueError('too many attributes')
        idx = {'id': 0, 'class': 0, 'style': 0}
        ab = bytearray()
        for i, a in enumerate(e.attrs):
            if a.ns is None and a.name in idx and idx[a.name] == 0:
                idx[a.name] = i + 1
            raw = pool.ref(a.raw) if a.raw is not None else NO_ENTRY
            data = raw if a.type == TYPE_STRING else a.data
            ab += struct.pack('<IIIHBBI', pool.ref(a.ns), pool.ref(a.name, a.resid), raw, 8, 0, a.type, data)
        ext = struct.pack('<IIHHHHHH', pool.ref(e.ns), pool.ref(e.name), 20, 20, len(e.attrs),
                          idx['id'], idx['class'], idx['style']) + ab
        cref = pool.ref(e.comment) if e.comment is not None else NO_ENTRY
        out.extend(_node(RES_XML_START_ELEMENT_TYPE, e.line, cref, ext))
        for c in e.children:
            if isinstance(c, Element):
                emit(c)
            else:
                out.extend(_node(RES_XML_CDATA_TYPE, e.line, NO_ENTRY,
                                 struct.pack('<IHBBI', pool.ref(c), 8, 0, TYPE_NULL, 0)))
        out.extend(_node(RES_XML_END_ELEMENT_TYPE, e.line, NO_ENTRY, struct.pack('<II', pool.ref(e.ns), pool.ref(e.name))))
        for (p, u) in reversed(e.nsdecls):
            out.extend(_node(RES_XML_END_NAMESPACE_TYPE, e.line, NO_ENTRY, struct.pack('<II', pool.ref(p), pool.ref(u))))
    emit(doc.root)

    u16 = [x.encode('utf-16-be', 'surrogatepass') for x in pool.strings]
    really_sorted = doc.sorted_flag and u16 == sorted(u16)
    doc.meta['sorted_flag_set'] = really_sorted
    sp = string_pool(pool.strings, doc.utf8, SORTED_FLAG if really_sorted else 0)
    rm = b''
    if pool.resids:
        rm = struct.pack('<HHI', RES_XML_RESOURCE_MAP_TYPE, 8, 8 + 4 * len(pool.resids)) + b''.join(
            struct.pack('<I', i) for i in pool.resids)
    body = sp + rm + bytes(out)
    return struct.pack('<HHI', RES_XML_TYPE, 8, 8 + len(body)) + body


def build_axml(root, utf8=False, **kw):
    return build(Document(root, utf8=utf8, **kw))


# ---------------------------------------------------------------------------------------------------
# helpers for explicit trees

def E(name, attrs=(), children=(), ns=None, nsdecls=(), text=None, **kw):
    return Element(ns, name, attrs, children, text=text, nsdecls=nsdecls, **kw)


def _rid(name, ns, with_resid):
    return ANDROID_ATTR_IDS.get(name) if (with_resid and ns == NS_ANDROID) else None


def a_typed(name, type, data, ns=NS_ANDROID, raw=None, with_resid=False):
    return Attr(ns, name, type, data, raw, _rid(name, ns, with_resid))


def a_str(name, s, ns=NS_ANDROID, with_resid=False):
    return Attr(ns, name, TYPE_STRING, 0, s, _rid(name, ns, with_resid))


def a_int(name, v, ns=NS_ANDROID, with_resid=False):
    return Attr(ns, name, TYPE_INT_DEC, v & 0xFFFFFFFF, None, _rid(name, ns, with_resid))


def a_hex(name, v, ns=NS_ANDROID, with_resid=False):
    return Attr(ns, name, TYPE_INT_HEX, v & 0xFFFFFFFF, None, _rid(name, ns, with_resid))


def a_bool(name, v, ns=NS_ANDROID, with_resid=False):
    return Attr(ns, name, TYPE_INT_BOOLEAN, 0xFFFFFFFF if v else 0, None, _rid(name, ns, with_resid))


def a_ref(name, resid, ns=NS_ANDROID, with_resid=False):
    return Attr(ns, name, TYPE_REFERENCE, resid, None, _rid(name, ns, with_resid))


def manifest_root(package, attrs=(), children=(), extra_nsdecls=()):
    """<manifest xmlns:android=... package=...> skeleton; everything else is the caller's explicit tree."""
    return Element(None, 'manifest', [Attr(None, 'package', TYPE_STRING, 0, package)] + list(attrs), children,
                   nsdecls=[('android', NS_ANDROID)] + list(extra_nsdecls))


# ---------------------------------------------------------------------------------------------------
# strict reader (inverse of the writer)

def _u(fmt, data, off):
    n = struct.calcsize(fmt)
    if off < 0 or off + n > len(data):
        raise AxmlFormatError('read past end at %d' % off)
    return struct.unpack_from(fmt, data, off)


def read_pool(data, off=0):
    t, hs, size = _u('<HHI', data, off)
    if t != RES_STRING_POOL_TYPE or hs != 28 or off + size > len(data) or size % 4:
        raise AxmlFormatError('bad string pool header')
    nstr, nsty, flags, sstart, stystart = _u('<IIIII', data, off + 8)
    if sstart != 28 + 4 * (nstr + nsty):
        raise AxmlFormatError('stringsStart %d != 28+4*(%d+%d)' % (sstart, nstr, nsty))
    utf8 = bool(flags & UTF8_FLAG)
    end = off + (stystart if nsty else size)
    strings = []
    for i in range(nstr):
        (o,) = _u('<I', data, off + 28 + 4 * i)
        p = off + sstart + o
        if utf8:
            (b0,) = _u('<B', data, p)
            if b0 & 0x80:
                (b1,) = _u('<B', data, p + 1)
                ulen, p = ((b0 & 0x7F) << 8) | b1, p + 2
            else:
                ulen, p = b0, p + 1
            (b0,) = _u('<B', data, p)
            if b0 & 0x80:
                (b1,) = _u('<B', data, p + 1)
                blen, p = ((b0 & 0x7F) << 8) | b1, p + 2
            else:
                blen, p = b0, p + 1
            if p + blen + 1 > end or data[p + blen] != 0:
                raise AxmlFormatError('string %d not terminated / outside pool' % i)
            s = data[p:p + blen].decode('utf-8', 'surrogatepass')
            if utf16_units(s) != ulen:
                raise AxmlFormatError('string %d: UTF-16 length %d declared, %d decoded' % (i, ulen, utf16_units(s)))
        else:
            (w0,) = _u('<H', data, p)
            if w0 & 0x8000:
                (w1,) = _u('<H', data, p + 2)
                ulen, p = ((w0 & 0x7FFF) << 16) | w1, p + 4
            else:
                ulen, p = w0, p + 2
            if p + 2 * ulen + 2 > end or data[p + 2 * ulen:p + 2 * ulen + 2] != b'\0\0':
                raise AxmlFormatError('string %d not terminated / outside pool' % i)
            s = data[p:p + 2 * ulen].decode('utf-16-le', 'surrogatepass')
        strings.append(s)
    return strings, flags, size


def parse(data):
    """Strict reader for what build() emits (additionally tolerates a style section in the pool, which is skipped)."""
    t, hs, size = _u('<HHI', data, 0)
    if t != RES_XML_TYPE or hs != 8 or size != len(data):
        raise AxmlFormatError('bad file header %r' % ((t, hs, size, len(data)),))
    strings, flags, psize = read_pool(data, 8)
    off = 8 + psize
    resids = []

    def sref(i):
        if i == NO_ENTRY:
            return None
        if i >= len(strings):
            raise AxmlFormatError('string index %d out of range' % i)
        return strings[i]
    used = set()
    stack, pending_ns, open_ns = [], [], []
    root = None
    while off < len(data):
        t, hs, size = _u('<HHI', data, off)
        if size < hs or off + size > len(data) or size % 4:
            raise AxmlFormatError('bad chunk size at %d' % off)
        if t == RES_XML_RESOURCE_MAP_TYPE:
            if hs != 8 or resids or root is not None:
                raise AxmlFormatError('unexpected resource map')
            resids = [_u('<I', data, off + 8 + 4 * i)[0] for i in range((size - 8) // 4)]
            off += size
            continue
        if hs != 16:
            raise AxmlFormatError('node header size %d' % hs)
        line, cref = _u('<II', data, off + 8)
        b = off + 16
        if t == RES_XML_START_NAMESPACE_TYPE:
            p, u = _u('<II', data, b)
            pending_ns.append((sref(p), sref(u)))
            used.update((p, u))
        elif t == RES_XML_END_NAMESPACE_TYPE:
            p, u = _u('<II', data, b)
            if not open_ns or open_ns[-1][0] != (sref(p), sref(u)) or open_ns[-1][1] != len(stack):
                raise AxmlFormatError('unbalanced END_NAMESPACE at %d' % off)
            open_ns.pop()
        elif t == RES_XML_START_ELEMENT_TYPE:
            ns, name, astart, asize, acount, idi, cli, sti = _u('<IIHHHHHH', data, b)
            if astart != 20 or asize != 20 or size != 16 + 20 + 20 * acount:
                raise AxmlFormatError('attribute layout at %d' % off)
            attrs = []
            for i in range(acount):
                ans, an, raw, vsz, res0, vt, vd = _u('<IIIHBBI', data, b + 20 + 20 * i)
                if vsz != 8 or res0 != 0:
                    raise AxmlFormatError('Res_value header at %d' % off)
                if vt == TYPE_STRING and raw != vd:
                    raise AxmlFormatError('string attribute raw != data at %d' % off)
                rid = resids[an] if an < len(resids) else None
                attrs.append(Attr(sref(ans), sref(an), vt, 0 if vt == TYPE_STRING else vd, sref(raw), rid))
                used.update((ans, an, raw))
            e = Element(sref(ns), sref(name), attrs, [], nsdecls=pending_ns, line=line, comment=sref(cref))
            used.update((ns, name, cref))
            for d in pending_ns:
                open_ns.append((d, len(stack)))
            pending_ns = []
            if stack:
                stack[-1].children.append(e)
            elif root is None:
                root = e
            else:
                raise AxmlFormatError('second root element')
            stack.append(e)
        elif t == RES_XML_END_ELEMENT_TYPE:
            ns, name = _u('<II', data, b)
            if not stack or (stack[-1].ns, stack[-1].name) != (sref(ns), sref(name)) or pending_ns:
                raise AxmlFormatError('unbalanced END_ELEMENT at %d' % off)
            if open_ns and open_ns[-1][1] > len(stack) - 1:
                raise AxmlFormatError('namespace still open inside closed element')
            stack.pop()
        elif t == RES_XML_CDATA_TYPE:
            (d, vsz, res0, vt, vd) = _u('<IHBBI', data, b)
            if not stack or sref(d) is None:
                raise AxmlFormatError('CDATA outside element')
            stack[-1].children.append(sref(d))
            used.add(d)
        else:
            raise AxmlFormatError('unknown chunk 0x%04x at %d' % (t, off))
        off += size
    if stack or open_ns or pending_ns or root is None:
        raise AxmlFormatError('document not closed')
    doc = Document(root, utf8=bool(flags & UTF8_FLAG))
    doc.extra_strings = [s for i, s in enumerate(strings) if i not in used]
    return doc


# ---------------------------------------------------------------------------------------------------
# JSON

def to_json(doc):
    def el(e):
        return {'ns': e.ns, 'name': e.name, 'line': e.line, 'comment': e.comment,
                'nsdecls': [list(d) for d in e.nsdecls],
                'attrs': [[a.ns, a.name, a.type, a.data, a.raw, a.resid] for a in e.attrs],
                'children': [el(c) if isinstance(c, Element) else c for c in e.children]}
    return {'utf8': doc.utf8, 'extra_strings': list(doc.extra_strings), 'pre_strings': list(doc.pre_strings),
            'sorted_flag': doc.sorted_flag, 'root': el(doc.root)}


def from_json(o):
    def el(d):
        return Element(d['ns'], d['name'], [Attr(*a) for a in d['attrs']],
                       [el(c) if isinstance(c, dict) else c for c in d['children']],
                       nsdecls=[tuple(x) for x in d['nsdecls']], line=d.get('line', 1), comment=d.get('comment'))
    return Document(el(o['root']), o['utf8'], o.get('extra_strings', ()), o.get('pre_strings', ()), o.get('sorted_flag', False))


# ---------------------------------------------------------------------------------------------------
# Hypothesis strategies

NAME_START = 'abcdefghijklmnopqrstuvwxyzABCDEFGHIJKLMNOPQRSTUVWXYZ_'
NAME_REST = NAME_START + '0123456789.-'
DEFINED_TYPES = (TYPE_REFERENCE, TYPE_ATTRIBUTE, TYPE_STRING, TYPE_FLOAT, TYPE_DIMENSION, TYPE_FRACTION,
                 TYPE_INT_DEC, TYPE_INT_HEX, TYPE_INT_BOOLEAN, TYPE_INT_COLOR_ARGB8, TYPE_INT_COLOR_RGB8,
                 TYPE_INT_COLOR_ARGB4, TYPE_INT_COLOR_RGB4)
FIXED_URIS = (NS_ANDROID, 'http://schemas.android.com/apk/res-auto', 'http://schemas.android.com/tools',
              'urn:x-test:ns', 'http://example.org/ns/1')


COMMON_NAMES = ('a', 'b', 'item', 'manifest', 'application', 'activity', 'intent-filter', 'action', 'meta-data', 'name',
                'value', 'label', 'id', 'class', 'style', 'layout_width', 'x.y', '_z', 'A-1', 'Uses_Permission', 'k9', 'tools')
COMMON_PREFIXES = ('android', 'app', 'tools', 'a', 'p', 'q', 'x-1', '_n', 'N.s')


def names():
    """XML names inside androguard's sanitiser-safe alphabet: [A-Za-z_][A-Za-z0-9._-]* (no colon)."""
    from hypothesis import strategies as st
    rnd = st.builds(lambda a, b: a + b, st.sampled_from(NAME_START), st.text(NAME_REST, max_size=8))
    return st.one_of(st.sampled_from(COMMON_NAMES), st.sampled_from(COMMON_NAMES), rnd)


def prefixes():
    """Namespace prefixes: ASCII NCNames, not starting with 'xml', not of lxml's auto-generated form ns<digits>."""
    from hypothesis import strategies as st
    import re
    rnd = st.builds(lambda a, b: a + b, st.sampled_from(NAME_START), st.text(NAME_REST, max_size=8)).filter(
        lambda s: not s.lower().startswith('xml') and not re.match(r'^ns\d+$', s))
    return st.one_of(st.sampled_from(COMMON_PREFIXES), st.sampled_from(COMMON_PREFIXES), rnd)


def uris():
    from hypothesis import strategies as st
    gen = st.builds(lambda scheme, host, path: scheme + host + ''.join('/' + p for p in path),
                    st.sampled_from(['http://', 'https://', 'urn:', 'content://']),
                    st.text('abcdefghijklmnopqrstuvwxyz0123456789.-', min_size=1, max_size=10).filter(
                        lambda h: h[0].isalpha()),
                    st.lists(st.text('abcdefghijklmnopqrstuvwxyzABCDEFGHIJKLMNOPQRSTUVWXYZ0123456789._~-', min_size=1, max_size=6), max_size=3))
    return st.one_of(st.sampled_from(FIXED_URIS), st.sampled_from(FIXED_URIS), gen)


def xml_chars(bmp_only=False):
    """Characters of the XML 1.0 Char production: #x9 | #xA | #xD | [#x20-#xD7FF] | [#xE000-#xFFFD] | [#x10000-#x10FFFF]"""
    from hypothesis import strategies as st
    ranges = [st.sampled_from('\t\n\r'), st.characters(min_codepoint=0x20, max_codepoint=0x7E),
              st.characters(min_codepoint=0x20, max_codepoint=0xD7FF),
              st.characters(min_codepoint=0xE000, max_codepoint=0xFFFD),
              st.sampled_from('\ufeff\ufffd\ue000\ud7ff\u0080\u07ff\u0800 <>&"\'')]
    if not bmp_only:
        ranges.append(st.characters(min_codepoint=0x10000, max_codepoint=0x10FFFF))
    return st.one_of(*ranges)


def xml_text(bmp_only=False, max_size=12, long_form=None):
    """Strings of XML Chars. Some start with U+FEFF. long_form: None | 'utf8' | 'utf16' forces a length that needs the
    long (2-byte / 2-word) length prefix of that pool encoding (> 0x7F bytes and/or units resp. > 0x7FFF units)."""
    from hypothesis import strategies as st
    base = st.text(xml_chars(bmp_only), max_size=max_size)
    bom = st.builds(lambda s: '\ufeff' + s, base)
    plain = st.one_of(base, base, base, bom, st.text('abcXYZ019 ._-', max_size=max_size))
    if long_form is None:
        return plain
    # utf8: around the 1-byte/2-byte boundary and above 0xFF (non-zero high byte); utf16: just above 0x7FFF (2-word form,
    # high word 0) and just above 0xFFFF (high word non-zero)
    size = (st.integers(0x30, 0x180) if long_form == 'utf8' else
            st.one_of(st.integers(0x8000, 0x8040), st.integers(0x8000, 0x8040), st.integers(0x10000, 0x10010)))
    return st.builds(lambda s, n: ((s or 'x') * (n // max(1, utf16_units(s or 'x')) + 1)),
                     st.text(xml_chars(bmp_only), min_size=1, max_size=6), size)


def complex_data():
    from hypothesis import strategies as st
    mant = st.one_of(st.sampled_from([0, 1, -1, 0x7FFFFF, -0x800000, 0x400000, -0x400000, 255, -255, 256, -256]),
                     st.integers(-0x800000, 0x7FFFFF))
    return st.builds(lambda m, r, u: ((m & 0xFFFFFF) << 8) | (r << 4) | u, mant, st.integers(0, 3), st.integers(0, 15))


def data32():
    from hypothesis import strategies as st
    return st.one_of(st.sampled_from([0, 1, 2, 0x7F, 0x80, 0xFF, 0x100, 0x7FFF, 0x8000, 0xFFFF, 0x10000, 0xFFFFFF,
                                      0x1000000, 0x01010003, 0x7F010000, 0x7FFFFFFF, 0x80000000, 0x80000001,
                                      0xFFFFFFFE, 0xFFFFFFFF, 0x3F800000, 0xBF800000, 0x7F800000, 0xFF800000,
                                      0x7FC00000, 0x00000001, 0x80000000, 0x00800000, 0x7F7FFFFF]),
                     st.integers(0, 0xFFFFFFFF), st.integers(0, 0xFFFF), complex_data())


def values(string_strategy, fraction_units=(0, 1), dimension_units=(0, 1, 2, 3, 4, 5)):
    """(type, data, raw) for a defined value type; complex values only with defined unit codes."""
    from hypothesis import strategies as st
    raw_opt = st.one_of(st.none(), st.none(), string_strategy)

    def cplx(units):
        return st.builds(lambda d, u: (d & ~0xF) | u, complex_data(), st.sampled_from(list(units)))
    return st.one_of(
        st.tuples(st.just(TYPE_STRING), st.just(0), string_strategy),
        st.tuples(st.sampled_from([TYPE_REFERENCE, TYPE_ATTRIBUTE, TYPE_FLOAT, TYPE_INT_DEC, TYPE_INT_HEX,
                                   TYPE_INT_BOOLEAN, TYPE_INT_COLOR_ARGB8, TYPE_INT_COLOR_RGB8, TYPE_INT_COLOR_ARGB4,
                                   TYPE_INT_COLOR_RGB4]), data32(), raw_opt),
        st.tuples(st.just(TYPE_DIMENSION), cplx(dimension_units), raw_opt),
        st.tuples(st.just(TYPE_FRACTION), cplx(fraction_units), raw_opt))


def rebound_uris(visible, decls):
    """URIs that lose a prefix on an element: `visible` is the prefix->URI map of the parent, `decls` the element's own
    declarations. e.g. <r xmlns:p="U"><x xmlns:p="V"/></r>: at x, {'U'}"""
    return {visible[p] for (p, u) in decls if p in visible and visible[p] != u}


def rebind_keeps_uri(visible, decls):
    """The declarations of one element that re-bind a visible prefix (p: U -> V, V != U) although U stays in scope on that
    element under another prefix (declared there or inherited). Legal XML, e.g.
    <r xmlns:p="U"><x xmlns:p="V" xmlns:q="U" q:k=""/></r>  ->  [('p', 'V')];  shape of the C26 open finding 'rebound-prefix'."""
    after = dict(visible)
    after.update(dict(decls))
    return [(p, v) for (p, v) in decls if p in visible and visible[p] != v and visible[p] in after.values()]


def has_rebind_keeping_uri(doc):
    def walk(e, visible):
        if rebind_keeps_uri(visible, e.nsdecls):
            return True
        vis = dict(visible)
        vis.update(dict(e.nsdecls))
        return any(walk(c, vis) for c in e.children if isinstance(c, Element))
    return walk(doc.root, {})


def in_domain(doc):
    """Well-formedness conditions of documents(): every namespace URI used by an element or attribute is bound to a
    prefix that is visible there; (namespace, name, resid) of attributes unique per element; one declaration per prefix per element."""
    def walk(e, visible):
        vis = dict(visible)
        vis.update(dict(e.nsdecls))
        if len({p for (p, _) in e.nsdecls}) != len(e.nsdecls):
            return False
        bound = set(vis.values())
        if e.ns is not None and e.ns not in bound:
            return False
        keys = [(a.ns, a.name, a.resid) for a in e.attrs]
        if len(set(keys)) != len(keys) or any(a.ns is not None and a.ns not in bound for a in e.attrs):
            return False
        return all(walk(c, vis) for c in e.children if isinstance(c, Element))
    return walk(doc.root, {})


def documents(max_depth=3, max_children=3, max_attrs=5, mixed=False, utf8=None, long_strings=False,
              resmap=True, value_strategy=None, allow_rebind_keeping_uri=True):
    """Well-formed documents. Every namespace URI used by an element/attribute is bound to a (not hidden) prefix in scope; attribute
    (ns, name) pairs are unique per element; names/prefixes/URIs ASCII-safe; text and string values are XML Chars
    (BMP only when the pool is UTF-8 ... plus a separately labelled 4-byte class via utf8_nonbmp).
    mixed=False: text only as the sole content of leaf elements. mixed=True: text chunks anywhere among children.
    resmap: some attributes get resource ids: android-namespace attributes from ANDROID_ATTR_IDS (name kept or, sometimes,
    blanked in the pool as obfuscators do) and app attributes (0x7Fxxxxxx, name kept).
    allow_rebind_keeping_uri=False: no element re-binds a visible prefix while the URI it was bound to stays in scope under
    another prefix (see rebind_keeps_uri(); C26 open finding): such re-binding declarations are dropped;
    Document.meta['dropped_rebind_keeping_uri'] counts them."""
    from hypothesis import strategies as st

    @st.composite
    def doc(draw):
        is8 = draw(st.booleans()) if utf8 is None else utf8
        nonbmp8 = is8 and draw(st.integers(0, 5)) == 0
        bmp_only = is8 and not nonbmp8
        lf = None
        if long_strings and draw(st.integers(0, 3)) == 0:
            lf = 'utf8' if is8 else 'utf16'
        longs = [1] if lf else []          # at most one long string per document
        short_text = xml_text(bmp_only)

        def text_s():
            if longs and draw(st.integers(0, 2)) == 0:
                longs.pop()
                return draw(xml_text(bmp_only, long_form=lf))
            return draw(short_text)
        vstrat = value_strategy or values(short_text)

        def element(depth, scope):
            # scope: list of (prefix, uri) in scope, outermost first
            decls = []
            for _ in range(draw(st.sampled_from([0, 0, 0, 1, 1, 2, 3]))):
                if scope and draw(st.integers(0, 3)) == 0:
                    # re-declare: same prefix (shadowing, other or same uri) or same uri under another prefix
                    p0, u0 = draw(st.sampled_from(scope))
                    kind = draw(st.integers(0, 2))
                    d = (p0, u0) if kind == 0 else (p0, draw(uris())) if kind == 1 else (draw(prefixes()), u0)
                else:
                    d = (draw(prefixes()), draw(uris()))
                if d[0] not in [x[0] for x in decls]:
                    decls.append(d)
            if not allow_rebind_keeping_uri:
                while True:
                    bad = rebind_keeps_uri(dict(scope), decls)
                    if not bad:
                        break
                    dropped[0] += 1
                    decls = [d for d in decls if d != bad[0]]
            sc = scope + decls
            # only URIs that still have a prefix here (an inner declaration of the same prefix hides the outer one):
            # an element/attribute in a namespace whose every prefix is hidden has no textual XML counterpart
            own_uris = sorted(set(dict(sc).values()))

            def pick_ns(p_none):
                if not own_uris or draw(st.integers(0, 99)) < p_none:
                    return None
                return draw(st.sampled_from(own_uris))
            e = Element(pick_ns(60), draw(names()), nsdecls=decls, line=draw(st.integers(0, 1000)))
            seen = set()
            for _ in range(draw(st.integers(0, max_attrs))):
                ans = pick_ns(35)
                rid = None
                if resmap and ans == NS_ANDROID and draw(st.integers(0, 2)) == 0:
                    an = draw(st.sampled_from(sorted(ANDROID_ATTR_IDS)))
                    rid = ANDROID_ATTR_IDS[an]
                    pool_name = '' if draw(st.integers(0, 3)) == 0 else an
                else:
                    an = pool_name = draw(st.one_of(names(), st.sampled_from(['id', 'class', 'style', 'name'])))
                    if resmap and ans is not None and draw(st.integers(0, 4)) == 0:
                        rid = 0x7F010000 | draw(st.integers(0, 0xFFFF))
                if (ans, an) in seen:
                    continue
                seen.add((ans, an))
                t, d, raw = draw(vstrat)
                if t == TYPE_STRING and longs and draw(st.integers(0, 2)) == 0:
                    raw = text_s()
                e.attrs.append(Attr(ans, pool_name, t, d, raw, rid))
            nkids = draw(st.integers(0, max_children)) if depth < max_depth else 0
            if mixed:
                for _ in range(nkids + draw(st.integers(0, 2))):
                    if draw(st.booleans()) and depth < max_depth:
                        e.children.append(element(depth + 1, sc))
                    else:
                        e.children.append(text_s())
            elif nkids:
                e.children = [element(depth + 1, sc) for _ in range(nkids)]
            elif draw(st.booleans()):
                e.children = [text_s()]
            return e
        dropped = [0]
        root = element(1, [])
        extra = draw(st.lists(short_text, max_size=2)) if draw(st.integers(0, 3)) == 0 else []
        pre = draw(st.lists(short_text, max_size=2)) if draw(st.integers(0, 5)) == 0 else []
        d = Document(root, utf8=is8, extra_strings=extra, pre_strings=pre, sorted_flag=draw(st.booleans()))
        d.meta['dropped_rebind_keeping_uri'] = dropped[0]
        return d
    return doc()
