"""Dalvik bytecode tables typed from the Dalvik specification (no androguard import).

Sources: "Dalvik bytecode" (summary of bytecode set, opcodes 00..ff) and "Dalvik executable
instruction formats" (format ids, bit layouts).  Everything here is the *trusted base* of the checks
C01/C02/C10..C15/C40: it must never be derived from androguard's tables.

API summary
-----------
OPCODES[op] -> Opcode(op, name, fmt, ref)       op 0..255; ref in REF_* ('none' when no pool index)
UNUSED                                          frozenset of unused opcodes (3e-43, 73, 79-7a, e3-f9)
VALID_OPCODES                                   sorted list of the 256-len(UNUSED) defined opcodes
BY_NAME[mnemonic] -> op
FORMATS[fmt] -> Format(fmt, units, fields, syntax)
        units  : length in 16-bit code units
        fields : tuple of Field(name, bit, width, role); `bit` is the bit position inside the
                 instruction seen as ONE little-endian integer of 16*units bits (unit 0 = bits 0..15,
                 op = bits 0..7, high byte of unit 0 = bits 8..15, unit 1 = bits 16..31, ...).
                 role: 'reg' register number | 'lit' signed literal | 'ulit' unsigned literal |
                       'off' signed branch offset in code units (relative to this instruction) |
                       'idx' unsigned pool index | 'cnt' register count | 'zero' must-be-zero (the
                       slashed-zero bits of 10x/20t/30t/32x)
        syntax : operand order of the assembly syntax, as field names
encode(op, **fields) -> bytes                    field values: signed fields accept the signed range,
                                                 unsigned fields 0..2^width-1 ('zero' fields default 0)
decode_fields(code, off=0) -> (Opcode, {name: value})   signed roles are sign-extended
operands(op, fields) -> [('reg', n) | ('lit', v) | ('off', v) | ('idx', ref_kind, index)] in the
                        order of the assembly syntax, or None where the specification gives no meaning
                        (35c/45cc-style register lists with A > 5, invoke-polymorphic with A == 0)
literal_value(op, fields) -> the literal the instruction loads/uses (21h already shifted) or None
PAYLOAD_PACKED/SPARSE/FILL = 0x0100/0x0200/0x0300, PAYLOAD_NAMES, payload_units(code, off)
sweep(code) -> [Item(off, units, kind, op, name)] kind 'ins' | 'payload'; table driven linear sweep
                (raises SpecError on an unused opcode / truncated item)
predicates (per opcode number): is_goto is_if is_if_test is_if_testz is_switch is_packed_switch
        is_sparse_switch is_fill_array_data is_branch (goto/if/switch) is_return is_throw
        is_invoke is_invoke_range invoke_kind field_access is_const_string is_const_class
        is_new_instance is_check_cast is_instance_of is_new_array is_move_result is_move_exception
        can_continue (execution may fall through to the next instruction) has_payload
        offset_field(op) -> name of the branch-offset field or None; index_fields(op) -> names

Self test:  python -m vf.gen.dalvik_spec   (tiles every code item of the shipped DEX files with the
length table, using its own DEX header/class_data parser).
"""
import struct
from collections import namedtuple

Opcode = namedtuple('Opcode', 'op name fmt ref')
Field = namedtuple('Field', 'name bit width role')
Format = namedtuple('Format', 'fmt units fields syntax')
Item = namedtuple('Item', 'off units kind op name')      # off, units in 16-bit code units

REF_NONE, REF_STRING, REF_TYPE, REF_FIELD, REF_METHOD = 'none', 'string', 'type', 'field', 'method'
REF_PROTO, REF_CALL_SITE, REF_METHOD_HANDLE = 'proto', 'call_site', 'method_handle'
REF_METHOD_AND_PROTO = 'method+proto'         # 45cc / 4rcc: meth@BBBB and proto@HHHH


class SpecError(Exception):
    pass


def _F(name, bit, width, role):
    return Field(name, bit, width, role)


_OP = _F('op', 0, 8, 'op')

# ---------------------------------------------------------------------------------------------------
# Instruction formats ("Dalvik executable instruction formats", table "The formats").
# Bit layouts:  "B|A|op" = B in bits 12..15, A in bits 8..11;  "AA|op" = AA in bits 8..15;
# "CC|BB" (second unit) = BB in low byte, CC in high byte;  "F|E|D|C" = C lowest nibble.
# 32/64-bit quantities are stored low unit first.
# ---------------------------------------------------------------------------------------------------
FORMATS = {}


def _fmt(fmt, units, fields, syntax):
    FORMATS[fmt] = Format(fmt, units, (_OP,) + tuple(fields), tuple(syntax))


_fmt('10x', 1, [_F('ZZ', 8, 8, 'zero')], [])
_fmt('12x', 1, [_F('A', 8, 4, 'reg'), _F('B', 12, 4, 'reg')], ['A', 'B'])
_fmt('11n', 1, [_F('A', 8, 4, 'reg'), _F('B', 12, 4, 'lit')], ['A', 'B'])
_fmt('11x', 1, [_F('AA', 8, 8, 'reg')], ['AA'])
_fmt('10t', 1, [_F('AA', 8, 8, 'off')], ['AA'])
_fmt('20t', 2, [_F('ZZ', 8, 8, 'zero'), _F('AAAA', 16, 16, 'off')], ['AAAA'])
_fmt('20bc', 2, [_F('AA', 8, 8, 'ulit'), _F('BBBB', 16, 16, 'idx')], ['AA', 'BBBB'])
_fmt('22x', 2, [_F('AA', 8, 8, 'reg'), _F('BBBB', 16, 16, 'reg')], ['AA', 'BBBB'])
_fmt('21t', 2, [_F('AA', 8, 8, 'reg'), _F('BBBB', 16, 16, 'off')], ['AA', 'BBBB'])
_fmt('21s', 2, [_F('AA', 8, 8, 'reg'), _F('BBBB', 16, 16, 'lit')], ['AA', 'BBBB'])
_fmt('21h', 2, [_F('AA', 8, 8, 'reg'), _F('BBBB', 16, 16, 'lit')], ['AA', 'BBBB'])
_fmt('21c', 2, [_F('AA', 8, 8, 'reg'), _F('BBBB', 16, 16, 'idx')], ['AA', 'BBBB'])
_fmt('23x', 2, [_F('AA', 8, 8, 'reg'), _F('BB', 16, 8, 'reg'), _F('CC', 24, 8, 'reg')], ['AA', 'BB', 'CC'])
_fmt('22b', 2, [_F('AA', 8, 8, 'reg'), _F('BB', 16, 8, 'reg'), _F('CC', 24, 8, 'lit')], ['AA', 'BB', 'CC'])
_fmt('22t', 2, [_F('A', 8, 4, 'reg'), _F('B', 12, 4, 'reg'), _F('CCCC', 16, 16, 'off')], ['A', 'B', 'CCCC'])
_fmt('22s', 2, [_F('A', 8, 4, 'reg'), _F('B', 12, 4, 'reg'), _F('CCCC', 16, 16, 'lit')], ['A', 'B', 'CCCC'])
_fmt('22c', 2, [_F('A', 8, 4, 'reg'), _F('B', 12, 4, 'reg'), _F('CCCC', 16, 16, 'idx')], ['A', 'B', 'CCCC'])
_fmt('22cs', 2, [_F('A', 8, 4, 'reg'), _F('B', 12, 4, 'reg'), _F('CCCC', 16, 16, 'idx')], ['A', 'B', 'CCCC'])
_fmt('30t', 3, [_F('ZZ', 8, 8, 'zero'), _F('AAAAAAAA', 16, 32, 'off')], ['AAAAAAAA'])
_fmt('32x', 3, [_F('ZZ', 8, 8, 'zero'), _F('AAAA', 16, 16, 'reg'), _F('BBBB', 32, 16, 'reg')], ['AAAA', 'BBBB'])
_fmt('31i', 3, [_F('AA', 8, 8, 'reg'), _F('BBBBBBBB', 16, 32, 'lit')], ['AA', 'BBBBBBBB'])
_fmt('31t', 3, [_F('AA', 8, 8, 'reg'), _F('BBBBBBBB', 16, 32, 'off')], ['AA', 'BBBBBBBB'])
_fmt('31c', 3, [_F('AA', 8, 8, 'reg'), _F('BBBBBBBB', 16, 32, 'idx')], ['AA', 'BBBBBBBB'])
_REGLIST = [_F('G', 8, 4, 'reg'), _F('A', 12, 4, 'cnt'), _F('BBBB', 16, 16, 'idx'),
            _F('C', 32, 4, 'reg'), _F('D', 36, 4, 'reg'), _F('E', 40, 4, 'reg'), _F('F', 44, 4, 'reg')]
for _f in ('35c', '35ms', '35mi'):
    _fmt(_f, 3, _REGLIST, ['C', 'D', 'E', 'F', 'G', 'BBBB'])
_RANGE = [_F('AA', 8, 8, 'cnt'), _F('BBBB', 16, 16, 'idx'), _F('CCCC', 32, 16, 'reg')]
for _f in ('3rc', '3rms', '3rmi'):
    _fmt(_f, 3, _RANGE, ['CCCC', 'BBBB'])
_fmt('45cc', 4, _REGLIST + [_F('HHHH', 48, 16, 'idx')], ['C', 'D', 'E', 'F', 'G', 'BBBB', 'HHHH'])
_fmt('4rcc', 4, _RANGE + [_F('HHHH', 48, 16, 'idx')], ['CCCC', 'BBBB', 'HHHH'])
_fmt('51l', 5, [_F('AA', 8, 8, 'reg'), _F('BBBBBBBBBBBBBBBB', 16, 64, 'lit')], ['AA', 'BBBBBBBBBBBBBBBB'])

FORMAT_UNITS = {f: v.units for f, v in FORMATS.items()}

# ---------------------------------------------------------------------------------------------------
# Opcode table ("Dalvik bytecode", "Summary of bytecode set").
# ---------------------------------------------------------------------------------------------------
OPCODES = [None] * 256


def _op(op, name, fmt, ref=REF_NONE):
    assert OPCODES[op] is None, hex(op)
    assert fmt in FORMATS
    OPCODES[op] = Opcode(op, name, fmt, ref)


def _run(start, fmt, names, ref=REF_NONE):
    for i, n in enumerate(names):
        _op(start + i, n, fmt, ref)


_op(0x00, 'nop', '10x')
_op(0x01, 'move', '12x')
_op(0x02, 'move/from16', '22x')
_op(0x03, 'move/16', '32x')
_op(0x04, 'move-wide', '12x')
_op(0x05, 'move-wide/from16', '22x')
_op(0x06, 'move-wide/16', '32x')
_op(0x07, 'move-object', '12x')
_op(0x08, 'move-object/from16', '22x')
_op(0x09, 'move-object/16', '32x')
_op(0x0a, 'move-result', '11x')
_op(0x0b, 'move-result-wide', '11x')
_op(0x0c, 'move-result-object', '11x')
_op(0x0d, 'move-exception', '11x')
_op(0x0e, 'return-void', '10x')
_op(0x0f, 'return', '11x')
_op(0x10, 'return-wide', '11x')
_op(0x11, 'return-object', '11x')
_op(0x12, 'const/4', '11n')
_op(0x13, 'const/16', '21s')
_op(0x14, 'const', '31i')
_op(0x15, 'const/high16', '21h')
_op(0x16, 'const-wide/16', '21s')
_op(0x17, 'const-wide/32', '31i')
_op(0x18, 'const-wide', '51l')
_op(0x19, 'const-wide/high16', '21h')
_op(0x1a, 'const-string', '21c', REF_STRING)
_op(0x1b, 'const-string/jumbo', '31c', REF_STRING)
_op(0x1c, 'const-class', '21c', REF_TYPE)
_op(0x1d, 'monitor-enter', '11x')
_op(0x1e, 'monitor-exit', '11x')
_op(0x1f, 'check-cast', '21c', REF_TYPE)
_op(0x20, 'instance-of', '22c', REF_TYPE)
_op(0x21, 'array-length', '12x')
_op(0x22, 'new-instance', '21c', REF_TYPE)
_op(0x23, 'new-array', '22c', REF_TYPE)
_op(0x24, 'filled-new-array', '35c', REF_TYPE)
_op(0x25, 'filled-new-array/range', '3rc', REF_TYPE)
_op(0x26, 'fill-array-data', '31t')
_op(0x27, 'throw', '11x')
_op(0x28, 'goto', '10t')
_op(0x29, 'goto/16', '20t')
_op(0x2a, 'goto/32', '30t')
_op(0x2b, 'packed-switch', '31t')
_op(0x2c, 'sparse-switch', '31t')
_run(0x2d, '23x', ['cmpl-float', 'cmpg-float', 'cmpl-double', 'cmpg-double', 'cmp-long'])
_run(0x32, '22t', ['if-eq', 'if-ne', 'if-lt', 'if-ge', 'if-gt', 'if-le'])
_run(0x38, '21t', ['if-eqz', 'if-nez', 'if-ltz', 'if-gez', 'if-gtz', 'if-lez'])
# 3e..43 unused
_ARR = ['', '-wide', '-object', '-boolean', '-byte', '-char', '-short']
_run(0x44, '23x', ['aget' + s for s in _ARR])
_run(0x4b, '23x', ['aput' + s for s in _ARR])
_run(0x52, '22c', ['iget' + s for s in _ARR], REF_FIELD)
_run(0x59, '22c', ['iput' + s for s in _ARR], REF_FIELD)
_run(0x60, '21c', ['sget' + s for s in _ARR], REF_FIELD)
_run(0x67, '21c', ['sput' + s for s in _ARR], REF_FIELD)
_INV = ['invoke-virtual', 'invoke-super', 'invoke-direct', 'invoke-static', 'invoke-interface']
_run(0x6e, '35c', _INV, REF_METHOD)
# 73 unused
_run(0x74, '3rc', [n + '/range' for n in _INV], REF_METHOD)
# 79..7a unused
_run(0x7b, '12x', ['neg-int', 'not-int', 'neg-long', 'not-long', 'neg-float', 'neg-double',
                   'int-to-long', 'int-to-float', 'int-to-double', 'long-to-int', 'long-to-float',
                   'long-to-double', 'float-to-int', 'float-to-long', 'float-to-double',
                   'double-to-int', 'double-to-long', 'double-to-float',
                   'int-to-byte', 'int-to-char', 'int-to-short'])
_INT_BIN = ['add', 'sub', 'mul', 'div', 'rem', 'and', 'or', 'xor', 'shl', 'shr', 'ushr']
_FP_BIN = ['add', 'sub', 'mul', 'div', 'rem']
_BINOPS = ([b + '-int' for b in _INT_BIN] + [b + '-long' for b in _INT_BIN] +
           [b + '-float' for b in _FP_BIN] + [b + '-double' for b in _FP_BIN])
assert len(_BINOPS) == 32
_run(0x90, '23x', _BINOPS)
_run(0xb0, '12x', [b + '/2addr' for b in _BINOPS])
_run(0xd0, '22s', ['add-int/lit16', 'rsub-int', 'mul-int/lit16', 'div-int/lit16', 'rem-int/lit16',
                   'and-int/lit16', 'or-int/lit16', 'xor-int/lit16'])
_run(0xd8, '22b', ['add-int/lit8', 'rsub-int/lit8', 'mul-int/lit8', 'div-int/lit8', 'rem-int/lit8',
                   'and-int/lit8', 'or-int/lit8', 'xor-int/lit8', 'shl-int/lit8', 'shr-int/lit8',
                   'ushr-int/lit8'])
# e3..f9 unused
_op(0xfa, 'invoke-polymorphic', '45cc', REF_METHOD_AND_PROTO)
_op(0xfb, 'invoke-polymorphic/range', '4rcc', REF_METHOD_AND_PROTO)
_op(0xfc, 'invoke-custom', '35c', REF_CALL_SITE)
_op(0xfd, 'invoke-custom/range', '3rc', REF_CALL_SITE)
_op(0xfe, 'const-method-handle', '21c', REF_METHOD_HANDLE)
_op(0xff, 'const-method-type', '21c', REF_PROTO)

UNUSED = frozenset(list(range(0x3e, 0x44)) + [0x73, 0x79, 0x7a] + list(range(0xe3, 0xfa)))
assert UNUSED == frozenset(i for i in range(256) if OPCODES[i] is None), 'table/unused-set mismatch'
for _i in UNUSED:
    OPCODES[_i] = Opcode(_i, 'unused-%02x' % _i, None, REF_NONE)
OPCODES = tuple(OPCODES)
VALID_OPCODES = tuple(i for i in range(256) if i not in UNUSED)
assert len(UNUSED) == 6 + 1 + 2 + 23 and len(VALID_OPCODES) == 224
BY_NAME = {OPCODES[i].name: i for i in VALID_OPCODES}
assert len(BY_NAME) == len(VALID_OPCODES)

# ---------------------------------------------------------------------------------------------------
# Payload pseudo-instructions
# ---------------------------------------------------------------------------------------------------
PAYLOAD_PACKED, PAYLOAD_SPARSE, PAYLOAD_FILL = 0x0100, 0x0200, 0x0300
PAYLOAD_NAMES = {PAYLOAD_PACKED: 'packed-switch-payload', PAYLOAD_SPARSE: 'sparse-switch-payload',
                 PAYLOAD_FILL: 'fill-array-data-payload'}


def packed_payload_units(size):
    """ident, size (ushort), first_key (int), targets int[size]: (size * 2) + 4 code units"""
    return size * 2 + 4


def sparse_payload_units(size):
    """ident, size (ushort), keys int[size], targets int[size]: (size * 4) + 2 code units"""
    return size * 4 + 2


def fill_payload_units(element_width, size):
    """ident, element_width (ushort), size (uint), data ubyte[]: (size * element_width + 1) / 2 + 4"""
    return (size * element_width + 1) // 2 + 4


def payload_units(code, off=0):
    """Length in code units of the payload whose ident is at byte offset `off` (needs its header).
    Raises SpecError if the header is not completely inside `code` or the ident is no payload ident."""
    if off + 2 > len(code):
        raise SpecError('truncated')
    ident = code[off] | code[off + 1] << 8
    if ident == PAYLOAD_PACKED:
        if off + 4 > len(code):
            raise SpecError('truncated packed-switch header')
        return packed_payload_units(code[off + 2] | code[off + 3] << 8)
    if ident == PAYLOAD_SPARSE:
        if off + 4 > len(code):
            raise SpecError('truncated sparse-switch header')
        return sparse_payload_units(code[off + 2] | code[off + 3] << 8)
    if ident == PAYLOAD_FILL:
        if off + 8 > len(code):
            raise SpecError('truncated fill-array-data header')
        w = code[off + 2] | code[off + 3] << 8
        n = struct.unpack_from('<I', code, off + 4)[0]
        return fill_payload_units(w, n)
    raise SpecError('not a payload ident: %04x' % ident)


# ---------------------------------------------------------------------------------------------------
# Encoding / decoding by the format table
# ---------------------------------------------------------------------------------------------------
_SIGNED = ('lit', 'off')


def fmt_of(op):
    return FORMATS[OPCODES[op].fmt]


def units_of(op):
    """Instruction length in 16-bit code units (SpecError for unused opcodes)."""
    o = OPCODES[op]
    if o.fmt is None:
        raise SpecError('unused opcode %02x' % op)
    return FORMATS[o.fmt].units


def field_range(field):
    """(lo, hi) inclusive range of values `encode` accepts for a Field."""
    if field.role in _SIGNED:
        return -(1 << (field.width - 1)), (1 << (field.width - 1)) - 1
    return 0, (1 << field.width) - 1


def encode(op, **values):
    """Encode one instruction. Missing fields default to 0. Signed fields take signed values."""
    if isinstance(op, str):
        op = BY_NAME[op]
    f = fmt_of(op)
    word = op
    names = set()
    for fld in f.fields[1:]:
        names.add(fld.name)
        v = values.get(fld.name, 0)
        lo, hi = field_range(fld)
        if not lo <= v <= hi:
            raise SpecError('%s: field %s=%r outside %d..%d' % (OPCODES[op].name, fld.name, v, lo, hi))
        word |= (v & ((1 << fld.width) - 1)) << fld.bit
    extra = set(values) - names
    if extra:
        raise SpecError('%s (%s) has no field(s) %s' % (OPCODES[op].name, f.fmt, sorted(extra)))
    return word.to_bytes(2 * f.units, 'little')


def decode_fields(code, off=0):
    """-> (Opcode, {field: value}) for the instruction at byte offset `off` (signed roles sign-extended).
    SpecError on unused opcode or truncation."""
    if off >= len(code):
        raise SpecError('truncated')
    o = OPCODES[code[off]]
    if o.fmt is None:
        raise SpecError('unused opcode %02x' % o.op)
    f = FORMATS[o.fmt]
    raw = code[off:off + 2 * f.units]
    if len(raw) != 2 * f.units:
        raise SpecError('truncated %s' % o.name)
    word = int.from_bytes(raw, 'little')
    out = {}
    for fld in f.fields[1:]:
        v = (word >> fld.bit) & ((1 << fld.width) - 1)
        if fld.role in _SIGNED and v >> (fld.width - 1):
            v -= 1 << fld.width
        out[fld.name] = v
    return o, out


def literal_value(op, fields):
    """Value of the literal operand as the specification defines it, or None.
    const/high16: BBBB0000 (sign-extended 32 bit), const-wide/high16: BBBB000000000000 (64 bit)."""
    f = fmt_of(op)
    for fld in f.fields:
        if fld.role == 'lit':
            v = fields[fld.name]
            if f.fmt == '21h':
                return v << (16 if op == 0x15 else 48)
            return v
    return None


_INDEX_KINDS = {REF_METHOD_AND_PROTO: {'BBBB': REF_METHOD, 'HHHH': REF_PROTO}}


def operands(op, fields):
    """Operand list in assembly-syntax order, or None when the specification gives the encoding no meaning.
    Entries: ('reg', n), ('lit', v), ('off', v), ('idx', ref_kind, index)."""
    o = OPCODES[op]
    f = FORMATS[o.fmt]
    out = []
    if f.fmt in ('35c', '35ms', '35mi', '45cc'):
        a = fields['A']
        if a > 5 or (f.fmt == '45cc' and a == 0):
            return None
        out = [('reg', fields[n]) for n in 'CDEFG'[:a]]
        idx_names = ['BBBB'] + (['HHHH'] if f.fmt == '45cc' else [])
    elif f.fmt in ('3rc', '3rms', '3rmi', '4rcc'):
        # vCCCC .. vNNNN with NNNN = CCCC + AA - 1; AA = 0 means no registers
        out = [('reg', fields['CCCC'] + i) for i in range(fields['AA'])]
        idx_names = ['BBBB'] + (['HHHH'] if f.fmt == '4rcc' else [])
    else:
        idx_names = []
        for n in f.syntax:
            fld = [x for x in f.fields if x.name == n][0]
            if fld.role == 'reg':
                out.append(('reg', fields[n]))
            elif fld.role in ('lit', 'ulit'):
                out.append(('lit', literal_value(op, fields) if fld.role == 'lit' else fields[n]))
            elif fld.role == 'off':
                out.append(('off', fields[n]))
            elif fld.role == 'idx':
                idx_names.append(n)
        # index operands come last in every non-invoke format that has one
    for n in idx_names:
        kind = _INDEX_KINDS.get(o.ref, {}).get(n, o.ref)
        out.append(('idx', kind, fields[n]))
    return out


def offset_field(op):
    """Name of the branch/payload offset field of `op`, or None."""
    o = OPCODES[op]
    if o.fmt is None:
        return None
    for fld in FORMATS[o.fmt].fields:
        if fld.role == 'off':
            return fld.name
    return None


def index_fields(op):
    """Names of the pool-index fields of `op` (0, 1 or 2 names)."""
    o = OPCODES[op]
    if o.fmt is None:
        return ()
    return tuple(fld.name for fld in FORMATS[o.fmt].fields if fld.role == 'idx')


# ---------------------------------------------------------------------------------------------------
# Predicates (per opcode number)
# ---------------------------------------------------------------------------------------------------
def is_goto(op): return 0x28 <= op <= 0x2a
def is_if_test(op): return 0x32 <= op <= 0x37          # if-test vA, vB, +CCCC
def is_if_testz(op): return 0x38 <= op <= 0x3d         # if-testz vAA, +BBBB
def is_if(op): return 0x32 <= op <= 0x3d
def is_packed_switch(op): return op == 0x2b
def is_sparse_switch(op): return op == 0x2c
def is_switch(op): return op in (0x2b, 0x2c)
def is_fill_array_data(op): return op == 0x26
def has_payload(op): return op in (0x26, 0x2b, 0x2c)    # 31t: offset designates a payload
def is_branch(op): return is_goto(op) or is_if(op) or is_switch(op)
def is_return(op): return 0x0e <= op <= 0x11
def is_throw(op): return op == 0x27
def is_invoke_range(op): return 0x74 <= op <= 0x78 or op in (0xfb, 0xfd)
def is_invoke(op): return 0x6e <= op <= 0x72 or 0x74 <= op <= 0x78 or 0xfa <= op <= 0xfd
def is_const_string(op): return op in (0x1a, 0x1b)
def is_const_class(op): return op == 0x1c
def is_check_cast(op): return op == 0x1f
def is_instance_of(op): return op == 0x20
def is_new_instance(op): return op == 0x22
def is_new_array(op): return op == 0x23
def is_move_result(op): return 0x0a <= op <= 0x0c
def is_move_exception(op): return op == 0x0d


def can_continue(op):
    """True when execution can proceed to the textually next instruction (not goto/return/throw)."""
    return not (is_goto(op) or is_return(op) or is_throw(op))


def invoke_kind(op):
    """'virtual' | 'super' | 'direct' | 'static' | 'interface' | 'polymorphic' | 'custom' | None"""
    if 0x6e <= op <= 0x72:
        return ('virtual', 'super', 'direct', 'static', 'interface')[op - 0x6e]
    if 0x74 <= op <= 0x78:
        return ('virtual', 'super', 'direct', 'static', 'interface')[op - 0x74]
    if op in (0xfa, 0xfb):
        return 'polymorphic'
    if op in (0xfc, 0xfd):
        return 'custom'
    return None


def field_access(op):
    """-> ('instance'|'static', 'read'|'write') for iget*/iput*/sget*/sput*, else None."""
    if 0x52 <= op <= 0x58:
        return ('instance', 'read')
    if 0x59 <= op <= 0x5f:
        return ('instance', 'write')
    if 0x60 <= op <= 0x66:
        return ('static', 'read')
    if 0x67 <= op <= 0x6d:
        return ('static', 'write')
    return None


# ---------------------------------------------------------------------------------------------------
# Table-driven linear sweep (reference for C02 and for the self test)
# ---------------------------------------------------------------------------------------------------
def sweep(code, start=0):
    """Linear sweep over `code` (bytes, even length): list of Item(off, units, kind, op, name).
    A code unit 0x0100/0x0200/0x0300 at an instruction boundary is a payload; every other unit is decoded
    by the length table. SpecError on unused opcodes or an item that does not fit."""
    out = []
    off = start
    n = len(code)
    while off < n:
        if off + 2 > n:
            raise SpecError('odd trailing byte at %d' % off)
        unit = code[off] | code[off + 1] << 8
        if unit in PAYLOAD_NAMES:
            u = payload_units(code, off)
            kind, op, name = 'payload', unit, PAYLOAD_NAMES[unit]
        else:
            op = unit & 0xff
            u = units_of(op)
            kind, name = 'ins', OPCODES[op].name
        if off + 2 * u > n:
            raise SpecError('%s at %d runs past the end (%d > %d)' % (name, off, off + 2 * u, n))
        out.append(Item(off // 2, u, kind, op, name))
        off += 2 * u
    return out


# ---------------------------------------------------------------------------------------------------
# Self test: the length table must tile every code item of the shipped DEX files
# ---------------------------------------------------------------------------------------------------
def _uleb(buf, pos):
    r = 0
    s = 0
    while True:
        b = buf[pos]
        pos += 1
        r |= (b & 0x7f) << s
        s += 7
        if not b & 0x80:
            return r, pos


def dex_code_items(buf):
    """Own minimal DEX reader: yields (code_off, insns bytes) for every method with code, found through
    header -> class_defs -> class_data_item -> encoded_method.code_off."""
    if buf[:4] != b'dex\n':
        raise SpecError('not a DEX')
    (class_defs_size, class_defs_off) = struct.unpack_from('<II', buf, 0x60)
    seen = set()
    for i in range(class_defs_size):
        class_data_off = struct.unpack_from('<I', buf, class_defs_off + 32 * i + 24)[0]
        if class_data_off == 0:
            continue
        p = class_data_off
        sf, p = _uleb(buf, p)
        inf, p = _uleb(buf, p)
        dm, p = _uleb(buf, p)
        vm, p = _uleb(buf, p)
        for _ in range(sf + inf):
            _, p = _uleb(buf, p)
            _, p = _uleb(buf, p)
        for _ in range(dm + vm):
            _, p = _uleb(buf, p)
            _, p = _uleb(buf, p)
            code_off, p = _uleb(buf, p)
            if code_off and code_off not in seen:
                seen.add(code_off)
                insns_size = struct.unpack_from('<I', buf, code_off + 12)[0]
                yield code_off, bytes(buf[code_off + 16: code_off + 16 + 2 * insns_size])


def check_code_item(insns):
    """Tile one code item; returns (items, problems). Payloads must sit exactly where a 31t instruction
    of the matching kind points, and every 31t target must be a payload of the matching ident."""
    problems = []
    items = sweep(insns)
    at = {it.off: it for it in items}
    want = {0x26: PAYLOAD_FILL, 0x2b: PAYLOAD_PACKED, 0x2c: PAYLOAD_SPARSE}
    pointed = set()
    for it in items:
        if it.kind == 'ins' and has_payload(it.op):
            _, f = decode_fields(insns, it.off * 2)
            tgt = it.off + f['BBBBBBBB']
            pointed.add(tgt)
            t = at.get(tgt)
            if t is None or t.kind != 'payload' or t.op != want[it.op]:
                problems.append('%s at %d points to %d which is %r' % (it.name, it.off, tgt, t))
            elif tgt % 2:
                problems.append('payload at odd code unit %d' % tgt)
        elif it.kind == 'ins':
            of = offset_field(it.op)
            if of:
                _, f = decode_fields(insns, it.off * 2)
                tgt = it.off + f[of]
                if tgt not in at or at[tgt].kind != 'ins':
                    problems.append('%s at %d branches to %d: not an instruction start' % (it.name, it.off, tgt))
            if fmt_of(it.op).fmt in ('10x', '20t', '30t', '32x'):
                _, f = decode_fields(insns, it.off * 2)
                if f['ZZ']:
                    problems.append('%s at %d has non-zero padding byte' % (it.name, it.off))
    for it in items:
        if it.kind == 'payload' and it.off not in pointed:
            problems.append('payload %s at %d is not the target of any 31t instruction' % (it.name, it.off))
    return items, problems


def _selftest(root='/repo/tests/data'):
    import os
    import zipfile
    from collections import Counter
    # table sanity: encode/decode round trip on boundary values of every field of every opcode
    for op in VALID_OPCODES:
        f = fmt_of(op)
        for pick in (0, 1):
            vals = {fld.name: field_range(fld)[pick] for fld in f.fields[1:] if fld.role != 'zero'}
            raw = encode(op, **vals)
            assert len(raw) == 2 * f.units
            o, back = decode_fields(raw)
            assert o.op == op and all(back[k] == v for k, v in vals.items()), (hex(op), vals, back)
    dexes = []
    for dp, _, fns in os.walk(root):
        for fn in sorted(fns):
            path = os.path.join(dp, fn)
            try:
                with open(path, 'rb') as fh:
                    head = fh.read(4)
                    if head == b'dex\n':
                        dexes.append((path, head + fh.read()))
                    elif head[:2] == b'PK':
                        try:
                            z = zipfile.ZipFile(path)
                            for n in z.namelist():
                                if n.endswith('.dex'):
                                    d = z.read(n)
                                    if d[:4] == b'dex\n':
                                        dexes.append((path + '!' + n, d))
                        except (zipfile.BadZipFile, NotImplementedError, OSError, RuntimeError):
                            pass
            except OSError:
                pass
    used = Counter()
    fmts = Counter()
    n_items = n_ins = n_payload = 0
    bad = []
    for name, d in dexes:
        try:
            for code_off, insns in dex_code_items(d):
                n_items += 1
                try:
                    items, problems = check_code_item(insns)
                except SpecError as e:
                    bad.append('%s code_off=%#x: %s' % (name, code_off, e))
                    continue
                for p in problems:
                    bad.append('%s code_off=%#x: %s' % (name, code_off, p))
                for it in items:
                    if it.kind == 'ins':
                        n_ins += 1
                        used[it.op] += 1
                        fmts[OPCODES[it.op].fmt] += 1
                    else:
                        n_payload += 1
                        used[it.op] += 1
        except (SpecError, IndexError, struct.error) as e:
            bad.append('%s: unreadable DEX structure: %r' % (name, e))
    never = [OPCODES[o].name for o in VALID_OPCODES if not used[o]]
    print('dex files: %d  code items: %d  instructions: %d  payloads: %d' % (len(dexes), n_items, n_ins, n_payload))
    print('formats seen: %s' % ' '.join('%s:%d' % kv for kv in sorted(fmts.items())))
    print('payload idents seen: %s' % {hex(k): used[k] for k in PAYLOAD_NAMES})
    print('opcodes never met in shipped files (%d): %s' % (len(never), ', '.join(never)))
    if bad:
        print('PROBLEMS (%d):' % len(bad))
        for b in bad[:40]:
            print('  ' + b)
        return 1
    print('OK: the length table tiles every code item exactly; payloads only at 31t targets')
    return 0


if __name__ == '__main__':
    import sys
    sys.exit(_selftest(*sys.argv[1:2]))
