"""Minimal well-formed DEX (035) writer for string-constant tests (C23). No androguard import.

build(strings) -> bytes of a DEX file with ONE class `Lvf/c23/T;` (super java/lang/Object) that has, for
every i < len(strings):
    public static String m<i>()            { const-string[/jumbo] v0, strings[i]; return-object v0 }
    public static final String s<i> = strings[i]         (static_values encoded_array, VALUE_STRING)
`strings` are lists of UTF-16 code units (lone surrogates allowed: MUTF-8 encodes every unit on its own).

Follows the DEX format specification: string_ids sorted by UTF-16 code units and unique, type_ids /
field_ids / method_ids sorted as required, 4-byte aligned code items and map, SHA-1 signature and
Adler-32 checksum, complete map_list. The writer is deliberately tiny and separate from the general
dexgen so that C23 can exercise the real path (DEX -> MUTF-8 decoding -> const-string -> source text).
"""
import hashlib
import struct
import zlib

CLASS = 'Lvf/c23/T;'
NO_INDEX = 0xFFFFFFFF


def uleb(v):
    out = bytearray()
    while True:
        b = v & 0x7F
        v >>= 7
        if v:
            out.append(b | 0x80)
        else:
            out.append(b)
            return bytes(out)


def mutf8(units):
    """UTF-16 code units -> modified UTF-8 (DEX spec: U+0000 as C0 80, each surrogate as 3 bytes)."""
    out = bytearray()
    for u in units:
        if u != 0 and u < 0x80:
            out.append(u)
        elif u < 0x800:
            out += bytes((0xC0 | (u >> 6), 0x80 | (u & 0x3F)))
        else:
            out += bytes((0xE0 | (u >> 12), 0x80 | ((u >> 6) & 0x3F), 0x80 | (u & 0x3F)))
    return bytes(out)


def _u(s):
    return tuple(struct.unpack('<%dH' % len(s), s.encode('utf-16-le')))


def _align4(buf):
    while len(buf) % 4:
        buf.append(0)


def build(strings):
    n = len(strings)
    tests = [tuple(s) for s in strings]
    fixed = [CLASS, 'Ljava/lang/Object;', 'Ljava/lang/String;', 'L'] + ['m%d' % i for i in range(n)] + ['s%d' % i for i in range(n)]
    pool = sorted(set(_u(s) for s in fixed) | set(tests))          # tuples of code units: sorted by UTF-16 code unit values
    sidx = {s: i for i, s in enumerate(pool)}
    S = lambda s: sidx[_u(s)]

    types = sorted([S(CLASS), S('Ljava/lang/Object;'), S('Ljava/lang/String;')])
    T = lambda s: types.index(S(s))
    cls_t, obj_t, str_t = T(CLASS), T('Ljava/lang/Object;'), T('Ljava/lang/String;')

    # field_ids sorted by (class, name string idx, type); method_ids by (class, name string idx, proto)
    fields = sorted(range(n), key=lambda i: S('s%d' % i))          # position -> test index
    methods = sorted(range(n), key=lambda i: S('m%d' % i))

    nS, nT, nP, nF, nM = len(pool), 3, 1, n, n
    off = 0x70
    string_ids_off = off; off += 4 * nS
    type_ids_off = off; off += 4 * nT
    proto_ids_off = off; off += 12 * nP
    field_ids_off = off; off += 8 * nF
    method_ids_off = off; off += 8 * nM
    class_defs_off = off; off += 32
    data_off = off

    data = bytearray()
    here = lambda: data_off + len(data)

    # code items
    code_off = {}
    code_items_off = here()
    for pos, i in enumerate(methods):
        _align4(data)
        if pos == 0:
            code_items_off = here()
        code_off[i] = here()
        si = sidx[tests[i]]
        if si <= 0xFFFF:
            insns = struct.pack('<HH', 0x001A, si) + struct.pack('<H', 0x0011)
        else:
            insns = struct.pack('<HI', 0x001B, si) + struct.pack('<H', 0x0011)
        data += struct.pack('<HHHHII', 1, 0, 0, 0, 0, len(insns) // 2) + insns
    # string data
    string_data_off = []
    first_string_data = here()
    for s in pool:
        string_data_off.append(here())
        data += uleb(len(s)) + mutf8(s) + b'\0'
    # class data
    class_data_off = here()
    cd = bytearray()
    cd += uleb(nF) + uleb(0) + uleb(nM) + uleb(0)
    prev = 0
    for pos in range(nF):
        cd += uleb(pos - prev) + uleb(0x19)            # public static final
        prev = pos
    prev = 0
    for pos, i in enumerate(methods):
        cd += uleb(pos - prev) + uleb(0x09) + uleb(code_off[i])      # public static
        prev = pos
    data += cd
    # static values (encoded_array_item), one VALUE_STRING per static field in field order
    static_values_off = here()
    ev = bytearray(uleb(nF))
    for i in fields:
        si = sidx[tests[i]]
        raw = si.to_bytes(4, 'little').rstrip(b'\0') or b'\0'
        ev += bytes([((len(raw) - 1) << 5) | 0x17]) + raw
    data += ev
    _align4(data)
    map_off = here()
    items = [(0x0000, 1, 0), (0x0001, nS, string_ids_off), (0x0002, nT, type_ids_off), (0x0003, nP, proto_ids_off)]
    if n:
        items += [(0x0004, nF, field_ids_off), (0x0005, nM, method_ids_off)]
    items += [(0x0006, 1, class_defs_off)]
    if n:
        items += [(0x2001, nM, code_items_off)]
    items += [(0x2002, nS, first_string_data), (0x2000, 1, class_data_off), (0x2005, 1, static_values_off), (0x1000, 1, map_off)]
    items.sort(key=lambda t: t[2])
    data += struct.pack('<I', len(items))
    for t, cnt, o in items:
        data += struct.pack('<HHII', t, 0, cnt, o)

    ids = bytearray()
    for o in string_data_off:
        ids += struct.pack('<I', o)
    for t in types:
        ids += struct.pack('<I', t)
    ids += struct.pack('<III', S('L'), str_t, 0)
    for i in fields:
        ids += struct.pack('<HHI', cls_t, str_t, S('s%d' % i))
    for i in methods:
        ids += struct.pack('<HHI', cls_t, 0, S('m%d' % i))
    ids += struct.pack('<IIIIIIII', cls_t, 0x1, obj_t, 0, NO_INDEX, 0, class_data_off, static_values_off)
    assert 0x70 + len(ids) == data_off

    file_size = data_off + len(data)
    hdr_tail = struct.pack('<IIIIIIIIIIIIIIIIIIII', file_size, 0x70, 0x12345678, 0, 0, map_off,
                           nS, string_ids_off, nT, type_ids_off, nP, proto_ids_off,
                           nF, field_ids_off if n else 0, nM, method_ids_off if n else 0, 1, class_defs_off,
                           len(data), data_off)
    body = hdr_tail + bytes(ids) + bytes(data)
    sig = hashlib.sha1(body).digest()
    chk = zlib.adler32(sig + body) & 0xFFFFFFFF
    return b'dex\n035\0' + struct.pack('<I', chk) + sig + body
