"""Generator of abstract Dalvik methods with control flow, tries and payloads (no androguard import).
Shared by C10 / C11 / C12 / C40 (DESIGN section 4, "G").

An abstract method (plain JSON-able dict, produced by the Hypothesis strategy `abstract_method`) is

  {'ins':      [op, ...]              position i = i-th instruction of the method (code order)
   'payloads': [payload, ...]         referenced from 'packed' / 'sparse' / 'fill' ops by index
   'tries':    [[start_pos, end_pos, handler_index], ...]   positions; covers instructions start_pos..end_pos-1
   'handlers': [[[[type, pos], ...], catch_all_pos or None], ...]}

  op:  ['plain', {'ins': mnemonic, 'fields': {...}}]           straight-line instruction without pool index
       ['ref', mnemonic, {fields}, [ref...]]                    index-bearing instruction; ref = dexgen ref tuple
                                                                ('s',text) ('t',desc) ('f',cls,name,type) ('m',cls,name,ret,params)
       ['if', mnemonic, A, B, target_pos]  ['ifz', mnemonic, AA, target_pos]
       ['goto', target_pos, width]                              width None (smallest) | 16 | 32
       ['packed', AA, payload_index] ['sparse', AA, payload_index] ['fill', AA, payload_index]
       ['return-void'] ['return', mnemonic, AA] ['throw', AA]
  target_pos (if / ifz / goto / switch payload 'targets'): an instruction position, or an OUT-OF-METHOD target
       ['out', 'neg', k]   the code unit k >= 1 units BEFORE the method's first instruction (absolute unit -k)
       ['out', 'end', k]   the code unit k >= 0 units after the last code unit of the insns array (k = 0: exactly
                           at the end; the array includes trailing payloads)
       ['out', 'far', d]   the raw relative offset d (code units; +-0x7fff / -0x8000 for 16-bit offsets,
                           +-0x7fffffff / -0x80000000 for goto/32 and switch cases); lowering asserts that it
                           leaves the method
       Such a target designates no instruction of the method. Targets inside the method that are not the start of
       an instruction (middle of an instruction, inside a payload) are never generated: androguard links them to the
       block that contains the address, and the statements of C10/C11 do not clearly say whether that is right.
  payload: {'kind': 'packed', 'first_key': k, 'targets': [pos...], 'after': None|pos, 'align': 'align'|'raw'|'odd'}
           {'kind': 'sparse', 'keys': [...], 'targets': [pos...], ...}
           {'kind': 'fill', 'width': w, 'data': hex, ...}
           'after': the payload is emitted after instruction `after` (which never falls through) instead of at the
           end of the method. 'align': 'align' = nop spacer when needed (what the specification requires),
           'raw' = wherever it falls, 'odd' = forced onto an odd code unit (C40 only).
           A switch payload referenced by two switch instructions ("shared") carries 'shared_sel': [ints]; its
           targets are then chosen among the relative offsets that are instruction starts for *both* switches.

lower(am, ix=None)   -> list of vf.gen.asm items (labels 'L<pos>' on instructions, 'P<k>' on payloads)
assemble_method(am, ix=None) -> Lowered(code, items, tries, handlers, pos_off)
        code/items  : vf.gen.asm.assemble() result (items = Emitted list)
        tries/handlers : dexgen form ([(start_unit, count, handler_index)], [([(type, addr_unit)], catch_all)])
        pos_off     : {pos: code-unit offset of instruction pos}
        ix: a dexgen Index (None = all pool indices 0; sizes do not depend on index values)
build_dex(methods) -> (dex bytes, [(method name, Lowered)])   one class Lvf/cfg/T; with static methods m0.. ()V
        with_ix=True: -> (dex bytes, [...], dexgen Index of the file) so that another layout of a method can be
        assembled with the same pool indices (assemble_method(relayout(am, ...), ix))
relayout(am, nops, move) -> the same abstract method in another layout: `nops` nop instructions in front (every position
        shifts by `nops`), move=True: the first payload changes place (end of the method <-> mid-method)
features(am, lowered) -> set of shape labels (measured, for the evidence histogram and the NT rules)
"""
from collections import namedtuple

from vf.gen import asm as A
from vf.gen import dalvik_spec as ds
from vf.gen import dexgen as G

Lowered = namedtuple('Lowered', 'code items tries handlers pos_off')

CLS = 'Lvf/cfg/T;'
OTHER = 'Lvf/cfg/O;'
EXC_TYPES = ['Ljava/lang/Exception;', 'Ljava/io/IOException;', 'Ljava/lang/RuntimeException;',
             'Lvf/cfg/MyEx;', 'Ljava/lang/Throwable;', 'Ljava/lang/ArithmeticException;']

PLAIN_OPS = tuple(o for o in A.STRAIGHT_OPCODES if ds.OPCODES[o].ref == ds.REF_NONE)
# short well-known ones used for padding / boosted shapes (1, 2, 3 and 5 code units)
SIMPLE = [('nop', {}), ('move', {'A': 1, 'B': 2}), ('const/4', {'A': 0, 'B': 7}), ('const/16', {'AA': 3, 'BBBB': -2}),
          ('const', {'AA': 4, 'BBBBBBBB': 0x01000300}), ('const-wide', {'AA': 6, 'BBBBBBBBBBBBBBBB': 0x0200010003000100}),
          ('add-int/2addr', {'A': 1, 'B': 1}), ('div-int', {'AA': 0, 'BB': 1, 'CC': 2}), ('move-exception', {'AA': 5}),
          ('aget', {'AA': 0, 'BB': 1, 'CC': 2}), ('move/16', {'AAAA': 300, 'BBBB': 0x100})]

REFS = [
    ('const-string', {'AA': 1}, ('s', 'hello')),
    ('const-string', {'AA': 2}, ('s', 'Lvf/cfg/O;')),
    ('const-string/jumbo', {'AA': 3}, ('s', 'jumbo')),
    ('const-class', {'AA': 0}, ('t', OTHER)),
    ('const-class', {'AA': 0}, ('t', 'Ljava/lang/String;')),
    ('new-instance', {'AA': 4}, ('t', OTHER)),
    ('new-instance', {'AA': 4}, ('t', 'Ljava/lang/StringBuilder;')),
    ('check-cast', {'AA': 4}, ('t', OTHER)),
    ('sget', {'AA': 0}, ('f', CLS, 'sf', 'I')),
    ('sput', {'AA': 0}, ('f', CLS, 'sf', 'I')),
    ('sget-wide', {'AA': 2}, ('f', OTHER, 'of', 'J')),
    ('iget', {'A': 0, 'B': 1}, ('f', OTHER, 'g', 'I')),
    ('iput', {'A': 0, 'B': 1}, ('f', OTHER, 'g', 'I')),
    ('invoke-static', {'A': 0}, ('m', OTHER, 'callee', 'V', ())),
    ('invoke-static', {'A': 1, 'C': 3}, ('m', 'Ljava/lang/Math;', 'abs', 'I', ('I',))),
    ('invoke-virtual', {'A': 1, 'C': 4}, ('m', OTHER, 'vm', 'V', ())),
    ('invoke-direct', {'A': 1, 'C': 4}, ('m', 'Ljava/lang/StringBuilder;', '<init>', 'V', ())),
    ('invoke-static/range', {'AA': 0, 'CCCC': 0}, ('m', CLS, 'helper', 'V', ())),
    ('invoke-interface', {'A': 1, 'C': 4}, ('m', 'Ljava/lang/Runnable;', 'run', 'V', ())),
]


# ---------------------------------------------------------------------------------------------------
# lowering
# ---------------------------------------------------------------------------------------------------
def is_out(t):
    """target designates an address outside the method (see the module docstring)"""
    return isinstance(t, (list, tuple))


def _tgt(t, key, out):
    """asm target of abstract target t: label name, or the raw relative offset resolved by _assemble"""
    if not is_out(t):
        return 'L%d' % t
    if t[1] == 'far':
        return t[2]
    return (out or {}).get(key, -1 if t[1] == 'neg' else 1)     # placeholder until the layout is known


def _ins_of(op, ix, i=None, out=None):
    k = op[0]
    if k == 'plain':
        return A.Ins(op[1]['ins'], **op[1]['fields'])
    if k == 'ref':
        name, fields, ref = op[1], dict(op[2]), tuple(op[3])
        fld = ds.index_fields(ds.BY_NAME[name])[0]
        if ix is None:
            fields[fld] = 0
        elif ref[0] == 's':
            fields[fld] = ix.s(ref[1])
        elif ref[0] == 't':
            fields[fld] = ix.t(ref[1])
        elif ref[0] == 'f':
            fields[fld] = ix.f(ref[1], ref[2], ref[3])
        else:
            fields[fld] = ix.m(ref[1], ref[2], ref[3], tuple(ref[4]))
        return A.Ins(name, **fields)
    if k == 'if':
        return A.Ins(op[1], A=op[2], B=op[3], target=_tgt(op[4], ('i', i), out))
    if k == 'ifz':
        return A.Ins(op[1], AA=op[2], target=_tgt(op[3], ('i', i), out))
    if k == 'goto':
        return A.Goto(_tgt(op[1], ('i', i), out), op[2])
    if k in ('packed', 'sparse', 'fill'):
        name = {'packed': 'packed-switch', 'sparse': 'sparse-switch', 'fill': 'fill-array-data'}[k]
        return A.Ins(name, AA=op[1], target='P%d' % op[2])
    if k == 'return-void':
        return A.Ins('return-void')
    if k == 'return':
        return A.Ins(op[1], AA=op[2])
    if k == 'throw':
        return A.Ins('throw', AA=op[1])
    raise ValueError(op)


def _payload_item(pl, k, base, raw_targets=None, align=True):
    kind = pl['kind']
    if kind == 'fill':
        return A.FillArrayPayload(pl['width'], bytes.fromhex(pl['data']), align=align)
    targets = raw_targets if raw_targets is not None else ['L%d' % t for t in pl['targets']]
    if kind == 'packed':
        return A.PackedSwitchPayload(pl['first_key'], targets, align=align, base=base)
    return A.SparseSwitchPayload(pl['keys'], targets, align=align, base=base)


def lower(am, ix=None, _raw=None, _nops=None, _out=None):
    """abstract method -> asm item list. _raw: {payload index: raw target list}; _nops: {payload index: n}
    (extra nop instructions in front of a payload, used to force odd placement); _out: {('i', pos) | ('p', payload
    index, case index): raw relative offset} of the out-of-method 'neg' / 'end' targets"""
    ins = am['ins']
    users = {}
    for i, op in enumerate(ins):
        if op[0] in ('packed', 'sparse', 'fill'):
            users.setdefault(op[2], []).append(i)
    after = {}
    tail = []
    for k, pl in enumerate(am['payloads']):
        if pl.get('after') is None:
            tail.append(k)
        else:
            after.setdefault(pl['after'], []).append(k)

    def emit_payload(k):
        pl = am['payloads'][k]
        for _ in range((_nops or {}).get(k, 0)):
            out.append(A.Ins('nop'))
        out.append(A.Label('P%d' % k))
        base = 'L%d' % users[k][0] if users.get(k) else None
        raw = (_raw or {}).get(k)
        if raw is None and 'shared_sel' in pl:
            raw = [0] * len(pl['shared_sel'])
        if raw is None and pl['kind'] != 'fill' and base is None:
            raw = [0] * len(pl['targets'])          # unreferenced payload (does not happen in generated methods)
        if raw is None and pl['kind'] != 'fill':
            raw = [_tgt(t, ('p', k, j), _out) for j, t in enumerate(pl['targets'])]
        out.append(_payload_item(pl, k, base, raw, align=(pl.get('align', 'align') == 'align')))

    out = []
    for i, op in enumerate(ins):
        out.append(A.Label('L%d' % i))
        out.append(_ins_of(op, ix, i, _out))
        for k in after.get(i, ()):
            emit_payload(k)
    for k in tail:
        emit_payload(k)
    return out


def _assemble(am, ix):
    """lower + assemble, resolving shared switch payloads and forced odd placement (layout fixpoint)"""
    raw = {}
    nops = {}
    outd = {}
    ins = am['ins']
    users = {}
    for i, op in enumerate(ins):
        if op[0] in ('packed', 'sparse', 'fill'):
            users.setdefault(op[2], []).append(i)
    outs = out_targets(am)
    for _round in range(2 * len(am['payloads']) + 2 * len(outs) + 4):
        src = lower(am, ix, raw, nops, outd)
        asm = A.assemble(src)
        changed = False
        # forced odd placement, one payload at a time in emission order
        for e in asm.items:
            if e.kind != 'payload':
                continue
            k = int(src[e.index - 1].name[1:])
            if am['payloads'][k].get('align') == 'odd' and e.unit % 2 == 0:
                nops[k] = nops.get(k, 0) + 1
                changed = True
                break
        if changed:
            continue
        # shared switch payloads: raw targets valid for every user
        starts = sorted(e.unit for e in asm.items if e.kind == 'ins')
        sset = set(starts)
        for k, pl in enumerate(am['payloads']):
            if 'shared_sel' not in pl:
                continue
            us = [asm.labels['L%d' % i] for i in users.get(k, ())]
            cands = [t - us[0] for t in starts if all((t - us[0] + u) in sset for u in us)] if us else [0]
            want = [cands[s % len(cands)] for s in pl['shared_sel']]
            if raw.get(k) != want:
                raw[k] = want
                changed = True
        # out-of-method targets: absolute unit -k / total + k -> offset relative to the branching instruction
        total = len(asm.code) // 2
        for (key, i, t) in outs:
            here = asm.labels['L%d' % i]
            if t[1] == 'far':
                if 0 <= here + t[2] < total:
                    raise AssertionError('far target %r of instruction %d stays inside the method' % (t, i))
                continue
            want = (-t[2] if t[1] == 'neg' else total + t[2]) - here
            if outd.get(key) != want:
                outd[key] = want
                changed = True
        if not changed:
            return src, asm
    raise AssertionError('layout did not converge')


def out_targets(am):
    """[(key, position of the branching instruction, target)] for every out-of-method target that is emitted
    (key as in lower(_out=...); the targets of a shared switch payload are replaced by 'shared_sel')"""
    res = []
    for i, op in enumerate(am['ins']):
        if op[0] in ('if', 'ifz', 'goto'):
            t = op[{'if': 4, 'ifz': 3, 'goto': 1}[op[0]]]
            if is_out(t):
                res.append((('i', i), i, t))
        elif op[0] in ('packed', 'sparse'):
            pl = am['payloads'][op[2]]
            if 'shared_sel' not in pl:
                for j, t in enumerate(pl['targets']):
                    if is_out(t):
                        res.append((('p', op[2], j), i, t))
    return res


def assemble_method(am, ix=None):
    src, asm = _assemble(am, ix)
    by_index = {}
    for e in asm.items:
        if e.kind == 'ins':
            by_index[e.index] = e
    pos_off = {}
    pos_end = {}
    pos = 0
    for idx, it in enumerate(src):
        if isinstance(it, A.Label) and it.name.startswith('L'):
            pos = int(it.name[1:])
        elif isinstance(it, (A.Ins, A.Goto)) and idx in by_index and pos not in pos_off:
            pos_off[pos] = by_index[idx].unit
            pos_end[pos] = by_index[idx].unit + by_index[idx].length // 2
    handlers = []
    for (pairs, call) in am['handlers']:
        handlers.append(([(t, pos_off[p]) for (t, p) in pairs], None if call is None else pos_off[call]))
    tries = []
    for (s, e, h) in am['tries']:
        start = pos_off[s]
        end = pos_end[e - 1]
        tries.append((start, end - start, h))
    return Lowered(asm.code, asm.items, tries, handlers, pos_off)


def method_refs(am):
    out = []
    for op in am['ins']:
        if op[0] == 'ref':
            r = list(op[3])
            if r[0] == 'm':
                r[4] = tuple(r[4])
            out.append(tuple(r))
    return out


def relayout(am, nops=2, move=False):
    """The same abstract method (same instructions, same control flow, same tries) laid out differently: `nops` nop
    instructions are put in front, so every instruction position shifts by `nops` (targets, tries, handlers and
    payload anchors are shifted along; out-of-method targets stay what they are); with move=True the first payload
    that can change place does: a mid-method payload goes to the end of the method, a payload at the end goes behind
    the first instruction that never falls through and lies in no try (the placement rule of abstract_method)."""
    def sh(t):
        return t if is_out(t) else t + nops
    ins = [['plain', {'ins': 'nop', 'fields': {}}] for _ in range(nops)]
    for op in am['ins']:
        op = list(op)
        if op[0] == 'if':
            op[4] = sh(op[4])
        elif op[0] == 'ifz':
            op[3] = sh(op[3])
        elif op[0] == 'goto':
            op[1] = sh(op[1])
        ins.append(op)
    payloads = []
    for pl in am['payloads']:
        pl = dict(pl)
        if 'targets' in pl:
            pl['targets'] = [sh(t) for t in pl['targets']]
        if pl.get('after') is not None:
            pl['after'] += nops
        payloads.append(pl)
    tries = [[s + nops, e + nops, h] for (s, e, h) in am['tries']]
    handlers = [[[[t, p + nops] for (t, p) in pairs], None if call is None else call + nops]
                for (pairs, call) in am['handlers']]
    if move:
        n = len(ins)
        nofall = [i for i, op in enumerate(ins) if op[0] in ('return-void', 'return', 'throw', 'goto') and i < n - 1
                  and not any(s <= i and i + 1 < e for (s, e, _h) in tries)]
        for pl in payloads:
            if pl.get('after') is not None:
                pl['after'] = None
                break
            if nofall:
                pl['after'] = nofall[0]
                break
    return {'ins': ins, 'payloads': payloads, 'tries': tries, 'handlers': handlers}


def build_dex(methods, version='035', with_ix=False):
    """methods: list of abstract methods -> (dex bytes, [(name, Lowered)]) with pool indices resolved"""
    ms = []
    for k, am in enumerate(methods):
        low0 = assemble_method(am, None)

        def insns(ix, am=am):
            return assemble_method(am, ix).code
        ms.append(G.Method('m%d' % k, 'V', (), 0x9,
                           G.Code(0xffff, 0, 5, insns, low0.tries, low0.handlers, refs=method_refs(am))))
    ms.append(G.Method('helper', 'V', (), 0x9, G.Code(1, 0, 0, bytes([0x0e, 0x00]))))
    t = G.Class(CLS, 0x1, 'Ljava/lang/Object;', sfields=[G.Field('sf', 'I', 0x9)], dmethods=ms)
    o = G.Class(OTHER, 0x1, 'Ljava/lang/Object;', sfields=[G.Field('of', 'J', 0x9)], ifields=[G.Field('g', 'I', 0x1)],
                dmethods=[G.Method('callee', 'V', (), 0x9, G.Code(1, 0, 0, bytes([0x0e, 0x00])))],
                vmethods=[G.Method('vm', 'V', (), 0x1, G.Code(1, 1, 0, bytes([0x0e, 0x00])))])
    df = G.DexFile([t, o], version=version)
    data = df.build()
    lows = [('m%d' % k, assemble_method(am, df.ix)) for k, am in enumerate(methods)]
    return (data, lows, df.ix) if with_ix else (data, lows)


# ---------------------------------------------------------------------------------------------------
# measured shape features
# ---------------------------------------------------------------------------------------------------
def branch_targets(am):
    """positions that are explicit branch / switch targets (out-of-method targets are no positions)"""
    out = []
    for op in am['ins']:
        if op[0] == 'if':
            out.append(op[4])
        elif op[0] == 'ifz':
            out.append(op[3])
        elif op[0] == 'goto':
            out.append(op[1])
    for pl in am['payloads']:
        if pl['kind'] != 'fill' and 'shared_sel' not in pl:
            out.extend(pl['targets'])
    return {t for t in out if not is_out(t)}


def features(am, low=None):
    f = set()
    ins = am['ins']
    n = len(ins)
    bt = branch_targets(am)
    def oob(t, where):
        # out-of-method target shapes (measured): where it points and which kind of instruction carries it
        f.add('oob-target')
        f.add('oob-in:' + where)
        if t[1] == 'neg':
            f.add('oob:before-start')
            if t[2] == 1:
                f.add('oob:one-unit-before-start')
        elif t[1] == 'end':
            f.add('oob:exactly-at-end' if t[2] == 0 else 'oob:beyond-end')
        else:
            f.add('oob:far-16bit' if abs(t[2]) <= 0x8000 else 'oob:far-32bit')
            f.add('oob:far-negative' if t[2] < 0 else 'oob:far-positive')

    for i, op in enumerate(ins):
        k = op[0]
        if k in ('if', 'ifz'):
            t = op[4] if k == 'if' else op[3]
            f.add('if')
            if is_out(t):
                oob(t, 'if')
                continue
            if t == i + 1:
                f.add('if-target-is-fallthrough')
            if t <= i:
                f.add('back-edge')
            if t == 0:
                f.add('branch-to-0')
        elif k == 'goto':
            f.add('goto')
            f.add('goto-width-%s' % op[2])
            if is_out(op[1]):
                oob(op[1], 'goto')
                if i == n - 1:
                    f.add('oob-in:last-instruction')
                continue
            if op[1] <= i:
                f.add('back-edge')
            if op[1] == i:
                f.add('goto-self')
            if op[1] == 0:
                f.add('branch-to-0')
        elif k in ('packed', 'sparse'):
            pl = am['payloads'][op[2]]
            f.add('switch')
            f.add(k + '-switch')
            size = len(pl['shared_sel']) if 'shared_sel' in pl else len(pl['targets'])
            if size == 0:
                f.add('switch-size-0')
            if 'shared_sel' in pl:
                f.add('shared-payload')
            else:
                inm = [t for t in pl['targets'] if not is_out(t)]
                for t in pl['targets']:
                    if is_out(t):
                        oob(t, 'switch')
                if size and not inm:
                    f.add('oob:all-cases-of-a-switch')
                if len(set(inm)) < len(inm):
                    f.add('switch-duplicate-targets')
                if any(t <= i for t in inm):
                    f.add('back-edge')
                if 0 in inm:
                    f.add('branch-to-0')
        elif k == 'fill':
            f.add('fill-array-data')
        elif k == 'throw':
            f.add('throw')
        elif k in ('return', 'return-void'):
            f.add('return')
        elif k == 'ref':
            f.add('xref-instruction')
    for pl in am['payloads']:
        if pl.get('after') is not None:
            f.add('payload-mid-method')
        if pl.get('align') in ('raw', 'odd'):
            f.add('payload-align-' + pl['align'])
    tr = sorted(am['tries'])
    if tr:
        f.add('tries:%d' % min(len(tr), 3))
    for j, (s, e, h) in enumerate(tr):
        for (b, nm) in ((s, 'start'), (e, 'end')):
            if b in bt:
                f.add('try-%s-at-branch-target' % nm)
            if b - 1 in bt:
                f.add('try-%s-one-after-branch-target' % nm)
            if b + 1 in bt:
                f.add('try-%s-one-before-branch-target' % nm)
        if any(s < t < e for t in bt):
            f.add('branch-into-middle-of-try')
        if j + 1 < len(tr) and tr[j + 1][0] == e:
            f.add('adjacent-tries')
        # try inside a loop body: some backward branch from at/after the try's end to at/before its start
        for i, op in enumerate(ins):
            ts = []
            if op[0] == 'if':
                ts = [op[4]]
            elif op[0] == 'ifz':
                ts = [op[3]]
            elif op[0] == 'goto':
                ts = [op[1]]
            if any(t <= s for t in ts if not is_out(t)) and i >= e - 1:
                f.add('try-inside-loop')
        pairs, call = am['handlers'][h]
        if call is not None:
            f.add('catch-all')
        if pairs:
            f.add('typed-handlers:%d' % min(len(pairs), 3))
        if any(s <= p < e for (_t, p) in pairs) or (call is not None and s <= call < e):
            f.add('handler-inside-own-try')
    hs = [h for (_s, _e, h) in tr]
    if len(set(hs)) < len(hs):
        f.add('shared-handler-list')
    if low is not None:
        for e in low.items:
            if e.kind == 'payload' and e.unit % 2:
                f.add('payload-misaligned')
            if e.kind == 'pad':
                f.add('alignment-nop')
    return f


# ---------------------------------------------------------------------------------------------------
# Hypothesis strategy
# ---------------------------------------------------------------------------------------------------
def _st():
    from hypothesis import strategies as st
    return st


def abstract_method(max_ins=24, misalign=False, want_payload=False, want_try=False, xrefs=False):
    """Strategy for one abstract method. misalign: payloads may be unaligned / forced odd and switch payloads
    may be placed anywhere (C40 only); otherwise every payload is 4-byte aligned as the specification requires."""
    st = _st()

    @st.composite
    def gen(draw):
        n = draw(st.integers(2, max_ins))
        reg = st.integers(0, 15)
        reg8 = st.integers(0, 255)

        # every 4th method may branch out of the method; there, every 4th target does
        oob_method = draw(st.integers(0, 3)) == 0

        def out_target():
            c = draw(st.integers(0, 9))
            if c <= 3:
                return ['out', 'neg', draw(st.sampled_from([1, 1, 2, 3, 4, 7, 16, 200]))]
            if c <= 5:
                return ['out', 'end', 0]
            if c <= 7:
                return ['out', 'end', draw(st.sampled_from([1, 1, 2, 3, 8, 200]))]
            return ['out', 'far', None]                      # the offset is chosen by the user (depends on its width)

        def far(t, wide):
            if is_out(t) and t[1] == 'far':
                vals = [0x7fff, -0x7fff, -0x8000]
                if wide:
                    vals = vals[:2] + [0x7fffffff, -0x7fffffff, -0x80000000, 0x7fffffff, -0x80000000]
                return ['out', 'far', draw(st.sampled_from(vals))]
            return t

        def target(i):
            if oob_method and draw(st.integers(0, 3)) == 0:
                return out_target()
            # boosted: method start, the fall-through position, a near neighbour; else anywhere
            c = draw(st.integers(0, 9))
            if c == 0:
                return 0
            if c == 1 and i + 1 < n:
                return i + 1
            if c == 2:
                return max(0, min(n - 1, i + draw(st.integers(-3, 3))))
            return draw(st.integers(0, n - 1))

        ins = []
        payloads = []
        sw_payloads = {'packed': [], 'sparse': [], 'fill': []}

        def new_switch_payload(kind, i):
            size = draw(st.sampled_from([0, 1, 1, 2, 2, 3, 4, 6]))
            ts = [far(target(i), True) for _ in range(size)]
            if size >= 2 and draw(st.integers(0, 3)) == 0:
                ts[draw(st.integers(0, size - 1))] = ts[0]          # duplicate target
            pl = {'kind': kind, 'targets': ts, 'after': None, 'align': 'align'}
            if kind == 'packed':
                pl['first_key'] = draw(st.sampled_from([0, 1, -1, 0x100, 0x7ffffff0, -0x80000000, 0x03000200]))
            else:
                pl['keys'] = sorted(draw(st.lists(st.integers(-1 << 31, (1 << 31) - 1), min_size=size, max_size=size,
                                                  unique=True)))
            payloads.append(pl)
            sw_payloads[kind].append(len(payloads) - 1)
            return len(payloads) - 1

        def new_fill_payload():
            w = draw(st.sampled_from([1, 2, 4, 8]))
            cnt = draw(st.integers(0, 5))
            data = draw(st.binary(min_size=w * cnt, max_size=w * cnt))
            if cnt and draw(st.integers(0, 3)) == 0:
                data = (b'\x00\x01\x00\x02\x00\x03' * 8)[:w * cnt]   # data that looks like payload idents
            payloads.append({'kind': 'fill', 'width': w, 'data': data.hex(), 'after': None, 'align': 'align'})
            sw_payloads['fill'].append(len(payloads) - 1)
            return len(payloads) - 1

        def terminator(i):
            c = draw(st.integers(0, 4))
            if c == 0:
                return ['return-void']
            if c == 1:
                return ['return', draw(st.sampled_from(['return', 'return-wide', 'return-object'])), draw(reg8)]
            if c == 2:
                return ['throw', draw(reg8)]
            return goto(i)

        def goto(i):
            t = target(i)
            if is_out(t) and t[1] == 'far':
                w = draw(st.sampled_from([None, 16, 32, 32]))
                t = far(t, w != 16)
                return ['goto', t, 32 if abs(t[2]) > 0x8000 else w]
            return ['goto', t, None if t == i else draw(st.sampled_from([None, None, 16, 32]))]

        for i in range(n):
            if i == n - 1:
                ins.append(terminator(i))
                continue
            c = draw(st.integers(0, 19))
            if c <= 6:
                if draw(st.booleans()):
                    nm, fl = draw(st.sampled_from(SIMPLE))
                    ins.append(['plain', {'ins': nm, 'fields': dict(fl)}])
                else:
                    ins.append(['plain', draw(A.any_instruction(PLAIN_OPS)).to_json()])
            elif c <= 8 and xrefs:
                nm, fl, ref = draw(st.sampled_from(REFS))
                ins.append(['ref', nm, dict(fl), list(ref)])
            elif c <= 8:
                nm, fl = draw(st.sampled_from(SIMPLE))
                ins.append(['plain', {'ins': nm, 'fields': dict(fl)}])
            elif c <= 11:
                t = far(target(i), False)
                if t == i:                       # "the branch offset must not be 0"
                    t = i + 1
                if draw(st.booleans()):
                    ins.append(['if', draw(st.sampled_from(['if-eq', 'if-ne', 'if-lt', 'if-ge', 'if-gt', 'if-le'])),
                                draw(reg), draw(reg), t])
                else:
                    ins.append(['ifz', draw(st.sampled_from(['if-eqz', 'if-nez', 'if-ltz', 'if-gez', 'if-gtz', 'if-lez'])),
                                draw(reg8), t])
            elif c <= 13:
                ins.append(goto(i))
            elif c <= 15:
                kind = draw(st.sampled_from(['packed', 'sparse']))
                if sw_payloads[kind] and draw(st.integers(0, 3)) == 0:
                    k = draw(st.sampled_from(sw_payloads[kind]))          # share an existing payload
                    pl = payloads[k]
                    if 'shared_sel' not in pl:
                        pl['shared_sel'] = [draw(st.integers(0, 1000)) for _ in pl['targets']]
                        if len(pl['shared_sel']) >= 2 and draw(st.booleans()):
                            pl['shared_sel'][-1] = pl['shared_sel'][0]
                    ins.append([kind, draw(reg8), k])
                else:
                    ins.append([kind, draw(reg8), new_switch_payload(kind, i)])
            elif c == 16:
                if sw_payloads['fill'] and draw(st.integers(0, 3)) == 0:
                    ins.append(['fill', draw(reg8), draw(st.sampled_from(sw_payloads['fill']))])
                else:
                    ins.append(['fill', draw(reg8), new_fill_payload()])
            else:
                ins.append(terminator(i))

        if want_payload and not payloads:
            i = draw(st.integers(0, n - 2))
            if draw(st.booleans()):
                kind = draw(st.sampled_from(['packed', 'sparse']))
                ins[i] = [kind, draw(reg8), new_switch_payload(kind, i)]
            else:
                ins[i] = ['fill', draw(reg8), new_fill_payload()]

        # tries: boundaries boosted around branch targets
        am = {'ins': ins, 'payloads': payloads, 'tries': [], 'handlers': []}
        bt = sorted(branch_targets(am))
        ntries = draw(st.sampled_from([0, 0, 1, 1, 2, 3] if not want_try else [1, 1, 2, 3]))

        def boundary():
            if bt and draw(st.integers(0, 2)) > 0:
                return max(0, min(n, draw(st.sampled_from(bt)) + draw(st.sampled_from([-1, 0, 0, 1]))))
            return draw(st.integers(0, n))
        bs = sorted(boundary() for _ in range(2 * ntries))
        tries = []
        prev_end = 0
        for j in range(ntries):
            s, e = bs[2 * j], bs[2 * j + 1]
            s = max(s, prev_end)
            if e <= s:
                e = s + 1
            if e > n:
                continue
            tries.append([s, e])
            prev_end = e
        handlers = []
        for tr in tries:
            if handlers and draw(st.integers(0, 3)) == 0:
                tr.append(draw(st.integers(0, len(handlers) - 1)))
                continue
            nt = draw(st.sampled_from([0, 1, 1, 2, 3]))
            types = draw(st.lists(st.sampled_from(EXC_TYPES), min_size=nt, max_size=nt, unique=True))
            pairs = [[t, draw(st.integers(0, n - 1))] for t in types]
            call = draw(st.integers(0, n - 1)) if (nt == 0 or draw(st.booleans())) else None
            handlers.append([pairs, call])
            tr.append(len(handlers) - 1)
        am['tries'] = tries
        am['handlers'] = handlers

        # payload placement. Mid-method only after an instruction that never falls through and never inside a try
        nofall = [i for i, op in enumerate(ins) if op[0] in ('return-void', 'return', 'throw', 'goto') and i < n - 1
                  and not any(s <= i and i + 1 < e for (s, e, _h) in tries)]
        for pl in payloads:
            if nofall and draw(st.integers(0, 4)) == 0:
                pl['after'] = draw(st.sampled_from(nofall))
            if misalign:
                pl['align'] = draw(st.sampled_from(['align', 'raw', 'odd', 'odd']))
        return am
    return gen()
