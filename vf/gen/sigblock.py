"""sigblock — APK Signing Block writer, independent reader and Hypothesis strategies (never imports androguard).

Format (source.android.com "APK Signature Scheme v2 / v3 / v3.1"; all integers little-endian):

  APK = [zip entries] [APK Signing Block] [central directory] [EOCD]        (EOCD.cd_offset points after the block)

  APK Signing Block :=
      uint64 size_of_block                  (bytes that follow this field = len(pairs) + 8 + 16)
      pairs: sequence of { uint64 len ; uint32 id ; value (len-4 bytes) }
      uint64 size_of_block                  (same value)
      magic  "APK Sig Block 42"             (16 bytes)

  value of the pair with id V2_ID (0x7109871a)  := lp-seq of lp signer_v2
  value of the pair with id V3_ID (0xf05368c0) or V31_ID (0x1b93ad61) := lp-seq of lp signer_v3
      (lp x = uint32 len(x) ; x           lp-seq of lp x = lp( lp x1 ; lp x2 ; ... ))

  signer_v2 := lp signed_data_v2 ; lp-seq of lp signature ; lp public_key(SubjectPublicKeyInfo DER)
  signed_data_v2 := lp-seq of lp digest ; lp-seq of lp certificate(X.509 DER) ; lp-seq of lp attribute
  signer_v3 := lp signed_data_v3 ; uint32 minSDK ; uint32 maxSDK ; lp-seq of lp signature ; lp public_key
  signed_data_v3 := lp-seq of lp digest ; lp-seq of lp certificate ; uint32 minSDK ; uint32 maxSDK ; lp-seq of lp attribute
  digest    := uint32 signature_algorithm_id ; lp digest_bytes
  signature := uint32 signature_algorithm_id ; lp signature_bytes
  attribute := uint32 id ; value (rest of the attribute)

Model (plain JSON-able Python data, so that it can live in a replay file):
  signer = {'digests': [[algo, bytes], ...], 'certs': [der, ...], 'attrs': [[id, bytes], ...],
            'sigs': [[algo, bytes], ...], 'pubkey': bytes,
            # v3 / v3.1 only:
            'sd_min': int, 'sd_max': int, 'min': int, 'max': int,
            # optional, only produced by the reader for byte-exact round trips of foreign files:
            'sd_trailing': bytes, 'trailing': bytes}
  pair   = {'id': int, 'signers': [signer, ...]}      (id must be V2_ID / V3_ID / V31_ID)
         | {'id': int, 'value': bytes}                 (opaque value, any id)

API:
  encode_scheme_value(signers, v3) -> bytes            decode_scheme_value(bytes, v3) -> signers
  pair_value(pair) -> bytes
  encode_signing_block(pairs, pad_to=0) -> bytes       (pad_to=4096: add a PADDING_ID pair like apksigner does)
  insert_signing_block(zip_bytes, block) -> apk bytes  (block placed before the central directory, EOCD patched)
  sign_zip(zip_bytes, pairs, pad_to=0) -> apk bytes
  find_signing_block(apk) -> None | {'start','end','pairs': [(id, value), ...]}      (independent reader)
  first_pair(pairs, id), expected_view(pairs) -> what a reader that follows the spec must report
  strategies: signers(v3), pair_lists(), ...
Signatures/digests are random bytes: nothing here makes a block that *verifies*; it is about encoding.
"""
import os
import struct

from hypothesis import strategies as st

from . import zipgen

MAGIC = b'APK Sig Block 42'
V2_ID = 0x7109871a
V3_ID = 0xf05368c0
V31_ID = 0x1b93ad61
PADDING_ID = 0x42726577                       # "verity padding"
SCHEME_IDS = {V2_ID: 'v2', V3_ID: 'v3', V31_ID: 'v31'}
SCHEME_BY_NAME = {'v2': V2_ID, 'v3': V3_ID, 'v31': V31_ID}
# other ids seen in the wild (opaque to every scheme parser)
OTHER_KNOWN_IDS = [PADDING_ID, 0x504b4453, 0x6dff800d, 0x2b09189e, 0x2146444e, 0x71777777]

# additional-attribute ids
ATTR_STRIPPING_PROTECTION = 0xbeeff00d        # v2: uint32 scheme id the APK was also signed with
ATTR_PROOF_OF_ROTATION = 0x3ba06f8c           # v3: signing-certificate lineage
ATTR_ROTATION_MIN_SDK = 0x559f8b02            # v3.1
ATTR_ROTATION_ON_DEV_RELEASE = 0xc2a6b3ba     # v3.1

SIG_ALGOS = [0x0101, 0x0102, 0x0103, 0x0104, 0x0201, 0x0202, 0x0301, 0x0421, 0x0423, 0x0425]

CERT_DIR = os.path.join(os.path.dirname(os.path.dirname(os.path.dirname(os.path.abspath(__file__)))), 'fixtures', 'certs')
CERT_NAMES = ['rsa2048', 'rsa1024', 'ecp256', 'ecp384', 'dsa2048', 'rsa2048b']


class SigBlockError(Exception):
    pass


def load_fixtures():
    """-> {name: {'cert': DER bytes, 'spki': DER bytes}} from /verif/fixtures/certs (committed files)"""
    out = {}
    for n in CERT_NAMES:
        with open(os.path.join(CERT_DIR, n + '.cert.der'), 'rb') as f:
            c = f.read()
        with open(os.path.join(CERT_DIR, n + '.spki.der'), 'rb') as f:
            k = f.read()
        out[n] = {'cert': c, 'spki': k}
    return out


# --------------------------------------------------------------------------------------------
# writer
# --------------------------------------------------------------------------------------------

def u32(v):
    return struct.pack('<I', v)


def lp(b):
    return struct.pack('<I', len(b)) + bytes(b)


def lpseq(items):
    return lp(b''.join(lp(i) for i in items))


def encode_algo_record(rec):
    return u32(rec[0]) + lp(rec[1])


def encode_attribute(attr):
    return u32(attr[0]) + bytes(attr[1])


def attributes_content(attrs):
    """the bytes inside the length prefix of the additional-attributes sequence"""
    return b''.join(lp(encode_attribute(a)) for a in attrs)


def encode_signed_data(s, v3):
    out = lpseq([encode_algo_record(d) for d in s['digests']])
    out += lpseq(s['certs'])
    if v3:
        out += u32(s['sd_min']) + u32(s['sd_max'])
    out += lp(attributes_content(s['attrs']))
    out += bytes(s.get('sd_trailing', b''))
    return out


def encode_signer(s, v3):
    out = lp(encode_signed_data(s, v3))
    if v3:
        out += u32(s['min']) + u32(s['max'])
    out += lpseq([encode_algo_record(d) for d in s['sigs']])
    out += lp(s['pubkey'])
    out += bytes(s.get('trailing', b''))
    return out


def encode_scheme_value(signers, v3):
    return lpseq([encode_signer(s, v3) for s in signers])


def pair_value(pair):
    if 'signers' in pair:
        if pair['id'] not in SCHEME_IDS:
            raise SigBlockError('signers given for a non-scheme id %#x' % pair['id'])
        return encode_scheme_value(pair['signers'], pair['id'] != V2_ID)
    return bytes(pair['value'])


def encode_pairs(pairs):
    out = b''
    for p in pairs:
        v = pair_value(p)
        out += struct.pack('<QI', len(v) + 4, p['id']) + v
    return out


def encode_signing_block(pairs, pad_to=0):
    body = encode_pairs(pairs)
    if pad_to:
        # apksigner: make the whole block (8 + body + 8 + 16) a multiple of pad_to with a PADDING_ID pair
        total = 8 + len(body) + 24
        if total % pad_to:
            need = pad_to - total % pad_to
            if need < 12:
                need += pad_to
            body += struct.pack('<QI', need - 8, PADDING_ID) + b'\x00' * (need - 12)
    size = len(body) + 24
    return struct.pack('<Q', size) + body + struct.pack('<Q', size) + MAGIC


def insert_signing_block(zip_bytes, block):
    info = zipgen.locate(zip_bytes)
    cd, eo = info['cd_offset'], info['eocd_offset']
    if cd + info['cd_size'] != eo:
        raise SigBlockError('central directory is not directly followed by the EOCD')
    new_cd = cd + len(block)
    if new_cd > 0xffffffff:
        raise SigBlockError('too large')
    eocd = bytearray(zip_bytes[eo:])
    eocd[16:20] = struct.pack('<I', new_cd)
    return bytes(zip_bytes[:cd]) + bytes(block) + bytes(zip_bytes[cd:eo]) + bytes(eocd)


def sign_zip(zip_bytes, pairs, pad_to=0):
    return insert_signing_block(zip_bytes, encode_signing_block(pairs, pad_to))


# --------------------------------------------------------------------------------------------
# independent reader (round-trip validation of the writer against foreign files; generator self-check)
# --------------------------------------------------------------------------------------------

class _R:
    def __init__(self, b):
        self.b = bytes(b)
        self.p = 0

    def u32(self):
        if self.p + 4 > len(self.b):
            raise SigBlockError('truncated uint32')
        v = struct.unpack_from('<I', self.b, self.p)[0]
        self.p += 4
        return v

    def take(self, n):
        if self.p + n > len(self.b):
            raise SigBlockError('truncated: want %d have %d' % (n, len(self.b) - self.p))
        v = self.b[self.p:self.p + n]
        self.p += n
        return v

    def lp(self):
        return self.take(self.u32())

    def rest(self):
        v = self.b[self.p:]
        self.p = len(self.b)
        return v

    def done(self):
        return self.p >= len(self.b)


def _seq(b):
    r = _R(b)
    out = []
    while not r.done():
        out.append(r.lp())
    return out


def _algo_record(b):
    r = _R(b)
    algo = r.u32()
    data = r.lp()
    if not r.done():
        raise SigBlockError('trailing bytes in digest/signature record')
    return [algo, data]


def decode_signer(b, v3):
    r = _R(b)
    sd = _R(r.lp())
    s = {}
    s['digests'] = [_algo_record(x) for x in _seq(sd.lp())]
    s['certs'] = _seq(sd.lp())
    if v3:
        s['sd_min'] = sd.u32()
        s['sd_max'] = sd.u32()
    s['attrs'] = []
    for a in _seq(sd.lp()):
        if len(a) < 4:
            raise SigBlockError('attribute shorter than its id')
        s['attrs'].append([struct.unpack('<I', a[:4])[0], a[4:]])
    t = sd.rest()
    if t:
        s['sd_trailing'] = t
    if v3:
        s['min'] = r.u32()
        s['max'] = r.u32()
    s['sigs'] = [_algo_record(x) for x in _seq(r.lp())]
    s['pubkey'] = r.lp()
    t = r.rest()
    if t:
        s['trailing'] = t
    return s


def decode_scheme_value(value, v3):
    r = _R(value)
    body = r.lp()
    if not r.done():
        raise SigBlockError('bytes after the signer sequence')
    return [decode_signer(x, v3) for x in _seq(body)]


def find_signing_block(apk):
    """-> None if there is no signing block, else {'start', 'end', 'pairs': [(id, value)]}; SigBlockError if broken"""
    info = zipgen.locate(apk)
    cd = info['cd_offset']
    if cd < 32 or apk[cd - 16:cd] != MAGIC:
        return None
    size = struct.unpack('<Q', apk[cd - 24:cd - 16])[0]
    start = cd - size - 8
    if start < 0:
        raise SigBlockError('block size out of range')
    if struct.unpack('<Q', apk[start:start + 8])[0] != size:
        raise SigBlockError('size fields differ')
    pos, end = start + 8, cd - 24
    pairs = []
    while pos < end:
        ln, pid = struct.unpack('<QI', apk[pos:pos + 12])
        if ln < 4 or pos + 8 + ln > end:
            raise SigBlockError('pair length out of range')
        pairs.append((pid, apk[pos + 12:pos + 8 + ln]))
        pos += 8 + ln
    return {'start': start, 'end': cd, 'pairs': pairs}


# --------------------------------------------------------------------------------------------
# what must be reported (the reference view)
# --------------------------------------------------------------------------------------------

def first_pair(pairs, pid):
    for p in pairs:
        if p['id'] == pid:
            return p
    return None


def expected_view(pairs):
    """-> {'v2'|'v3'|'v31': {'present': bool, 'signers': [signer model] | None}, 'dup_scheme': bool, 'dup_any': bool}
    signers = those of the FIRST pair with the scheme's id ([] when absent)."""
    ids = [p['id'] for p in pairs]
    view = {}
    for name, pid in SCHEME_BY_NAME.items():
        p = first_pair(pairs, pid)
        if p is None:
            view[name] = {'present': False, 'signers': []}
        else:
            if 'signers' not in p:
                raise SigBlockError('the first pair of a scheme id must be a modelled one')
            view[name] = {'present': True, 'signers': p['signers']}
    view['dup_scheme'] = any(ids.count(pid) > 1 for pid in SCHEME_IDS)
    view['dup_any'] = len(set(ids)) != len(ids)
    return view


# --------------------------------------------------------------------------------------------
# strategies
# --------------------------------------------------------------------------------------------

_FIX = None


def fixtures():
    global _FIX
    if _FIX is None:
        _FIX = load_fixtures()
    return _FIX


uint32s = st.one_of(st.integers(0, 0xffffffff), st.sampled_from([0, 1, 0x7fffffff, 0x80000000, 0xffffffff]))
algo_ids = st.one_of(st.sampled_from(SIG_ALGOS), st.sampled_from(SIG_ALGOS), uint32s)
digest_bytes = st.one_of(st.sampled_from([20, 32, 64]).flatmap(lambda n: st.binary(min_size=n, max_size=n)),
                         st.binary(max_size=70))
signature_bytes = st.one_of(st.sampled_from([64, 71, 128, 256]).flatmap(lambda n: st.binary(min_size=n, max_size=n)),
                            st.binary(max_size=40))
digest_records = st.tuples(algo_ids, digest_bytes).map(list)
signature_records = st.tuples(algo_ids, signature_bytes).map(list)

attributes = st.one_of(
    st.tuples(st.just(ATTR_STRIPPING_PROTECTION), st.sampled_from([2, 3]).map(u32)),
    st.tuples(st.just(ATTR_PROOF_OF_ROTATION), st.binary(max_size=48)),
    st.tuples(st.just(ATTR_ROTATION_MIN_SDK), st.sampled_from([33, 34, 10000]).map(u32)),
    st.tuples(st.just(ATTR_ROTATION_ON_DEV_RELEASE), st.just(b'')),
    st.tuples(uint32s, st.binary(max_size=24)),
).map(list)

min_sdks = st.one_of(st.sampled_from([24, 28, 33, 34, 0, 1]), uint32s)
max_sdks = st.one_of(st.sampled_from([0x7fffffff, 0xffffffff, 27, 32, 33]), uint32s)


@st.composite
def signers(draw, v3, max_records=3, max_certs=2):
    fx = fixtures()
    names = draw(st.lists(st.sampled_from(CERT_NAMES), min_size=1, max_size=max_certs))
    s = {
        'digests': draw(st.lists(digest_records, min_size=1, max_size=max_records)),
        'certs': [fx[n]['cert'] for n in names],
        'attrs': draw(st.lists(attributes, min_size=0, max_size=3)),
        'sigs': draw(st.lists(signature_records, min_size=1, max_size=max_records)),
        # usually the key of the first certificate, sometimes another one (a mismatch is still a well-formed block)
        'pubkey': fx[draw(st.sampled_from([names[0], names[0], names[0]] + CERT_NAMES))]['spki'],
    }
    if v3:
        lo, hi = draw(min_sdks), draw(max_sdks)
        s['min'], s['max'] = lo, hi
        if draw(st.integers(0, 5)) == 0:                       # signed-data bounds that differ from the signer's
            s['sd_min'], s['sd_max'] = draw(min_sdks), draw(max_sdks)
        else:
            s['sd_min'], s['sd_max'] = lo, hi
    return s


def scheme_pairs(name, max_signers=3):
    pid = SCHEME_BY_NAME[name]
    return st.lists(signers(pid != V2_ID), min_size=1, max_size=max_signers).map(lambda ss: {'id': pid, 'signers': ss})


def other_pairs():
    ids = st.one_of(st.sampled_from(OTHER_KNOWN_IDS), uint32s).filter(lambda i: i not in SCHEME_IDS)
    return st.tuples(ids, st.binary(max_size=64)).map(lambda t: {'id': t[0], 'value': t[1]})


_SUBSETS = [('v2',), ('v3',), ('v31',), ('v2', 'v3'), ('v2', 'v31'), ('v3', 'v31'), ('v2', 'v3', 'v31'), ('v2', 'v3', 'v31'), ()]


@st.composite
def pair_lists(draw, max_signers=3, allow_duplicates=True, allow_unknown=True):
    """-> list of pair models: any subset of {v2, v3, v3.1}, optional later duplicates of those ids (with different
    content; occasionally opaque garbage, which a first-block reader never looks at), unknown pairs, any order."""
    subset = set(draw(st.sampled_from(_SUBSETS)))
    firsts = [draw(scheme_pairs(n, max_signers)) for n in sorted(subset)]
    firsts = list(draw(st.permutations(firsts))) if firsts else []
    others = draw(st.lists(other_pairs(), min_size=0 if firsts else 1, max_size=3)) if allow_unknown else []
    if not firsts and not others:
        others = [{'id': PADDING_ID, 'value': b'\x00' * 8}]
    dups = []
    if allow_duplicates and firsts:
        for n in draw(st.lists(st.sampled_from(sorted(subset)), max_size=2)):
            if draw(st.integers(0, 4)) == 0:
                dups.append({'id': SCHEME_BY_NAME[n], 'value': draw(st.binary(max_size=40))})
            else:
                dups.append(draw(scheme_pairs(n, 2)))
    # interleave: every duplicate must come after the first pair of its id, everything else is free
    seq = list(firsts)
    for o in others:
        seq.insert(draw(st.integers(0, len(seq))), o)
    for d in dups:
        first_at = next(i for i, p in enumerate(seq) if p['id'] == d['id'])
        seq.insert(draw(st.integers(first_at + 1, len(seq))), d)
    return seq


pad_options = st.sampled_from([0, 0, 0, 4096])
