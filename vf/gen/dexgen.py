"""Independent DEX writer (no androguard import): abstract class model -> well-formed DEX bytes.

Written from the DEX format specification ("Dalvik executable format"). The model is the oracle of
the checks that use it: whatever the parser reports must equal the model.

API summary
-----------
    EV(kind, value=None, width=None)          encoded_value. kind in 'byte short char int long float double
                                              string type field method enum array annotation null boolean
                                              method_type method_handle'. value: int / float-bits int /
                                              str / descriptor / (cls,name,type) / (cls,name,(ret,params)) /
                                              [EV...] / Annotation / bool. width: bytes used (None = minimal);
                                              a wider width sign- (signed kinds) or zero-extends the value.
    Annotation(type, elements=[(name, EV)], visibility=1)
    Field(name, type, access, annotations=[])
    Code(regs, ins, outs, insns, tries=[], handlers=[], refs=[])
         insns   : bytes, or callable(ix) -> bytes where ix is the Index object below
         tries   : [(start_addr, insn_count, handler_index)]  (code units)
         handlers: [([(type_descriptor, addr)], catch_all_addr_or_None)]
         refs    : pool items the callable will ask for: ('s',str) ('t',desc) ('f',cls,name,type)
                   ('m',cls,name,ret,params) ('p',ret,params)
    Method(name, ret, params, access, code=None, annotations=[])
    Class(name, access=1, super='Ljava/lang/Object;', interfaces=[], source=None, sfields=[], ifields=[],
          dmethods=[], vmethods=[], static_values=None|[EV...], annotations=[], refs=[])
    DexFile(classes, extra_refs=[], version='035', method_handles=[], call_sites=[])
        method_handles: [(handle_type, ('f',cls,name,type)|('m',cls,name,ret,params))], call_sites: [[EV...]] (DEX 038+:
        written as method_handle_item / call_site_id_item sections after class_defs, call_site_items as encoded arrays)
        .build(map_perm=None, section_order=None, pad=0) -> bytes
        after build(): .ix (Index: .s(str) .t(desc) .p(ret,params) .f(cls,name,type) .m(cls,name,ret,params)),
                       .class_order (indices into classes in class_defs order),
                       .member_order[ci] = {'sfields':[Field..], 'ifields':[..], 'dmethods':[Method..], 'vmethods':[..]}
                           (members in the order they are written = ascending field/method index)
                       .map_entries [(type, count, offset)], .offsets {item_key: file offset}
                       .code_offsets {(ci, 'dmethods'|'vmethods', k): offset of code_item}  (k indexes member_order)
    fix_checksums(buf) -> bytes               recompute SHA-1 signature and Adler-32 of a (mutated) file
    units(s) / from_units(list) / mutf8(units)  UTF-16 code units of a Python str and the MUTF-8 encoder

Section keys usable in section_order: 'type_list','code','string_data','annotation_item','annotation_set',
'annotations_directory','encoded_array','class_data','map'.
"""
import hashlib
import struct
import zlib
from vf.gen.leb import uleb, sleb

NO_INDEX = 0xffffffff

VALUE_TYPES = {'byte': 0x00, 'short': 0x02, 'char': 0x03, 'int': 0x04, 'long': 0x06, 'float': 0x10, 'double': 0x11,
               'method_type': 0x15, 'method_handle': 0x16, 'string': 0x17, 'type': 0x18, 'field': 0x19,
               'method': 0x1a, 'enum': 0x1b, 'array': 0x1c, 'annotation': 0x1d, 'null': 0x1e, 'boolean': 0x1f}
SIGNED = {'byte': 1, 'short': 2, 'int': 4, 'long': 8}
MAXW = {'byte': 1, 'short': 2, 'char': 2, 'int': 4, 'long': 8, 'float': 4, 'double': 8, 'string': 4, 'type': 4,
        'field': 4, 'method': 4, 'enum': 4, 'method_type': 4, 'method_handle': 4}

DEFAULT_ORDER = ['type_list', 'code', 'string_data', 'annotation_item', 'annotation_set', 'annotations_directory',
                 'encoded_array', 'class_data', 'map']
MAP_TYPE = {'type_list': 0x1001, 'code': 0x2001, 'string_data': 0x2002, 'annotation_item': 0x2004,
            'annotation_set': 0x1003, 'annotations_directory': 0x2006, 'encoded_array': 0x2005,
            'class_data': 0x2000, 'map': 0x1000}
ALIGN = {'type_list': 4, 'code': 4, 'string_data': 1, 'annotation_item': 1, 'annotation_set': 4,
         'annotations_directory': 4, 'encoded_array': 1, 'class_data': 1, 'map': 4}


def units(s):
    b = s.encode('utf-16-le', 'surrogatepass')
    return list(struct.unpack('<%dH' % (len(b) // 2), b))


def from_units(us):
    return struct.pack('<%dH' % len(us), *us).decode('utf-16-le', 'surrogatepass')


def mutf8(us):
    o = bytearray()
    for c in us:
        if c == 0:
            o += b'\xc0\x80'
        elif c < 0x80:
            o.append(c)
        elif c < 0x800:
            o += bytes([0xc0 | c >> 6, 0x80 | c & 0x3f])
        else:
            o += bytes([0xe0 | c >> 12, 0x80 | (c >> 6) & 0x3f, 0x80 | c & 0x3f])
    return bytes(o)


def shorty_char(t):
    return 'L' if t[0] in 'L[' else t


class EV:
    __slots__ = ('kind', 'value', 'width')

    def __init__(self, kind, value=None, width=None):
        assert kind in VALUE_TYPES, kind
        self.kind, self.value, self.width = kind, value, width

    def __repr__(self):
        return 'EV(%r, %r, %r)' % (self.kind, self.value, self.width)


class Annotation:
    def __init__(self, type, elements=(), visibility=1):
        self.type, self.elements, self.visibility = type, list(elements), visibility

    def __repr__(self):
        return 'Annotation(%r, %r, %r)' % (self.type, self.elements, self.visibility)


class Field:
    def __init__(self, name, type, access=0, annotations=()):
        self.name, self.type, self.access, self.annotations = name, type, access, list(annotations)

    def __repr__(self):
        return 'Field(%r, %r, 0x%x)' % (self.name, self.type, self.access)


class Code:
    def __init__(self, regs, ins, outs, insns, tries=(), handlers=(), refs=()):
        self.regs, self.ins, self.outs, self.insns = regs, ins, outs, insns
        self.tries, self.handlers, self.refs = list(tries), list(handlers), list(refs)

    def __repr__(self):
        return 'Code(%d,%d,%d,%r,%r,%r)' % (self.regs, self.ins, self.outs,
                                           self.insns.hex() if isinstance(self.insns, (bytes, bytearray)) else '<fn>',
                                           self.tries, self.handlers)


class Method:
    def __init__(self, name, ret, params, access=0, code=None, annotations=()):
        self.name, self.ret, self.params, self.access, self.code = name, ret, tuple(params), access, code
        self.annotations = list(annotations)

    @property
    def proto(self):
        return (self.ret, self.params)

    def __repr__(self):
        return 'Method(%r, %r, %r, 0x%x, %r)' % (self.name, self.ret, self.params, self.access, self.code)


class Class:
    def __init__(self, name, access=1, super='Ljava/lang/Object;', interfaces=(), source=None, sfields=(),
                 ifields=(), dmethods=(), vmethods=(), static_values=None, annotations=(), refs=()):
        self.name, self.access, self.super, self.interfaces, self.source = name, access, super, list(interfaces), source
        self.sfields, self.ifields, self.dmethods, self.vmethods = list(sfields), list(ifields), list(dmethods), list(vmethods)
        self.static_values, self.annotations, self.refs = static_values, list(annotations), list(refs)

    def __repr__(self):
        return 'Class(%r, 0x%x, %r, %r, %r, sf=%r, if=%r, dm=%r, vm=%r, sv=%r, ann=%r)' % (
            self.name, self.access, self.super, self.interfaces, self.source, self.sfields, self.ifields,
            self.dmethods, self.vmethods, self.static_values, self.annotations)


class Index:
    def __init__(self):
        self.sidx, self.tidx, self.pidx, self.fidx, self.midx = {}, {}, {}, {}, {}

    def s(self, x):
        return self.sidx[x]

    def t(self, x):
        return self.tidx[x]

    def p(self, ret, params):
        return self.pidx[(ret, tuple(params))]

    def f(self, cls, name, type):
        return self.fidx[(cls, name, type)]

    def m(self, cls, name, ret, params):
        return self.midx[(cls, name, (ret, tuple(params)))]


def _le(v, n):
    return (v & ((1 << (8 * n)) - 1)).to_bytes(n, 'little')


def min_width(kind, v):
    if kind in SIGNED:
        for n in range(1, 9):
            if -(1 << (8 * n - 1)) <= v < (1 << (8 * n - 1)):
                return n
    n = 1
    while v >> (8 * n):
        n += 1
    return n


class DexFile:
    def __init__(self, classes, extra_refs=(), version='035', method_handles=(), call_sites=()):
        """method_handles: [(handle_type 0..8, ('f', cls, name, type) | ('m', cls, name, ret, params))]  (DEX 038+)
        call_sites: [[EV...]] each a call_site_item (encoded_array): usually EV('method_handle', i), EV('string', name),
        EV('method_type', (ret, params)), extra constant arguments...  (DEX 038+)"""
        self.classes = list(classes)
        self.extra_refs = list(extra_refs)
        self.version = version
        self.method_handles = list(method_handles)
        self.call_sites = [list(cs) for cs in call_sites]

    # ------------------------------------------------------------------ pools
    def _collect(self):
        S, T, P, F, M = set(), set(), set(), set(), set()

        def addproto(ret, params):
            p = (ret, tuple(params))
            P.add(p)
            T.add(ret)
            T.update(p[1])
            S.add(shorty_char(ret) + ''.join(shorty_char(x) for x in p[1]))
            return p

        def addref(r):
            k = r[0]
            if k == 's':
                S.add(r[1])
            elif k == 't':
                T.add(r[1])
            elif k == 'f':
                F.add((r[1], r[2], r[3])); T.add(r[1]); T.add(r[3]); S.add(r[2])
            elif k == 'm':
                M.add((r[1], r[2], addproto(r[3], r[4]))); T.add(r[1]); S.add(r[2])
            elif k == 'p':
                addproto(r[1], r[2])
            else:
                raise ValueError(r)

        def addev(ev):
            k, v = ev.kind, ev.value
            if k == 'string':
                S.add(v)
            elif k == 'type':
                T.add(v)
            elif k in ('field', 'enum'):
                addref(('f',) + tuple(v))
            elif k == 'method':
                addref(('m', v[0], v[1], v[2][0], v[2][1]))
            elif k == 'method_type':
                addproto(v[0], v[1])
            elif k == 'array':
                for e in v:
                    addev(e)
            elif k == 'annotation':
                addann(v)

        def addann(a):
            T.add(a.type)
            for (n, e) in a.elements:
                S.add(n)
                addev(e)

        for c in self.classes:
            T.add(c.name)
            if c.super is not None:
                T.add(c.super)
            T.update(c.interfaces)
            if c.source is not None:
                S.add(c.source)
            for f in c.sfields + c.ifields:
                addref(('f', c.name, f.name, f.type))
                for a in f.annotations:
                    addann(a)
            for m in c.dmethods + c.vmethods:
                addref(('m', c.name, m.name, m.ret, m.params))
                for a in m.annotations:
                    addann(a)
                if m.code is not None:
                    for (pairs, _) in m.code.handlers:
                        for (t, _a) in pairs:
                            T.add(t)
                    for r in m.code.refs:
                        addref(r)
            for e in (c.static_values or []):
                addev(e)
            for a in c.annotations:
                addann(a)
            for r in c.refs:
                addref(r)
        for r in self.extra_refs:
            addref(r)
        for (_k, r) in self.method_handles:
            addref(r)
        for cs in self.call_sites:
            for e in cs:
                addev(e)
        S.update(T)
        ix = Index()
        self.strings = sorted(S, key=units)
        ix.sidx = {s: i for i, s in enumerate(self.strings)}
        self.types = sorted(T, key=lambda t: ix.sidx[t])
        ix.tidx = {t: i for i, t in enumerate(self.types)}
        self.protos = sorted(P, key=lambda p: (ix.tidx[p[0]], [ix.tidx[x] for x in p[1]]))
        ix.pidx = {p: i for i, p in enumerate(self.protos)}
        self.fields = sorted(F, key=lambda f: (ix.tidx[f[0]], ix.sidx[f[1]], ix.tidx[f[2]]))
        ix.fidx = {f: i for i, f in enumerate(self.fields)}
        self.methods = sorted(M, key=lambda m: (ix.tidx[m[0]], ix.sidx[m[1]], ix.pidx[m[2]]))
        ix.midx = {m: i for i, m in enumerate(self.methods)}
        self.ix = ix

    def _class_order(self):
        names = {c.name: i for i, c in enumerate(self.classes)}
        done, order = set(), []

        def visit(i, stack=()):
            if i in done or i in stack:
                return
            c = self.classes[i]
            for dep in [c.super] + list(c.interfaces):
                if dep in names:
                    visit(names[dep], stack + (i,))
            done.add(i)
            order.append(i)
        for i in range(len(self.classes)):
            visit(i)
        return order

    # ------------------------------------------------------------------ encoders
    def enc_value(self, ev):
        ix = self.ix
        k, v = ev.kind, ev.value
        vt = VALUE_TYPES[k]
        if k == 'null':
            return bytes([vt])
        if k == 'boolean':
            return bytes([vt | (1 << 5 if v else 0)])
        if k == 'array':
            return bytes([vt]) + self.enc_array(v)
        if k == 'annotation':
            return bytes([vt]) + self.enc_annotation(v)
        if k == 'string':
            v = ix.s(v)
        elif k == 'type':
            v = ix.t(v)
        elif k in ('field', 'enum'):
            v = ix.f(*v)
        elif k == 'method':
            v = ix.m(v[0], v[1], v[2][0], v[2][1])
        elif k == 'method_type':
            v = ix.p(v[0], v[1])
        if k in ('float', 'double'):
            # value = raw IEEE bits (int); stored right-zero-extended: drop low-order zero bytes
            full = MAXW[k]
            raw = _le(v, full)
            w = ev.width
            if w is None:
                w = full
                while w > 1 and raw[full - w] == 0:
                    w -= 1
            return bytes([vt | (w - 1) << 5]) + raw[full - w:]
        w = ev.width if ev.width is not None else min_width(k, v)
        assert min_width(k, v) <= w <= MAXW[k], (k, v, w)
        return bytes([vt | (w - 1) << 5]) + _le(v, w)

    def enc_array(self, evs):
        return uleb(len(evs)) + b''.join(self.enc_value(e) for e in evs)

    def enc_annotation(self, a):
        els = sorted(a.elements, key=lambda ne: self.ix.s(ne[0]))
        return uleb(self.ix.t(a.type)) + uleb(len(els)) + b''.join(uleb(self.ix.s(n)) + self.enc_value(e) for n, e in els)

    # ------------------------------------------------------------------ build
    def build(self, map_perm=None, section_order=None, pad=0):
        self._collect()
        ix = self.ix
        order = list(section_order or DEFAULT_ORDER)
        assert sorted(order) == sorted(DEFAULT_ORDER)
        self.class_order = self._class_order()
        cls_seq = [self.classes[i] for i in self.class_order]
        ncls = len(cls_seq)
        strings, types, protos, fields, methods = self.strings, self.types, self.protos, self.fields, self.methods

        # members in written order
        self.member_order = {}
        for ci in range(len(self.classes)):
            c = self.classes[ci]
            self.member_order[ci] = {
                'sfields': sorted(c.sfields, key=lambda f: ix.f(c.name, f.name, f.type)),
                'ifields': sorted(c.ifields, key=lambda f: ix.f(c.name, f.name, f.type)),
                'dmethods': sorted(c.dmethods, key=lambda m: ix.m(c.name, m.name, m.ret, m.params)),
                'vmethods': sorted(c.vmethods, key=lambda m: ix.m(c.name, m.name, m.ret, m.params)),
            }

        off = 0x70
        o_sid = off; off += 4 * len(strings)
        o_tid = off; off += 4 * len(types)
        o_pid = off; off += 12 * len(protos)
        o_fid = off; off += 8 * len(fields)
        o_mid = off; off += 8 * len(methods)
        o_cls = off; off += 32 * ncls
        o_csi = off; off += 4 * len(self.call_sites)
        o_mh = off; off += 8 * len(self.method_handles)
        data_off = off

        # type lists
        tls = []
        for p in protos:
            if p[1] and p[1] not in tls:
                tls.append(p[1])
        for c in cls_seq:
            it = tuple(c.interfaces)
            if it and it not in tls:
                tls.append(it)

        # annotation items / sets / directories (keys assigned sequentially)
        ann_items, ann_sets, ann_dirs = [], [], []   # lists of (key, payload-builder)

        def mkset(anns):
            keys = []
            for a in sorted(anns, key=lambda a: ix.t(a.type)):
                key = ('annotation_item', len(ann_items))
                ann_items.append((key, a))
                keys.append(key)
            skey = ('annotation_set', len(ann_sets))
            ann_sets.append((skey, keys))
            return skey
        dir_info = {}
        for ci in self.class_order:
            c = self.classes[ci]
            cset = mkset(c.annotations) if c.annotations else None
            fl = [(ix.f(c.name, f.name, f.type), mkset(f.annotations)) for f in c.sfields + c.ifields if f.annotations]
            ml = [(ix.m(c.name, m.name, m.ret, m.params), mkset(m.annotations)) for m in c.dmethods + c.vmethods if m.annotations]
            if cset or fl or ml:
                dir_info[ci] = (cset, sorted(fl), sorted(ml))
                ann_dirs.append((('annotations_directory', ci), ci))

        offs = {}

        def O(key):
            return offs.get(key, 0)

        def section_items(name):
            """-> list of (key, bytes) for the section, using current offsets `offs`."""
            items = []
            if name == 'type_list':
                for tl in tls:
                    items.append((('type_list', tl), struct.pack('<I', len(tl)) + b''.join(struct.pack('<H', ix.t(t)) for t in tl)))
            elif name == 'code':
                for ci in self.class_order:
                    for ml in ('dmethods', 'vmethods'):
                        for k, m in enumerate(self.member_order[ci][ml]):
                            if m.code is None:
                                continue
                            cd = m.code
                            insns = cd.insns(ix) if callable(cd.insns) else bytes(cd.insns)
                            assert len(insns) % 2 == 0
                            b = struct.pack('<4H2I', cd.regs, cd.ins, cd.outs, len(cd.tries), 0, len(insns) // 2) + insns
                            if cd.tries:
                                if (len(insns) // 2) % 2:
                                    b += b'\0\0'
                                hb = bytearray(uleb(len(cd.handlers)))
                                hoffs = []
                                for (pairs, call) in cd.handlers:
                                    hoffs.append(len(hb))
                                    hb += sleb(-len(pairs) if call is not None else len(pairs))
                                    for (t, addr) in pairs:
                                        hb += uleb(ix.t(t)) + uleb(addr)
                                    if call is not None:
                                        hb += uleb(call)
                                for (st, cnt, hi) in cd.tries:
                                    b += struct.pack('<IHH', st, cnt, hoffs[hi])
                                b += bytes(hb)
                            items.append((('code', ci, ml, k), b))
            elif name == 'string_data':
                for i, s in enumerate(strings):
                    u = units(s)
                    items.append((('string_data', i), uleb(len(u)) + mutf8(u) + b'\0'))
            elif name == 'annotation_item':
                for key, a in ann_items:
                    items.append((key, bytes([a.visibility]) + self.enc_annotation(a)))
            elif name == 'annotation_set':
                for key, keys in ann_sets:
                    items.append((key, struct.pack('<I', len(keys)) + b''.join(struct.pack('<I', O(k)) for k in keys)))
            elif name == 'annotations_directory':
                for key, ci in ann_dirs:
                    cset, fl, ml = dir_info[ci]
                    b = struct.pack('<4I', O(cset) if cset else 0, len(fl), len(ml), 0)
                    for (i, sk) in fl:
                        b += struct.pack('<II', i, O(sk))
                    for (i, sk) in ml:
                        b += struct.pack('<II', i, O(sk))
                    items.append((key, b))
            elif name == 'encoded_array':
                for ci in self.class_order:
                    c = self.classes[ci]
                    if c.static_values is not None:
                        items.append((('encoded_array', ci), self.enc_array(c.static_values)))
                for i, cs in enumerate(self.call_sites):
                    items.append((('encoded_array', 'cs', i), self.enc_array(cs)))
            elif name == 'class_data':
                for ci in self.class_order:
                    c = self.classes[ci]
                    mo = self.member_order[ci]
                    if not (c.sfields or c.ifields or c.dmethods or c.vmethods):
                        continue
                    b = uleb(len(mo['sfields'])) + uleb(len(mo['ifields'])) + uleb(len(mo['dmethods'])) + uleb(len(mo['vmethods']))
                    for fl in ('sfields', 'ifields'):
                        prev = 0
                        for f in mo[fl]:
                            i = ix.f(c.name, f.name, f.type)
                            b += uleb(i - prev) + uleb(f.access)
                            prev = i
                    for ml in ('dmethods', 'vmethods'):
                        prev = 0
                        for k, m in enumerate(mo[ml]):
                            i = ix.m(c.name, m.name, m.ret, m.params)
                            b += uleb(i - prev) + uleb(m.access) + uleb(O(('code', ci, ml, k)) if m.code is not None else 0)
                            prev = i
                    items.append((('class_data', ci), b))
            elif name == 'map':
                items.append((('map',), b'\0' * (4 + 12 * self._nmap)))
            return items

        # fixed point over offsets (class_data holds uleb128 code offsets, so sizes depend on layout)
        self._nmap = 0
        for _ in range(8):
            new = {}
            pos = data_off + pad
            sec_first = {}
            sec_count = {}
            blobs = []
            present = 9 - [len(strings), len(types), len(protos), len(fields), len(methods), ncls,
                           len(self.call_sites), len(self.method_handles)].count(0)
            for name in order:
                items = section_items(name)
                if not items:
                    continue
                for key, b in items:
                    a = ALIGN[name]
                    padn = (-pos) % a
                    blobs.append(b'\0' * padn)
                    pos += padn
                    new[key] = pos
                    sec_first.setdefault(name, pos)
                    sec_count[name] = sec_count.get(name, 0) + 1
                    blobs.append(b)
                    pos += len(b)
            nmap = present + len(sec_first)
            stable = (new == offs and nmap == self._nmap)
            offs = new
            self._nmap = nmap
            if stable:
                break
        else:
            raise AssertionError('layout did not converge')
        # final materialisation with stable offsets
        blobs = []
        pos = data_off + pad
        blobs.append(b'\0' * pad)
        for name in order:
            for key, b in section_items(name):
                padn = (-pos) % ALIGN[name]
                blobs.append(b'\0' * padn)
                pos += padn
                assert offs[key] == pos
                blobs.append(b)
                pos += len(b)
        padn = (-pos) % 4
        blobs.append(b'\0' * padn)
        pos += padn
        data = bytearray(b''.join(blobs))
        total = pos

        entries = [(0, 1, 0)]
        for (t, n, o) in ((1, len(strings), o_sid), (2, len(types), o_tid), (3, len(protos), o_pid),
                          (4, len(fields), o_fid), (5, len(methods), o_mid), (6, ncls, o_cls),
                          (7, len(self.call_sites), o_csi), (8, len(self.method_handles), o_mh)):
            if n:
                entries.append((t, n, o))
        for name in order:
            if name in sec_first:
                entries.append((MAP_TYPE[name], sec_count[name], sec_first[name]))
        entries.sort(key=lambda e: e[2])
        assert len(entries) == self._nmap
        if map_perm is not None:
            assert sorted(map_perm) == list(range(len(entries)))
            entries = [entries[i] for i in map_perm]
        self.map_entries = entries
        mapb = struct.pack('<I', len(entries)) + b''.join(struct.pack('<HHII', t, 0, n, o) for (t, n, o) in entries)
        mo_ = offs[('map',)] - data_off
        data[mo_:mo_ + len(mapb)] = mapb

        ids = bytearray()
        for i in range(len(strings)):
            ids += struct.pack('<I', offs[('string_data', i)])
        for t in types:
            ids += struct.pack('<I', ix.s(t))
        for p in protos:
            sh = shorty_char(p[0]) + ''.join(shorty_char(x) for x in p[1])
            ids += struct.pack('<3I', ix.s(sh), ix.t(p[0]), offs[('type_list', p[1])] if p[1] else 0)
        for f in fields:
            ids += struct.pack('<2HI', ix.t(f[0]), ix.t(f[2]), ix.s(f[1]))
        for m in methods:
            ids += struct.pack('<2HI', ix.t(m[0]), ix.p(*m[2]), ix.s(m[1]))
        for ci in self.class_order:
            c = self.classes[ci]
            it = tuple(c.interfaces)
            ids += struct.pack('<8I', ix.t(c.name), c.access, ix.t(c.super) if c.super is not None else NO_INDEX,
                               offs[('type_list', it)] if it else 0,
                               ix.s(c.source) if c.source is not None else NO_INDEX,
                               offs.get(('annotations_directory', ci), 0), offs.get(('class_data', ci), 0),
                               offs.get(('encoded_array', ci), 0))
        for i in range(len(self.call_sites)):
            ids += struct.pack('<I', offs[('encoded_array', 'cs', i)])
        for (k, r) in self.method_handles:
            idx = ix.f(r[1], r[2], r[3]) if r[0] == 'f' else ix.m(r[1], r[2], r[3], r[4])
            ids += struct.pack('<4H', k, 0, idx, 0)
        magic = b'dex\n' + self.version.encode() + b'\0'
        hdr = struct.pack('<8sI20sIIIIII', magic, 0, b'\0' * 20, total, 0x70, 0x12345678, 0, 0, offs[('map',)])
        hdr += struct.pack('<12I', len(strings), o_sid if strings else 0, len(types), o_tid if types else 0,
                           len(protos), o_pid if protos else 0, len(fields), o_fid if fields else 0,
                           len(methods), o_mid if methods else 0, ncls, o_cls if ncls else 0)
        hdr += struct.pack('<II', len(data), data_off)
        assert len(hdr) == 0x70 and len(ids) == data_off - 0x70
        self.offsets = offs
        self.code_offsets = {k[1:]: v for k, v in offs.items() if k[0] == 'code'}
        return fix_checksums(hdr + bytes(ids) + bytes(data))


def fix_checksums(buf):
    buf = bytearray(buf)
    buf[12:32] = hashlib.sha1(bytes(buf[32:])).digest()
    buf[8:12] = struct.pack('<I', zlib.adler32(bytes(buf[12:])) & 0xffffffff)
    return bytes(buf)
