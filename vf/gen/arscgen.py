"""vf.gen.arscgen - independent resources.arsc (ResTable) writer, strict reader and Hypothesis strategies.

NO androguard import. Structures typed from AOSP frameworks/base/libs/androidfw/include/androidfw/
ResourceTypes.h (ResChunk_header, ResStringPool_header, ResTable_header, ResTable_package,
ResTable_typeSpec, ResTable_type, ResTable_config, ResTable_entry, ResTable_map_entry, ResTable_map,
Res_value) and ResourceTypes.cpp (packLanguageOrRegion / unpackLanguageOrRegion).

API SUMMARY
===========
The resource model is plain JSON-able data (dict / list / int / str / bool) so that it can be stored in
replay files unchanged:

  table   = {'utf8': bool,                 global value string pool encoding (UTF-8 pools: BMP text only)
             'pool_extra': [str, ...],     strings placed first in the global pool (unused / duplicates allowed)
             'pool_dedupe': bool,          default True; False = every string value gets its own pool slot
             'pool_styles': [[ [name_str, first, last], ...], ...]   optional style spans for pool strings 0..k-1
             'packages': [package, ...]}
  package = {'id': 1..255, 'name': str (<=127 UTF-16 units), 'header_size': 288|284,
             'type_utf8': bool, 'key_utf8': bool, 'keys_extra': [str, ...],
             'types': [rtype, ...]}        type id = position + 1 (ResTable_typeSpec::id)
  rtype   = {'name': str, 'entry_count': n, 'absent': bool (name only, no typeSpec / type chunks),
             'spec_flags': [u32]*n | None, 'spec_types_count': bool,
             'chunks': [chunk, ...]}       one ResTable_type per chunk, written in this order
  chunk   = {'config': config, 'offsets': '32' | '16' | 'sparse', 'entries': [[index, entry], ...]}
             indices not listed are NO_ENTRY holes ('32'/'16') or simply missing ('sparse')
  entry   = {'kind': 'plain',   'key': str, 'flags': FLAG_PUBLIC|FLAG_WEAK bits, 'value': [dtype, data]}
          | {'kind': 'compact', 'key': str, 'flags': ...,                      'value': [dtype, data]}
          | {'kind': 'complex', 'key': str, 'flags': ..., 'parent': resid, 'items': [[name_resid, [dtype, data]], ...]}
             data is a 32-bit unsigned int, or a str when dtype == TYPE_STRING (interned into the global pool)
  config  = {'size': 28..64 (multiple of 4), 'mcc','mnc','language','country','orientation','touchscreen','density',
             'keyboard','navigation','inputFlags','screenWidth','screenHeight','sdkVersion','minorVersion',
             'screenLayout','uiMode','smallestScreenWidthDp','screenWidthDp','screenHeightDp','script','variant',
             'screenLayout2','colorMode','scriptWasComputed','numberingSystem'}   missing keys = 0 / ''

  build(table, layout=None) -> bytes       serialise; `layout` (a list) receives (offset, size, kind) of every chunk
  read_table(data) -> table                strict reader (ArscFormatError on anything unexpected), inverse of build
  string_pool(strings, utf8, styles=())    one ResStringPool chunk (shared with other writers)
  res_value(dtype, data) -> 8 bytes        Res_value
  config_bytes(config) -> bytes            ResTable_config of config['size'] bytes
  config_words(config) -> 9-tuple of u32   (imsi, locale, screenType, input, screenSize, version, screenConfig,
                                            screenSizeDp, screenConfig2) - the union views of ResourceTypes.h
  config_key(config)  -> bytes             identity of a configuration (all 60 bytes after `size`)
  pack_locale_part(code, base) / unpack_locale_part(two_bytes, base)     AOSP two-byte language / region packing
  locale_qualifier(config) -> 'en', 'en-rUS', 'fil-rPH', '' (any)        aapt-style qualifier of the locale
  resid(package_id, type_id, entry_index) -> 0xPPTTEEEE
  iter_entries(table) -> (resid, package, rtype, chunk, index, entry)    in file order
  make_config(**fields) -> config          smallest legal historical size that holds the given fields unless size=...

  Hypothesis (imported lazily):
  configs(sizes=CONFIG_SIZES, scripts=False)  strategy for config dicts; literal_values(utf8, types)(d) draws a literal
  tables(cycles=False, max_packages=3, max_types=6, max_entries=8, max_configs=5, config_sizes=CONFIG_SIZES,
         dangling=False, value_types=None, scripts=False, big_strings=False)
                                           strategy for well-formed tables; references form a DAG unless cycles=True,
                                           then 1-2 reference cycles of length 1..5 are added and listed in
                                           table['meta']['cycles'] ('meta' is ignored by build()). dangling=True adds
                                           null / unresolvable references; scripts=True adds configurations that carry
                                           a locale script / variant, including siblings that differ in nothing else
                                           (otherwise configurations are pairwise distinct in config_words()).
                                           Integer-like literals are biased to BOUNDARY_WORDS (0, 1, 0x7fffffff,
                                           0x80000000, 0xffffffff, ...) in every entry kind; some ids hold one boundary
                                           word in all their configurations. String values, and now and then a key or
                                           type name, sit on the length-prefix boundaries of ResStringPool strings
                                           (boundary_text(): 127/128/129 UTF-16 units or UTF-8 bytes, non-ASCII
                                           alphabets, so that UTF-8 pools hold strings with a one-byte UTF-16 length and a
                                           two-byte UTF-8 length); big_strings=True adds values of 0x7fff / 0x8000 units.
  boundary_text(d, utf8, ident=False, big=False)   one such string (d = the draw helper of the strategies)
  simple_table()                           a fixed small table (smoke tests, fuzz seeds)

Well-formedness rules respected by the strategies: unique package ids/names, type ids contiguous from 1, one key per
entry index shared by all its configurations and unique inside its type, bag types (array/plurals/style/attr) hold
complex entries and item types hold plain/compact entries, sparse entries sorted by index, every structure 4-byte
aligned, package chunk = header, type pool, key pool, typeSpec/type chunks contiguously, string pools with
stringsStart = 28 + 4*(strings+styles).
"""
import struct

RES_STRING_POOL_TYPE = 0x0001
RES_TABLE_TYPE = 0x0002
RES_TABLE_PACKAGE_TYPE = 0x0200
RES_TABLE_TYPE_TYPE = 0x0201
RES_TABLE_TYPE_SPEC_TYPE = 0x0202
RES_TABLE_LIBRARY_TYPE = 0x0203
RES_TABLE_OVERLAYABLE_TYPE = 0x0204
RES_TABLE_OVERLAYABLE_POLICY_TYPE = 0x0205
RES_TABLE_STAGED_ALIAS_TYPE = 0x0206

# Res_value::dataType
TYPE_NULL = 0x00
TYPE_REFERENCE = 0x01
TYPE_ATTRIBUTE = 0x02
TYPE_STRING = 0x03
TYPE_FLOAT = 0x04
TYPE_DIMENSION = 0x05
TYPE_FRACTION = 0x06
TYPE_DYNAMIC_REFERENCE = 0x07
TYPE_DYNAMIC_ATTRIBUTE = 0x08
TYPE_INT_DEC = 0x10
TYPE_INT_HEX = 0x11
TYPE_INT_BOOLEAN = 0x12
TYPE_INT_COLOR_ARGB8 = 0x1c
TYPE_INT_COLOR_RGB8 = 0x1d
TYPE_INT_COLOR_ARGB4 = 0x1e
TYPE_INT_COLOR_RGB4 = 0x1f

# ResTable_entry::flags
FLAG_COMPLEX = 0x0001
FLAG_PUBLIC = 0x0002
FLAG_WEAK = 0x0004
FLAG_COMPACT = 0x0008
# ResTable_type::flags
TYPE_FLAG_SPARSE = 0x01
TYPE_FLAG_OFFSET16 = 0x02
NO_ENTRY = 0xFFFFFFFF
NO_ENTRY16 = 0xFFFF
UTF8_FLAG = 1 << 8
SORTED_FLAG = 1 << 0
SPEC_PUBLIC = 0x40000000

# sizes of ResTable_config that released platform/aapt versions have written, plus the in-between multiples
# of four (the `size` field makes every prefix length legal: ResTable_config::copyFromDtoH copies min(size, sizeof))
CONFIG_SIZES_HISTORICAL = (28, 32, 36, 48, 52, 56, 64)
CONFIG_SIZES = (28, 32, 36, 40, 48, 52, 56, 60, 64)

BAG_TYPES = ('array', 'plurals', 'style', 'attr')
ITEM_TYPES = ('string', 'id', 'bool', 'integer', 'color', 'dimen', 'drawable', 'layout', 'xml', 'raw', 'mipmap',
              'anim', 'fraction', 'menu', 'font')


class ArscFormatError(Exception):
    pass


def resid(package_id, type_id, entry_index):
    return ((package_id & 0xff) << 24) | ((type_id & 0xff) << 16) | (entry_index & 0xffff)


# ------------------------------------------------------------------------------------------------
# string pools

def _utf16_units(s):
    return len(s.encode('utf-16-le', 'surrogatepass')) // 2


def _len16(n):
    if n < 0x8000:
        return struct.pack('<H', n)
    return struct.pack('<HH', 0x8000 | (n >> 16), n & 0xffff)


def _len8(n):
    if n < 0x80:
        return bytes([n])
    if n > 0x7fff:
        raise ValueError('UTF-8 pool string too long')
    return bytes([0x80 | (n >> 8), n & 0xff])


def string_pool(strings, utf8=False, styles=(), sorted_flag=False):
    """ResStringPool chunk. styles: span lists for the first len(styles) strings, each span
    (name_string_index, firstChar, lastChar)."""
    strings = list(strings)
    styles = list(styles)
    if len(styles) > len(strings):
        raise ValueError('more styles than strings')
    offs = []
    data = bytearray()
    for s in strings:
        offs.append(len(data))
        if utf8:
            if any(ord(c) > 0xffff for c in s):
                raise ValueError('UTF-8 pools carry BMP text only in this writer')
            b = s.encode('utf-8')
            data += _len8(_utf16_units(s)) + _len8(len(b)) + b + b'\0'
        else:
            b = s.encode('utf-16-le')
            data += _len16(len(b) // 2) + b + b'\0\0'
    while len(data) % 4:
        data.append(0)
    sdata = bytearray()
    soffs = []
    for spans in styles:
        soffs.append(len(sdata))
        for (name, first, last) in spans:
            sdata += struct.pack('<III', name, first, last)
        sdata += struct.pack('<I', 0xFFFFFFFF)
    if styles:
        sdata += struct.pack('<II', 0xFFFFFFFF, 0xFFFFFFFF)
    strings_start = 28 + 4 * (len(strings) + len(styles))
    styles_start = strings_start + len(data) if styles else 0
    size = strings_start + len(data) + len(sdata)
    flags = (UTF8_FLAG if utf8 else 0) | (SORTED_FLAG if sorted_flag else 0)
    out = struct.pack('<HHIIIIII', RES_STRING_POOL_TYPE, 28, size, len(strings), len(styles), flags,
                      strings_start, styles_start)
    out += b''.join(struct.pack('<I', o) for o in offs)
    out += b''.join(struct.pack('<I', o) for o in soffs)
    return out + bytes(data) + bytes(sdata)


class _Pool:
    def __init__(self, initial=(), dedupe=True):
        self.strings = list(initial)
        self.index = {}
        self.dedupe = dedupe
        for i, s in enumerate(self.strings):
            self.index.setdefault(s, i)

    def add(self, s):
        if self.dedupe and s in self.index:
            return self.index[s]
        self.strings.append(s)
        self.index.setdefault(s, len(self.strings) - 1)
        return len(self.strings) - 1


# ------------------------------------------------------------------------------------------------
# ResTable_config

_CFG_INT_FIELDS = ('mcc', 'mnc', 'orientation', 'touchscreen', 'density', 'keyboard', 'navigation', 'inputFlags',
                   'screenWidth', 'screenHeight', 'sdkVersion', 'minorVersion', 'screenLayout', 'uiMode',
                   'smallestScreenWidthDp', 'screenWidthDp', 'screenHeightDp', 'screenLayout2', 'colorMode',
                   'scriptWasComputed')
_CFG_STR_FIELDS = ('language', 'country', 'script', 'variant', 'numberingSystem')
# minimal size that holds each field
_CFG_MIN_SIZE = dict(mcc=28, mnc=28, language=28, country=28, orientation=28, touchscreen=28, density=28,
                     keyboard=28, navigation=28, inputFlags=28, screenWidth=28, screenHeight=28, sdkVersion=28,
                     minorVersion=28, screenLayout=32, uiMode=32, smallestScreenWidthDp=32, screenWidthDp=36,
                     screenHeightDp=36, script=40, variant=48, screenLayout2=52, colorMode=52,
                     scriptWasComputed=56, numberingSystem=64)


def pack_locale_part(code, base):
    """ResTable_config::packLanguageOrRegion: two ASCII characters verbatim, three characters packed into
    15 bits with the top bit set (base 'a' for languages, '0' for regions)."""
    if not code:
        return b'\0\0'
    if len(code) == 2:
        return bytes([ord(code[0]), ord(code[1])])
    if len(code) != 3:
        raise ValueError('language/region code must have 2 or 3 characters: %r' % (code,))
    first = (ord(code[0]) - ord(base)) & 0x7f
    second = (ord(code[1]) - ord(base)) & 0x7f
    third = (ord(code[2]) - ord(base)) & 0x7f
    return bytes([0x80 | (third << 2) | (second >> 3), ((second << 5) | first) & 0xff])


def unpack_locale_part(two, base):
    """ResTable_config::unpackLanguageOrRegion"""
    if two[0] & 0x80:
        first = two[1] & 0x1f
        second = ((two[1] & 0xe0) >> 5) + ((two[0] & 0x03) << 3)
        third = (two[0] & 0x7c) >> 2
        return chr(first + ord(base)) + chr(second + ord(base)) + chr(third + ord(base))
    out = ''
    if two[0]:
        out += chr(two[0])
        if two[1]:
            out += chr(two[1])
    return out


def _config_full(c):
    g = lambda k: int(c.get(k, 0) or 0)
    s = lambda k: c.get(k, '') or ''
    b = struct.pack('<HH', g('mcc'), g('mnc'))
    b += pack_locale_part(s('language'), 'a') + pack_locale_part(s('country'), '0')
    b += struct.pack('<BBH', g('orientation'), g('touchscreen'), g('density'))
    b += struct.pack('<BBBB', g('keyboard'), g('navigation'), g('inputFlags'), 0)
    b += struct.pack('<HH', g('screenWidth'), g('screenHeight'))
    b += struct.pack('<HH', g('sdkVersion'), g('minorVersion'))
    b += struct.pack('<BBH', g('screenLayout'), g('uiMode'), g('smallestScreenWidthDp'))
    b += struct.pack('<HH', g('screenWidthDp'), g('screenHeightDp'))
    b += s('script').encode('ascii').ljust(4, b'\0')[:4]
    b += s('variant').encode('ascii').ljust(8, b'\0')[:8]
    b += struct.pack('<BBH', g('screenLayout2'), g('colorMode'), 0)
    b += bytes([g('scriptWasComputed')]) + s('numberingSystem').encode('ascii').ljust(8, b'\0')[:8] + b'\0\0\0'
    assert len(b) == 60
    return b


def config_bytes(c):
    size = int(c.get('size', 64))
    if size % 4 or not 28 <= size <= 64:
        raise ValueError('unsupported ResTable_config size %r' % (size,))
    full = struct.pack('<I', size) + _config_full(c)
    if any(full[size:]):
        raise ValueError('configuration field set beyond its declared size %d: %r' % (size, c))
    return full[:size]


def config_key(c):
    return _config_full(c)


def config_words(c):
    f = _config_full(c)
    w = struct.unpack('<8I', f[:32])
    (w8,) = struct.unpack('<I', f[44:48])
    return tuple(w) + (w8,)


def locale_qualifier(c):
    lang = c.get('language', '') or ''
    reg = c.get('country', '') or ''
    if not lang and not reg:
        return ''
    return lang + ('-r' + reg if reg else '')


def make_config(size=None, **fields):
    need = 28
    for k, v in fields.items():
        if k not in _CFG_MIN_SIZE:
            raise ValueError('unknown config field %r' % (k,))
        if v:
            need = max(need, _CFG_MIN_SIZE[k])
    if size is None:
        size = min(s for s in CONFIG_SIZES_HISTORICAL if s >= need)
    c = {'size': size}
    c.update({k: v for k, v in fields.items() if v})
    config_bytes(c)
    return c


def _config_from_bytes(b):
    """b: `size` bytes starting at the size field"""
    (size,) = struct.unpack('<I', b[:4])
    full = (b[4:size] + b'\0' * 60)[:60]
    c = {'size': size}
    mcc, mnc = struct.unpack('<HH', full[0:4])
    vals = dict(mcc=mcc, mnc=mnc, language=unpack_locale_part(full[4:6], 'a'),
                country=unpack_locale_part(full[6:8], '0'))
    (vals['orientation'], vals['touchscreen'], vals['density']) = struct.unpack('<BBH', full[8:12])
    (vals['keyboard'], vals['navigation'], vals['inputFlags'], pad0) = struct.unpack('<BBBB', full[12:16])
    (vals['screenWidth'], vals['screenHeight']) = struct.unpack('<HH', full[16:20])
    (vals['sdkVersion'], vals['minorVersion']) = struct.unpack('<HH', full[20:24])
    (vals['screenLayout'], vals['uiMode'], vals['smallestScreenWidthDp']) = struct.unpack('<BBH', full[24:28])
    (vals['screenWidthDp'], vals['screenHeightDp']) = struct.unpack('<HH', full[28:32])
    vals['script'] = full[32:36].rstrip(b'\0').decode('latin-1')
    vals['variant'] = full[36:44].rstrip(b'\0').decode('latin-1')
    (vals['screenLayout2'], vals['colorMode'], pad2) = struct.unpack('<BBH', full[44:48])
    vals['scriptWasComputed'] = full[48]
    vals['numberingSystem'] = full[49:57].rstrip(b'\0').decode('latin-1')
    c.update({k: v for k, v in vals.items() if v})
    return c


# ------------------------------------------------------------------------------------------------
# writer

def res_value(dtype, data):
    return struct.pack('<HBBI', 8, 0, dtype & 0xff, data & 0xffffffff)


def _value_data(value, pool):
    dtype, data = value
    if isinstance(data, str):
        if dtype != TYPE_STRING:
            raise ValueError('string data with non-string type')
        return dtype, pool.add(data)
    return dtype, int(data) & 0xffffffff


def _entry_bytes(e, keys, pool):
    kidx = keys.add(e['key'])
    flags = int(e.get('flags', 0)) & (FLAG_PUBLIC | FLAG_WEAK)
    kind = e['kind']
    if kind == 'plain':
        dtype, data = _value_data(e['value'], pool)
        return struct.pack('<HHI', 8, flags, kidx) + res_value(dtype, data)
    if kind == 'compact':
        dtype, data = _value_data(e['value'], pool)
        if kidx > 0xffff:
            raise ValueError('compact entry needs a 16-bit key index')
        return struct.pack('<HHI', kidx, flags | FLAG_COMPACT | (dtype << 8), data)
    if kind == 'complex':
        out = struct.pack('<HHI', 16, flags | FLAG_COMPLEX, kidx)
        out += struct.pack('<II', int(e.get('parent', 0)) & 0xffffffff, len(e['items']))
        for name, value in e['items']:
            dtype, data = _value_data(value, pool)
            out += struct.pack('<I', int(name) & 0xffffffff) + res_value(dtype, data)
        return out
    raise ValueError('unknown entry kind %r' % (kind,))


def _type_chunk(type_id, n, chunk, keys, pool):
    cfg = config_bytes(chunk['config'])
    entries = sorted(((int(i), e) for i, e in chunk['entries']), key=lambda t: t[0])
    idxs = [i for i, _ in entries]
    if len(set(idxs)) != len(idxs):
        raise ValueError('duplicate entry index in one type chunk')
    if idxs and (idxs[-1] >= n or idxs[0] < 0):
        raise ValueError('entry index outside entry_count')
    body = bytearray()
    offs = {}
    for i, e in entries:
        offs[i] = len(body)
        body += _entry_bytes(e, keys, pool)
    mode = chunk.get('offsets', '32')
    if mode == 'sparse':
        if body and max(offs.values()) // 4 > 0xffff:
            raise ValueError('sparse offsets overflow')
        table = b''.join(struct.pack('<HH', i, offs[i] // 4) for i in idxs)
        count, flags = len(idxs), TYPE_FLAG_SPARSE
    elif mode == '16':
        if body and max(offs.values()) // 4 >= 0xffff:
            raise ValueError('16-bit offsets overflow')
        table = b''.join(struct.pack('<H', offs[i] // 4 if i in offs else NO_ENTRY16) for i in range(n))
        if len(table) % 4:
            table += b'\0\0'
        count, flags = n, TYPE_FLAG_OFFSET16
    elif mode == '32':
        table = b''.join(struct.pack('<I', offs.get(i, NO_ENTRY)) for i in range(n))
        count, flags = n, 0
    else:
        raise ValueError('unknown offsets mode %r' % (mode,))
    hs = 8 + 12 + len(cfg)
    return (struct.pack('<HHI', RES_TABLE_TYPE_TYPE, hs, hs + len(table) + len(body))
            + struct.pack('<BBHII', type_id, flags, 0, count, hs + len(table)) + cfg + table + bytes(body))


def _package_chunk(p, pool, layout, base):
    types = p['types']
    if not 0 < int(p['id']) <= 0xff:
        raise ValueError('package id out of range')
    keys = _Pool(p.get('keys_extra', ()))
    chunks = []
    for ti, t in enumerate(types, 1):
        if t.get('absent'):
            continue
        n = int(t['entry_count'])
        flags = t.get('spec_flags') or [0] * n
        if len(flags) != n:
            raise ValueError('spec_flags length')
        ntypes = len(t['chunks']) if t.get('spec_types_count') else 0
        chunks.append(('typeSpec', struct.pack('<HHI', RES_TABLE_TYPE_SPEC_TYPE, 16, 16 + 4 * n)
                       + struct.pack('<BBHI', ti, 0, ntypes, n) + b''.join(struct.pack('<I', f) for f in flags)))
        for ch in t['chunks']:
            chunks.append(('type', _type_chunk(ti, n, ch, keys, pool)))
    tp = string_pool([t['name'] for t in types], bool(p.get('type_utf8', False)))
    kp = string_pool(keys.strings, bool(p.get('key_utf8', True)))
    hs = int(p.get('header_size', 288))
    if hs not in (284, 288):
        raise ValueError('package header size')
    name = p['name'].encode('utf-16-le')
    if len(name) > 254:
        raise ValueError('package name too long')
    hdr = struct.pack('<I', int(p['id'])) + name.ljust(256, b'\0')
    hdr += struct.pack('<IIII', hs, len(types), hs + len(tp), len(keys.strings))
    if hs == 288:
        hdr += struct.pack('<I', 0)
    body = b''.join(c for _, c in chunks)
    out = struct.pack('<HHI', RES_TABLE_PACKAGE_TYPE, hs, hs + len(tp) + len(kp) + len(body)) + hdr + tp + kp + body
    if layout is not None:
        layout.append((base, len(out), 'package'))
        o = base + hs
        layout.append((o, len(tp), 'typePool'))
        o += len(tp)
        layout.append((o, len(kp), 'keyPool'))
        o += len(kp)
        for kind, c in chunks:
            layout.append((o, len(c), kind))
            o += len(c)
    return out


def build(table, layout=None):
    """table model -> resources.arsc bytes"""
    pool = _Pool(table.get('pool_extra', ()), dedupe=table.get('pool_dedupe', True))
    styles = table.get('pool_styles') or []
    style_names = [[pool.add(n) for (n, _, _) in spans] for spans in styles]
    # package bodies first (they intern strings into the global pool); offsets are patched afterwards
    pkgs = []
    sub = []
    for p in table['packages']:
        l = [] if layout is not None else None
        pkgs.append(_package_chunk(p, pool, l, 0))
        sub.append(l)
    st = [[(style_names[k][j], int(sp[1]), int(sp[2])) for j, sp in enumerate(spans)] for k, spans in enumerate(styles)]
    gp = string_pool(pool.strings, bool(table.get('utf8', False)), st)
    body = gp + b''.join(pkgs)
    out = struct.pack('<HHII', RES_TABLE_TYPE, 12, 12 + len(body), len(pkgs)) + body
    if layout is not None:
        layout.append((0, len(out), 'table'))
        layout.append((12, len(gp), 'globalPool'))
        o = 12 + len(gp)
        for l, pk in zip(sub, pkgs):
            layout.extend((off + o, size, kind) for off, size, kind in l)
            o += len(pk)
    return out


def iter_entries(table):
    for p in table['packages']:
        for ti, t in enumerate(p['types'], 1):
            if t.get('absent'):
                continue
            for ch in t['chunks']:
                for i, e in ch['entries']:
                    yield resid(p['id'], ti, int(i)), p, t, ch, int(i), e


# ------------------------------------------------------------------------------------------------
# strict reader (independent of the writer's code paths: works on bytes only)

def _need(cond, msg):
    if not cond:
        raise ArscFormatError(msg)


def _chunk_header(data, off, end):
    _need(off + 8 <= end, 'chunk header past the end at %d' % off)
    t, hs, size = struct.unpack_from('<HHI', data, off)
    _need(hs >= 8 and size >= hs and off + size <= end, 'bad chunk header at %d: type %#x hs %d size %d' % (off, t, hs, size))
    return t, hs, size


def _decode_utf8_pool(b):
    s = b.decode('utf-8', 'surrogatepass')
    # CESU-8 style surrogate pairs (old aapt) -> real characters
    return s.encode('utf-16-le', 'surrogatepass').decode('utf-16-le', 'surrogatepass')


def read_string_pool(data, off, end):
    """-> (strings, styles, utf8, chunk_size)"""
    t, hs, size = _chunk_header(data, off, end)
    _need(t == RES_STRING_POOL_TYPE and hs == 28, 'not a string pool at %d' % off)
    nstr, nsty, flags, sstart, ystart = struct.unpack_from('<IIIII', data, off + 8)
    utf8 = bool(flags & UTF8_FLAG)
    _need(nstr == 0 or sstart == 28 + 4 * (nstr + nsty), 'stringsStart %d for %d strings, %d styles' % (sstart, nstr, nsty))
    soffs = struct.unpack_from('<%dI' % nstr, data, off + 28)
    yoffs = struct.unpack_from('<%dI' % nsty, data, off + 28 + 4 * nstr)
    send = off + (ystart if nsty else size)
    strings = []
    for o in soffs:
        p = off + sstart + o
        if utf8:
            n = data[p]; p += 1
            if n & 0x80:
                n = ((n & 0x7f) << 8) | data[p]; p += 1
            m = data[p]; p += 1
            if m & 0x80:
                m = ((m & 0x7f) << 8) | data[p]; p += 1
            _need(p + m < send and data[p + m] == 0, 'UTF-8 string not terminated at %d' % p)
            s = _decode_utf8_pool(data[p:p + m])
            _need(_utf16_units(s) == n, 'UTF-8 string: utf16 length %d declared %d' % (_utf16_units(s), n))
        else:
            (n,) = struct.unpack_from('<H', data, p); p += 2
            if n & 0x8000:
                (lo,) = struct.unpack_from('<H', data, p); p += 2
                n = ((n & 0x7fff) << 16) | lo
            _need(p + 2 * n + 2 <= send and data[p + 2 * n:p + 2 * n + 2] == b'\0\0', 'UTF-16 string not terminated at %d' % p)
            s = data[p:p + 2 * n].decode('utf-16-le', 'surrogatepass')
        strings.append(s)
    styles = []
    for o in yoffs:
        p = off + ystart + o
        spans = []
        while True:
            (name,) = struct.unpack_from('<I', data, p)
            if name == 0xFFFFFFFF:
                break
            first, last = struct.unpack_from('<II', data, p + 4)
            spans.append([name, first, last])
            p += 12
        styles.append(spans)
    return strings, styles, utf8, size


def read_table(data):
    """resources.arsc bytes -> table model (strict). Style span names are returned as strings."""
    data = bytes(data)
    t, hs, size = _chunk_header(data, 0, len(data))
    _need(t == RES_TABLE_TYPE and hs == 12 and size == len(data), 'ResTable_header: type %#x hs %d size %d/%d' % (t, hs, size, len(data)))
    (npk,) = struct.unpack_from('<I', data, 8)
    off = 12
    gstrings, gstyles, gutf8, psize = read_string_pool(data, off, size)
    off += psize
    table = {'utf8': gutf8, 'pool_extra': list(gstrings), 'pool_dedupe': True, 'packages': []}
    if gstyles:
        table['pool_styles'] = [[[gstrings[n], f, l] for (n, f, l) in spans] for spans in gstyles]

    def value(dtype, d):
        if dtype == TYPE_STRING:
            _need(d < len(gstrings), 'string value index %d outside the pool' % d)
            return [dtype, gstrings[d]]
        return [dtype, d]

    while off < size:
        t, hs, csize = _chunk_header(data, off, size)
        _need(t == RES_TABLE_PACKAGE_TYPE, 'unexpected top-level chunk %#x at %d' % (t, off))
        _need(hs in (284, 288), 'package header size %d' % hs)
        pend = off + csize
        (pid,) = struct.unpack_from('<I', data, off + 8)
        raw = data[off + 12:off + 268]
        units = struct.unpack('<128H', raw)
        nul = units.index(0) if 0 in units else 128
        name = raw[:2 * nul].decode('utf-16-le', 'surrogatepass')
        tstr, lpt, kstr, lpk = struct.unpack_from('<IIII', data, off + 268)
        _need(tstr == hs, 'typeStrings %d != header size %d' % (tstr, hs))
        tnames, _, tutf8, tsize = read_string_pool(data, off + tstr, pend)
        _need(kstr == tstr + tsize, 'key pool does not follow the type pool')
        knames, _, kutf8, ksize = read_string_pool(data, off + kstr, pend)
        pkg = {'id': pid, 'name': name, 'header_size': hs, 'type_utf8': tutf8, 'key_utf8': kutf8,
               'keys_extra': list(knames),
               'types': [{'name': n, 'entry_count': 0, 'absent': True, 'chunks': []} for n in tnames]}
        o = off + kstr + ksize
        while o < pend:
            t, chs, cs = _chunk_header(data, o, pend)
            if t == RES_TABLE_TYPE_SPEC_TYPE:
                tid, res0, tcount, n = struct.unpack_from('<BBHI', data, o + 8)
                _need(chs == 16 and cs == 16 + 4 * n and 1 <= tid <= len(tnames), 'typeSpec at %d' % o)
                rt = pkg['types'][tid - 1]
                rt['absent'] = False
                rt['entry_count'] = n
                rt['spec_flags'] = list(struct.unpack_from('<%dI' % n, data, o + 16))
                rt['spec_types_count'] = bool(tcount)
            elif t == RES_TABLE_TYPE_TYPE:
                tid, flags, res, count, estart = struct.unpack_from('<BBHII', data, o + 8)
                (cfgsize,) = struct.unpack_from('<I', data, o + 20)
                _need(chs == 20 + cfgsize and 1 <= tid <= len(tnames), 'type header at %d' % o)
                rt = pkg['types'][tid - 1]
                _need(not rt['absent'], 'type chunk before its typeSpec')
                cfg = _config_from_bytes(data[o + 20:o + 20 + cfgsize])
                p = o + chs
                pairs = []
                if flags & TYPE_FLAG_SPARSE:
                    mode = 'sparse'
                    for k in range(count):
                        i, of = struct.unpack_from('<HH', data, p + 4 * k)
                        pairs.append((i, of * 4))
                    tl = 4 * count
                elif flags & TYPE_FLAG_OFFSET16:
                    mode = '16'
                    _need(count == rt['entry_count'], 'entryCount differs from typeSpec')
                    for k in range(count):
                        (of,) = struct.unpack_from('<H', data, p + 2 * k)
                        if of != NO_ENTRY16:
                            pairs.append((k, of * 4))
                    tl = (2 * count + 3) & ~3
                else:
                    mode = '32'
                    _need(count == rt['entry_count'], 'entryCount differs from typeSpec')
                    for k in range(count):
                        (of,) = struct.unpack_from('<I', data, p + 4 * k)
                        if of != NO_ENTRY:
                            pairs.append((k, of))
                    tl = 4 * count
                _need(estart == chs + tl, 'entriesStart %d, expected %d' % (estart, chs + tl))
                entries = []
                for i, of in pairs:
                    q = o + estart + of
                    _need(q + 8 <= o + cs, 'entry outside its chunk')
                    esize, eflags, key = struct.unpack_from('<HHI', data, q)
                    pub = eflags & (FLAG_PUBLIC | FLAG_WEAK)
                    if eflags & FLAG_COMPACT:
                        _need(esize < len(knames), 'compact key index')
                        e = {'kind': 'compact', 'key': knames[esize], 'flags': pub, 'value': value((eflags >> 8) & 0xff, key)}
                    elif eflags & FLAG_COMPLEX:
                        _need(esize == 16 and key < len(knames), 'map entry header')
                        parent, cnt = struct.unpack_from('<II', data, q + 8)
                        _need(q + 16 + 12 * cnt <= o + cs, 'map entry outside its chunk')
                        items = []
                        for k in range(cnt):
                            nm, vs, r0, dt, dd = struct.unpack_from('<IHBBI', data, q + 16 + 12 * k)
                            _need(vs == 8, 'Res_value size')
                            items.append([nm, value(dt, dd)])
                        e = {'kind': 'complex', 'key': knames[key], 'flags': pub, 'parent': parent, 'items': items}
                    else:
                        _need(esize == 8 and key < len(knames), 'entry header')
                        vs, r0, dt, dd = struct.unpack_from('<HBBI', data, q + 8)
                        _need(vs == 8, 'Res_value size')
                        e = {'kind': 'plain', 'key': knames[key], 'flags': pub, 'value': value(dt, dd)}
                    entries.append([i, e])
                rt['chunks'].append({'config': cfg, 'offsets': mode, 'entries': entries})
            else:
                _need(t in (RES_TABLE_LIBRARY_TYPE, RES_TABLE_OVERLAYABLE_TYPE, RES_TABLE_OVERLAYABLE_POLICY_TYPE,
                            RES_TABLE_STAGED_ALIAS_TYPE), 'unknown chunk %#x in package' % t)
                pkg.setdefault('skipped_chunks', []).append(t)
            o += cs
        _need(o == pend, 'package chunk not consumed exactly')
        table['packages'].append(pkg)
        off = pend
    _need(off == size and len(table['packages']) == npk, 'package count / size mismatch')
    return table


def simple_table():
    """A fixed small table: two packages, plain / complex / compact entries, three locales, a density config,
    32-bit / 16-bit / sparse offset tables, a reference chain."""
    d = make_config()
    fr = make_config(language='fr')
    ptbr = make_config(language='pt', country='BR')
    hdpi = make_config(density=240, sdkVersion=4)
    app = 0x7f
    return {
        'utf8': True, 'pool_extra': ['unused'], 'packages': [
            {'id': app, 'name': 'com.example.app', 'types': [
                {'name': 'string', 'entry_count': 3, 'chunks': [
                    {'config': d, 'offsets': '32', 'entries': [
                        [0, {'kind': 'plain', 'key': 'app_name', 'flags': FLAG_PUBLIC, 'value': [TYPE_STRING, 'Example']}],
                        [2, {'kind': 'plain', 'key': 'alias', 'value': [TYPE_REFERENCE, resid(app, 1, 0)]}]]},
                    {'config': fr, 'offsets': '16', 'entries': [
                        [0, {'kind': 'plain', 'key': 'app_name', 'flags': FLAG_PUBLIC, 'value': [TYPE_STRING, 'Exemple']}]]},
                    {'config': ptbr, 'offsets': 'sparse', 'entries': [
                        [0, {'kind': 'compact', 'key': 'app_name', 'flags': FLAG_PUBLIC, 'value': [TYPE_STRING, 'Exemplo']}]]}]},
                {'name': 'integer', 'entry_count': 2, 'chunks': [
                    {'config': d, 'offsets': '32', 'entries': [
                        [0, {'kind': 'compact', 'key': 'answer', 'value': [TYPE_INT_DEC, 42]}],
                        [1, {'kind': 'plain', 'key': 'mask', 'value': [TYPE_INT_HEX, 0xff00]}]]}]},
                {'name': 'array', 'entry_count': 1, 'chunks': [
                    {'config': d, 'offsets': '32', 'entries': [
                        [0, {'kind': 'complex', 'key': 'names', 'parent': 0, 'items': [
                            [0x02000000, [TYPE_STRING, 'one']], [0x02000001, [TYPE_REFERENCE, resid(app, 1, 0)]]]}]]}]},
                {'name': 'drawable', 'entry_count': 1, 'chunks': [
                    {'config': d, 'offsets': '32', 'entries': [
                        [0, {'kind': 'plain', 'key': 'icon', 'value': [TYPE_STRING, 'res/drawable/icon.png']}]]},
                    {'config': hdpi, 'offsets': '32', 'entries': [
                        [0, {'kind': 'plain', 'key': 'icon', 'value': [TYPE_STRING, 'res/drawable-hdpi/icon.png']}]]}]}]},
            {'id': 0x02, 'name': 'com.example.lib', 'header_size': 284, 'types': [
                {'name': 'color', 'entry_count': 1, 'chunks': [
                    {'config': d, 'offsets': '32', 'entries': [
                        [0, {'kind': 'plain', 'key': 'accent', 'value': [TYPE_INT_COLOR_ARGB8, 0xff336699]}]]}]}]}]}


# ------------------------------------------------------------------------------------------------
# Hypothesis strategies (hypothesis is imported lazily so that the writer alone has no dependency).
# All sub-strategies are built once per tables()/configs() call; inside the composites only cached
# integer strategies are drawn (building strategies per draw dominated the run time otherwise).

_LOCALES = [('', ''), ('en', ''), ('en', 'US'), ('fr', ''), ('de', 'DE'), ('zh', 'CN'), ('pt', 'BR'), ('es', '419'),
            ('fil', ''), ('fil', 'PH'), ('haw', ''), ('sr', ''), ('ja', 'JP'), ('en', 'GB')]
_DENSITIES = [0, 120, 160, 213, 240, 320, 480, 640, 0xfffe, 0xffff]
_SDKS = [0, 4, 11, 21, 26, 33]
LITERAL_TYPES = (TYPE_STRING, TYPE_INT_DEC, TYPE_INT_HEX, TYPE_INT_BOOLEAN, TYPE_INT_COLOR_ARGB8, TYPE_INT_COLOR_RGB8,
                 TYPE_INT_COLOR_ARGB4, TYPE_INT_COLOR_RGB4, TYPE_DIMENSION, TYPE_FLOAT, TYPE_ATTRIBUTE)
_LOWER = 'abcdefghijklmnopqrstuvwxyz'
_UPPER = 'ABCDEFGHIJKLMNOPQRSTUVWXYZ'
_IDENT_FIRST = _LOWER + _UPPER + '_'
_IDENT_REST = _IDENT_FIRST + '0123456789.'
_KNOWN_TYPES = list(ITEM_TYPES[:6]) + list(BAG_TYPES) + list(ITEM_TYPES[6:])
_INT_CACHE = {}


def _I(lo, hi):
    from hypothesis import strategies as st
    k = (lo, hi)
    if k not in _INT_CACHE:
        _INT_CACHE[k] = st.integers(lo, hi)
    return _INT_CACHE[k]


class _D:
    """thin helper around draw(): integer-coded choices"""

    def __init__(self, draw):
        self.draw = draw

    def int(self, lo, hi):
        return self.draw(_I(lo, hi))

    def pick(self, seq):
        return seq[self.draw(_I(0, len(seq) - 1))]

    def chance(self, n):
        """true with probability 1/n"""
        return self.draw(_I(0, n - 1)) == 0

    def bool(self):
        return self.draw(_I(0, 1)) == 1

    def ident(self, max_size=8):
        n = self.int(0, max_size - 1)
        return self.pick(_IDENT_FIRST) + ''.join(self.pick(_IDENT_REST) for _ in range(n))

    def idents(self, count, max_size=8):
        """`count` distinct identifiers"""
        out = []
        seen = set()
        while len(out) < count:
            s = self.ident(max_size)
            if s in seen:
                s = s + str(len(out))
            if s in seen:
                continue
            seen.add(s)
            out.append(s)
        return out


_SCRIPTS = ['Latn', 'Cyrl', 'Hans', 'Hant', 'Arab']
_VARIANTS = ['POSIX', 'valencia', '1996']
_SIBLING_AXES = [('mcc', [310, 208]), ('mnc', [4, 260]), ('country', ['US', 'GB', 'AT']), ('language', ['en', 'de', 'fil']),
                 ('orientation', [1, 2]), ('touchscreen', [1, 3]), ('density', [160, 240, 480]), ('keyboard', [1, 2]),
                 ('navigation', [1, 3]), ('inputFlags', [1, 2]), ('screenWidth', [480]), ('screenHeight', [800]),
                 ('sdkVersion', [4, 21, 26]), ('sdkVersion', [11, 33]), ('minorVersion', [1]), ('screenLayout', [1, 0x40]),
                 ('uiMode', [0x10, 0x20]), ('smallestScreenWidthDp', [320, 600]), ('screenWidthDp', [480]),
                 ('screenHeightDp', [640]), ('screenLayout2', [1, 2]), ('colorMode', [1, 4])]
_SIBLING_SCRIPT_AXES = [('script', _SCRIPTS), ('script', _SCRIPTS), ('variant', _VARIANTS)]


def _draw_config(d, sizes, scripts=False):
    f = {}
    axes = d.int(0, 0x3ff)
    if axes & 1:
        if not d.chance(4):
            f['language'], f['country'] = d.pick(_LOCALES)
        else:
            f['language'] = d.pick(_LOWER) + d.pick(_LOWER) + (d.pick(_LOWER) if d.chance(4) else '')
            if d.bool():
                f['country'] = d.pick(_UPPER) + d.pick(_UPPER)
        if scripts and f.get('language') and max(sizes) >= 48 and d.chance(3):
            if d.chance(4):
                f['variant'] = d.pick(_VARIANTS)
            else:
                f['script'] = d.pick(_SCRIPTS)
    if axes & 2:
        f['density'] = d.pick(_DENSITIES)
    if axes & 4:
        f['sdkVersion'] = d.pick(_SDKS)
    if axes & 0x18 == 0x18:
        f['orientation'] = d.int(1, 3)
    if axes & 0x60 == 0x60:
        f['uiMode'] = d.pick([0x10, 0x20, 0x03, 0x23])
        f['screenLayout'] = d.pick([0, 0x01, 0x04, 0x40, 0x80])
    if axes & 0x180 == 0x180:
        f['smallestScreenWidthDp'] = d.pick([320, 600, 720])
        if d.bool():
            f['screenWidthDp'] = d.pick([480, 800])
    if axes & 0x207 == 0x200:
        which = d.int(0, 3)
        if which == 0:
            f['mcc'], f['mnc'] = 310, d.pick([0, 4, 260])
        elif which == 1:
            f['keyboard'], f['navigation'] = d.int(0, 3), d.int(0, 4)
        elif which == 2:
            f['screenLayout2'] = d.pick([1, 2])
        else:
            f['colorMode'] = d.pick([1, 2, 4, 8])
    need = max([28] + [_CFG_MIN_SIZE[k] for k, v in f.items() if v])
    size = d.pick([s for s in sizes if s >= need] or [64])
    return make_config(size=size, **f)


def configs(sizes=CONFIG_SIZES, scripts=False):
    from hypothesis import strategies as st
    sizes = tuple(sizes)

    @st.composite
    def _cfg(draw):
        return _draw_config(_D(draw), sizes, scripts)
    return _cfg()


def _text(st, utf8):
    base = [st.characters(min_codepoint=0x20, max_codepoint=0x7e),
            st.characters(min_codepoint=0xa0, max_codepoint=0x24f),
            st.sampled_from('\n\t<&>"\'éü中文Жאกあ￥')]
    if not utf8:
        base.append(st.characters(min_codepoint=0x1f600, max_codepoint=0x1f64f))
    ch = st.one_of(*base)
    short = st.text(ch, max_size=10)
    long_ = st.text(ch, min_size=128, max_size=260)
    return short, long_


# data words on the boundaries of the interpretations a parser may give to 32 bits (sign, 16/8-bit halves, the
# NO_ENTRY / "no string" marker 0xffffffff). Legal for every integer-like Res_value (decimal, hex, boolean, colours).
BOUNDARY_WORDS = (0, 1, 0x7fffffff, 0x80000000, 0xffffffff, 0xfffffffe, 0xffff, 0x10000, 0xff, 0x100, 0x7fff, 0x8000,
                  0xffff0000, 0x00ffffff)
_SPECIAL_WORDS = BOUNDARY_WORDS + (0xffffffff, 0xffffffff, 77, 0xff336699)
INT_LIKE_TYPES = (TYPE_INT_DEC, TYPE_INT_HEX, TYPE_INT_BOOLEAN, TYPE_INT_COLOR_ARGB8, TYPE_INT_COLOR_RGB8,
                  TYPE_INT_COLOR_ARGB4, TYPE_INT_COLOR_RGB4)

# letters only (legal in resource names too), grouped by the width of their UTF-8 form; all BMP
_ALPHABETS = [
    '\u03b1\u03b2\u03b3\u03b4\u03b5\u03b6\u03b7\u03b8\u03b9\u03ba\u03bb\u03bc\u03bd\u03be\u03bf\u03c0\u03c1\u03c3\u03c4\u03c5\u03c6\u03c7\u03c8\u03c9\u0391\u0392\u0393\u0394\u03a9',      # Greek, 2 bytes
    '\u0430\u0431\u0432\u0433\u0434\u0435\u0436\u0437\u0438\u0439\u043a\u043b\u043c\u043d\u043e\u043f\u0440\u0441\u0442\u0443\u0444\u044b\u044d\u044e\u044f\u0416\u042f',             # Cyrillic, 2 bytes
    '\u00e9\u00fc\u00f1\u00e7\u00e0\u00f6\u00e5\u00df\u00f8\u017e\u00c9\u00dc',                                                  # accented Latin, 2 bytes
    '\u3042\u3044\u3046\u3048\u304a\u304b\u304d\u304f\u3051\u3053\u30ab\u30ad\u30af\u30b1\u30b3\u30c7\u30e2',                                   # kana, 3 bytes
    '\u4e2d\u6587\u5b57\u6f22\u8a9e\u65e5\u672c\u570b',                                                            # CJK, 3 bytes
]
_ASTRAL = '\U0001f600\U0001f601\U0001f642\U00010400'                 # 2 UTF-16 units each (UTF-16 pools only)


def boundary_text(d, utf8, ident=False, big=False):
    """A string whose length sits on a width boundary of the ResStringPool length prefixes: 127 / 128 / 129 (big: 0x7ffe
    .. 0x8001) UTF-16 units or - in UTF-8 pools - UTF-8 bytes, made of a short random word of one alphabet repeated (few
    draws). In a UTF-8 pool most results have fewer than 128 UTF-16 units but 128 or more bytes. ident=True: letters,
    digits and '_' only (resource names). UTF-8 pool strings stay within 0x7fff bytes."""
    pick = d.int(0, len(_ALPHABETS) + (0 if utf8 else 1))
    if pick < len(_ALPHABETS):
        alpha = _ALPHABETS[pick]
    elif pick == len(_ALPHABETS):
        alpha = _LOWER
    else:
        alpha = _ASTRAL
    word = ''.join(d.pick(alpha) for _ in range(d.int(1, 4)))
    if d.chance(3):
        word += '_' if ident else d.pick(' ,x1')
    if ident and alpha is _ASTRAL:
        word = 'e' + word
    by_bytes = utf8 and (big or not d.chance(3))
    if big:
        target = d.pick([0x7ffe, 0x7fff] if utf8 else [0x7ffe, 0x7fff, 0x8000, 0x8001])
    else:
        target = d.pick([127, 128, 129])
    size = (lambda c: len(c.encode('utf-8'))) if by_bytes else _utf16_units
    wsize = size(word)
    out = word * (target // wsize)
    room = target - wsize * (target // wsize)
    for c in word:
        if size(c) <= room:
            out += c
            room -= size(c)
    out += 'x' * room
    assert size(out) == target
    return out


def literal_values(utf8, types=None, big_strings=False):
    """function draw -> [dtype, data]: literals whose printed form is unambiguous (see vf/model/arsc_values.py).
    The returned function has an attribute .boundary: draw -> an integer-like literal holding one of BOUNDARY_WORDS
    (None when `types` has no integer-like type)."""
    from hypothesis import strategies as st
    types = tuple(types or LITERAL_TYPES)
    short, long_ = _text(st, utf8)
    int_like = [t for t in types if t in INT_LIKE_TYPES]

    def one(d):
        t = d.pick(types)
        if t == TYPE_STRING:
            k = d.int(0, 23)
            if k < 4:
                return [t, boundary_text(d, utf8, big=big_strings and d.chance(12))]
            return [t, d.draw(long_ if k < 6 else short)]
        if t == TYPE_INT_BOOLEAN:
            return [t, d.pick([0, 1, 0xffffffff, 0xffffffff])]
        if t == TYPE_FLOAT:
            return [t, struct.unpack('<I', struct.pack('<f', d.int(-(1 << 16), 1 << 16) / 64.0))[0]]
        if t == TYPE_DIMENSION:
            # non-negative 23-bit mantissa, radix 0 (23p0), units px..mm -> an integral number of units
            mant = d.int(0, 400) if d.bool() else d.int(0, 0x7fffff)
            return [t, (mant << 8) | d.int(0, 5)]
        if t == TYPE_ATTRIBUTE:
            return [t, d.pick([0x01010001, 0x0101013f, 0x7f010000, 0x7f040123, 0x02030004])]
        return [t, d.pick(_SPECIAL_WORDS) if d.chance(3) else d.int(0, 0xffffffff)]

    def boundary(d):
        if not int_like:
            return None
        return [d.pick(int_like), 0xffffffff if d.chance(3) else d.pick(BOUNDARY_WORDS)]
    one.boundary = boundary
    return one


def tables(cycles=False, max_packages=3, max_types=6, max_entries=8, max_configs=5, config_sizes=CONFIG_SIZES,
           dangling=False, value_types=None, scripts=False, big_strings=False):
    from hypothesis import strategies as st
    config_sizes = tuple(config_sizes)
    lits = {True: literal_values(True, value_types, big_strings), False: literal_values(False, value_types, big_strings)}
    texts = {True: _text(st, True)[0], False: _text(st, False)[0]}
    npk_choices = [k for k in [1, 1, 1, 1, 2, 2, 2, 3, 3] if k <= max_packages]

    @st.composite
    def _tables(draw):
        d = _D(draw)
        utf8 = d.bool()
        lit = lambda: lits[utf8](d)
        cfgs = []
        seen = set()
        ident = config_key if scripts else config_words
        for _ in range(d.int(1, max_configs)):
            if cfgs and d.chance(3):
                # a sibling of an earlier configuration that differs from it in exactly one field (every 32-bit word
                # of the configuration is reachable; with scripts=True also the locale script / variant)
                c = dict(d.pick(cfgs))
                field, values = d.pick(_SIBLING_AXES + (_SIBLING_SCRIPT_AXES if scripts and c.get('language') else []))
                v = d.pick(values)
                if field == 'country' and not c.get('language'):
                    field, v = 'language', 'en'         # a region needs a language
                if c.get(field) == v:
                    c.pop(field)
                else:
                    c[field] = v
                need = max([28] + [_CFG_MIN_SIZE[k] for k, x in c.items() if k != 'size' and x])
                if c['size'] < need:
                    c['size'] = d.pick([x for x in config_sizes if x >= need] or [64])
            else:
                c = _draw_config(d, config_sizes, scripts)
            if ident(c) not in seen:
                seen.add(ident(c))
                cfgs.append(c)
        if not d.chance(4) and all(any(config_words(c)) for c in cfgs):
            cfgs[0] = make_config(size=d.pick(config_sizes))        # the default configuration
        npk = d.pick(npk_choices)
        pids = []
        while len(pids) < npk:
            x = d.pick([0x7f, 0x01, 0x02, 0x7e, 0x80, 0xff]) if d.bool() else d.int(1, 0xff)
            if x not in pids:
                pids.append(x)
        pnames = []
        while len(pnames) < npk:
            x = '.'.join(d.ident(6) for _ in range(d.int(1, 3)))
            if x not in pnames:
                pnames.append(x)
        packages = []
        slots = []          # (resid, entry dict) in file order, for reference wiring
        ids = []
        for pi in range(npk):
            type_utf8, key_utf8 = d.bool(), d.bool()
            ntypes = d.int(1, max_types)
            tnames = []
            while len(tnames) < ntypes:
                x = d.ident(8) if d.chance(3) else d.pick(_KNOWN_TYPES)
                if x not in tnames and x != 'public':
                    tnames.append(x)
            if d.chance(10):
                # a type name on a length-prefix boundary of the type pool
                tnames[d.int(0, ntypes - 1)] = boundary_text(d, type_utf8, ident=True)
            types = []
            for ti, tname in enumerate(tnames, 1):
                if ntypes > 1 and d.chance(12):
                    types.append({'name': tname, 'entry_count': 0, 'absent': True, 'chunks': []})
                    continue
                limit = 300 if d.chance(8) else max_entries
                idxs = sorted({d.int(0, limit - 1) for _ in range(d.int(1, max_entries))})
                n = idxs[-1] + 1 + d.pick([0, 0, 0, 1, 3])
                keyof = dict(zip(idxs, d.idents(len(idxs), 8)))
                if d.chance(8):
                    # a key name on a length-prefix boundary of the key pool
                    x = boundary_text(d, key_utf8, ident=True)
                    if x not in keyof.values():
                        keyof[d.pick(idxs)] = x
                if tname in BAG_TYPES:
                    bag = True
                elif tname in ITEM_TYPES:
                    bag = False
                else:
                    bag = d.bool()
                kindof = {i: 'complex' if bag else d.pick(['plain', 'plain', 'compact']) for i in idxs}
                pubof = {i: d.pick([0, 0, FLAG_PUBLIC, FLAG_PUBLIC, FLAG_WEAK]) for i in idxs}
                # ids that hold the same boundary data word in every configuration (mostly compact entries)
                sticky = {}
                if not bag:
                    for i in idxs:
                        if d.chance(6):
                            v = lits[utf8].boundary(d)
                            if v is not None:
                                sticky[i] = v
                                if not d.chance(3):
                                    kindof[i] = 'compact'
                prio = [(d.int(0, 255), k) for k in range(len(cfgs))]
                ccfgs = [cfgs[k] for _, k in sorted(prio)[:d.int(1, len(cfgs))]]
                chunks = []
                covered = set()
                for ci, cfg in enumerate(ccfgs):
                    if ci == 0 and not d.chance(3):
                        present = list(idxs)
                    else:
                        mask = d.int(0, (1 << len(idxs)) - 1)
                        present = [i for k, i in enumerate(idxs) if mask >> k & 1]
                    covered.update(present)
                    entries = []
                    for i in present:
                        e = {'kind': kindof[i], 'key': keyof[i], 'flags': pubof[i]}
                        if e['kind'] == 'complex':
                            e['parent'] = d.pick([0, 0, 0x01030005, 0x7f0b0000])
                            base = d.pick([0x02000000, 0x01000004, 0x01010000])
                            e['items'] = [[base + k, lit()] for k in range(d.int(0, 4))]
                        else:
                            if i in sticky:
                                e['value'] = list(sticky[i])
                            else:
                                if e['kind'] == 'plain' and d.chance(6):
                                    e['kind'] = 'compact'       # kinds may differ between configurations
                                e['value'] = lit()
                        entries.append([i, e])
                        slots.append((resid(pids[pi], ti, i), e))
                    chunks.append({'config': cfg, 'offsets': d.pick(['32', '32', '16', 'sparse']), 'entries': entries})
                for i in idxs:
                    if i in covered:
                        ids.append(resid(pids[pi], ti, i))
                types.append({'name': tname, 'entry_count': n, 'spec_types_count': d.bool(), 'chunks': chunks})
            if all(t.get('absent') or not any(c['entries'] for c in t['chunks']) for t in types):
                # guarantee one entry per package
                for ti, t in enumerate(types, 1):
                    if not t.get('absent'):
                        break
                else:
                    t = types[0]
                    ti = 1
                    t.update({'absent': False, 'entry_count': 1, 'spec_types_count': False, 'chunks': []})
                if not t['chunks']:
                    t['chunks'].append({'config': cfgs[0], 'offsets': '32', 'entries': []})
                if t['name'] in BAG_TYPES:
                    e = {'kind': 'complex', 'key': 'k0', 'flags': 0, 'parent': 0, 'items': [[0x02000000, lit()]]}
                else:
                    e = {'kind': 'plain', 'key': 'k0', 'flags': 0, 'value': lit()}
                t['chunks'][0]['entries'] = [[0, e]]
                slots.append((resid(pids[pi], ti, 0), e))
                ids.append(resid(pids[pi], ti, 0))
            keys_extra = [d.ident(6) for _ in range(d.pick([0, 0, 1, 2]))]
            if d.chance(8):
                keys_extra += ['pad%d' % k for k in range(d.pick([130, 260, 300]))]     # key indices beyond one byte
            packages.append({'id': pids[pi], 'name': pnames[pi], 'header_size': d.pick([288, 288, 284]),
                             'type_utf8': type_utf8, 'key_utf8': key_utf8, 'keys_extra': keys_extra, 'types': types})
        # ---- references: a DAG over a random ranking of the ids (chains, diamonds, cross-package)
        ids = sorted(set(ids))
        rank = {r: (d.int(0, 0xffff), r) for r in ids}
        for rid_, e in slots:
            lower = [r for r in ids if rank[r] < rank[rid_]]
            if not lower:
                continue
            if e['kind'] == 'complex':
                for it in e['items']:
                    if d.chance(4):
                        it[1] = [TYPE_REFERENCE, d.pick(lower)]
            elif d.chance(4):
                e['value'] = [TYPE_REFERENCE, d.pick(lower)]
        meta = {'cycles': [], 'dangling': 0}
        if dangling:
            for rid_, e in slots:
                if d.chance(10):
                    target = d.pick([0, 0x0106000b, 0x01040000, 0x7f7f0001])
                    if target in ids:
                        continue
                    if e['kind'] == 'complex':
                        e['items'].append([0x01010099, [TYPE_REFERENCE, target]])
                    else:
                        e['value'] = [TYPE_REFERENCE, target]
                    meta['dangling'] += 1
        if cycles:
            byid = {}
            for rid_, e in slots:
                byid.setdefault(rid_, []).append(e)
            for _ in range(d.pick([1, 1, 1, 2])):
                length = d.int(1, min(5, len(ids)))
                cyc = []
                while len(cyc) < length:
                    x = d.pick(ids)
                    if x not in cyc:
                        cyc.append(x)
                for k, a in enumerate(cyc):
                    b = cyc[(k + 1) % length]
                    es = byid[a]
                    chosen = es if d.bool() else [d.pick(es)]
                    for e in chosen:
                        if e['kind'] == 'complex':
                            pos = d.int(0, len(e['items']))
                            if pos < len(e['items']) and d.bool():
                                e['items'][pos][1] = [TYPE_REFERENCE, b]
                            else:
                                e['items'].insert(pos, [0x01010098, [TYPE_REFERENCE, b]])
                        else:
                            e['value'] = [TYPE_REFERENCE, b]
                meta['cycles'].append(cyc)
        pool_extra = [draw(texts[utf8]) for _ in range(d.pick([0, 0, 1, 2]))]
        if d.chance(8):
            pool_extra += ['s%d' % k for k in range(d.pick([130, 260, 300]))]           # string indices beyond one byte
        table = {'utf8': utf8, 'pool_extra': pool_extra, 'pool_dedupe': d.bool(), 'packages': packages, 'meta': meta}
        if table['pool_extra'] and d.chance(4):
            table['pool_styles'] = [[['b', 0, 1]]]
        return table
    return _tables()
