"""Minimal v1-(JAR-)signed APK container for C32 (never imports androguard; self-contained on purpose).

  AndroidManifest.xml   tiny binary XML: <manifest package=.. android:versionCode=1><uses-sdk android:minSdkVersion=N/></manifest>
  META-INF/MANIFEST.MF  JAR manifest with the digest of every other entry
  META-INF/<X>.SF       signature file: digest of the manifest + digest of every manifest section
  META-INF/<X>.RSA|EC|DSA   PKCS#7 SignedData over the .SF bytes (built by vf.gen.cms)
packed with the standard library zipfile.
"""
import base64
import hashlib
import io
import struct
import zipfile

NS_ANDROID = 'http://schemas.android.com/apk/res/android'
RES_MIN_SDK = 0x0101020c
RES_VERSION_CODE = 0x0101021b
TYPE_INT_DEC = 0x10
TYPE_STRING = 0x03
NONE = 0xffffffff


def _pool(strings):
    offs, data = [], bytearray()
    for s in strings:
        offs.append(len(data))
        b = s.encode('utf-16-le')
        data += struct.pack('<H', len(b) // 2) + b + b'\0\0'
    while len(data) % 4:
        data.append(0)
    strings_off = 28 + 4 * len(strings)
    return (struct.pack('<HHIIIIII', 0x0001, 28, strings_off + len(data), len(strings), 0, 0, strings_off, 0)
            + b''.join(struct.pack('<I', o) for o in offs) + bytes(data))


def manifest_axml(min_sdk=None, package='com.vf.c32'):
    """Binary XML (ResXMLTree) of a manifest with an optional <uses-sdk android:minSdkVersion>."""
    S = ['minSdkVersion', 'versionCode', 'android', NS_ANDROID, 'manifest', 'package', 'uses-sdk', package]
    ix = {s: i for i, s in enumerate(S)}

    def chunk(t, body, line):
        return struct.pack('<HHIII', t, 16, 16 + len(body), line, NONE) + body

    def attr(ns, name, raw, ty, data):
        return struct.pack('<IIIHBBI', ns, name, raw, 8, 0, ty, data)

    def start(name, attrs, line):
        return chunk(0x0102, struct.pack('<IIHHHHHH', NONE, ix[name], 20, 20, len(attrs), 0, 0, 0) + b''.join(attrs), line)

    def end(name, line):
        return chunk(0x0103, struct.pack('<II', NONE, ix[name]), line)

    body = chunk(0x0100, struct.pack('<II', ix['android'], ix[NS_ANDROID]), 1)
    body += start('manifest', [attr(ix[NS_ANDROID], ix['versionCode'], NONE, TYPE_INT_DEC, 1),
                               attr(NONE, ix['package'], ix[package], TYPE_STRING, ix[package])], 1)
    if min_sdk is not None:
        body += start('uses-sdk', [attr(ix[NS_ANDROID], ix['minSdkVersion'], NONE, TYPE_INT_DEC, min_sdk)], 2)
        body += end('uses-sdk', 2)
    body += end('manifest', 3)
    body += chunk(0x0101, struct.pack('<II', ix['android'], ix[NS_ANDROID]), 3)
    resmap = struct.pack('<HHI', 0x0180, 8, 8 + 8) + struct.pack('<II', RES_MIN_SDK, RES_VERSION_CODE)
    inner = _pool(S) + resmap + body
    return struct.pack('<HHI', 0x0003, 8, 8 + len(inner)) + inner


def _digest_attr(digest):
    return {'sha1': 'SHA1-Digest', 'sha256': 'SHA-256-Digest'}[digest]


def _b64(digest, data):
    return base64.b64encode(hashlib.new(digest, data).digest()).decode('ascii')


def jar_manifest(entries, digest, created_by='1.0 (Android)'):
    """entries: list of (name, bytes). Returns (manifest bytes, [(name, section bytes)])."""
    main = 'Manifest-Version: 1.0\r\nCreated-By: %s\r\n\r\n' % created_by
    sections = []
    for name, data in entries:
        sec = 'Name: %s\r\n%s: %s\r\n\r\n' % (name, _digest_attr(digest), _b64(digest, data))
        sections.append((name, sec.encode('utf-8')))
    return main.encode('utf-8') + b''.join(s for _, s in sections), sections


def signature_file(manifest_bytes, sections, digest, created_by='1.0 (Android)'):
    out = 'Signature-Version: 1.0\r\nCreated-By: %s\r\n%s-Manifest: %s\r\n\r\n' % (
        created_by, _digest_attr(digest), _b64(digest, manifest_bytes))
    for name, sec in sections:
        out += 'Name: %s\r\n%s: %s\r\n\r\n' % (name, _digest_attr(digest), _b64(digest, sec))
    return out.encode('utf-8')


def pack(files, deflate=False):
    """files: list of (name, bytes) -> zip bytes (fixed timestamps, so the output is a function of the input)."""
    bio = io.BytesIO()
    with zipfile.ZipFile(bio, 'w') as z:
        for name, data in files:
            zi = zipfile.ZipInfo(name, date_time=(2020, 1, 1, 0, 0, 0))
            zi.compress_type = zipfile.ZIP_DEFLATED if deflate else zipfile.ZIP_STORED
            zi.external_attr = 0o644 << 16
            z.writestr(zi, data)
    return bio.getvalue()


class Skeleton:
    """Everything of the APK that is independent of the signature block."""

    def __init__(self, min_sdk=None, digest='sha256', base='CERT', created_by='1.0 (Android)', extra=()):
        self.axml = manifest_axml(min_sdk)
        self.entries = [('AndroidManifest.xml', self.axml)] + list(extra)
        self.mf, sections = jar_manifest(self.entries, digest, created_by)
        self.sections = sections
        self.sf = signature_file(self.mf, sections, digest, created_by)
        self.base = base

    def apk(self, sf, block, ext, deflate=False):
        return pack(self.entries + [('META-INF/MANIFEST.MF', self.mf), ('META-INF/%s.SF' % self.base, sf),
                                    ('META-INF/%s.%s' % (self.base, ext), block)], deflate)

    def signature_file(self, digest, created_by):
        """The .SF of one more signer over the same manifest (each signer has its own X.SF + X.RSA|DSA|EC pair)."""
        return signature_file(self.mf, self.sections, digest, created_by)

    def apk_multi(self, meta_entries, deflate=False):
        """meta_entries: [(name, bytes)] - the .SF / signature block files of all signers, in the order given."""
        return pack(self.entries + [('META-INF/MANIFEST.MF', self.mf)] + list(meta_entries), deflate)


def sf_name_of(block_name):
    """JAR signing convention: X.SF belongs to X.RSA | X.DSA | X.EC, X = everything before the LAST dot of the block's
    file name (JAR specification "Signed JAR File"; apksig V1SchemeVerifier pairs them by lastIndexOf('.'))."""
    return block_name[:block_name.rindex('.')] + '.SF'
