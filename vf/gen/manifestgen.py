"""manifestgen — Hypothesis strategy for AndroidManifest models and their serialisation (never imports androguard).

  manifests(allow_plain_names=True)  strategy -> manifest model (dict, see vf/model/manifest.py) with a 'layout' entry
  to_tree(m)                         model -> axmlgen.Element tree, laid out the way aapt writes a manifest:
                                       * <manifest xmlns:android=... package=...> (package un-namespaced)
                                       * every android: attribute carries its public resource id (name string in the
                                         resource-mapped front part of the pool + RES_XML_RESOURCE_MAP entry), because the
                                         platform looks attributes up by resource id; attributes of one element are sorted
                                         by resource id, un-namespaced ones last (aapt's order, required by the
                                         platform's styled-attribute lookup)
                                       * values typed as aapt types them: names/versionName/authorities TYPE_STRING,
                                         versionCode / *SdkVersion TYPE_INT_DEC, enabled/exported/required
                                         TYPE_INT_BOOLEAN, glEsVersion TYPE_INT_HEX, icon/theme TYPE_REFERENCE
  to_axml(m) -> bytes                binary AndroidManifest.xml
  to_apk(m) -> bytes                 APK (zip) containing it, plus the filler members listed in m['layout']['files']

m['layout'] (drawn by the strategy, so that model -> bytes is a pure function):
  'utf8'        string-pool encoding            'blank_names'  pool strings of resource-mapped attribute names are ''
  'top'         order of the children of <manifest>: [['sdk',0], ['perm',i], ['feature',i], ['declperm',i], ['app',0], ...]
  'app'         order of the children of <application>: [['comp',i], ['lib',i], ['meta',i]]
  'app_attrs'   {'label': str|None, 'name': str|None, 'debuggable': bool|None, 'icon': int|None}
  'files'       [[name, size, method]] filler zip members;  'manifest_last': bool;  'manifest_method': 0|8; 'align': 0|4

`allow_plain_names=False` excludes, by construction, permission / feature / library names that would be changed by
component-name completion (no '.' or leading '.'), for use while that androguard defect is an open finding.
"""
from vf.gen import axmlgen as X
from vf.gen import zipgen as Z
from vf.model import manifest as M

# public attribute ids missing from axmlgen.ANDROID_ATTR_IDS (platform public.xml, stable API)
EXTRA_ATTR_IDS = {'targetActivity': 0x01010202, 'permissionGroup': 0x0101000a}
ATTR_IDS = dict(X.ANDROID_ATTR_IDS)
ATTR_IDS.update(EXTRA_ATTR_IDS)

STD_PERMISSIONS = ['android.permission.INTERNET', 'android.permission.CAMERA', 'android.permission.READ_CONTACTS',
                   'android.permission.WRITE_CONTACTS', 'android.permission.WRITE_EXTERNAL_STORAGE',
                   'android.permission.READ_EXTERNAL_STORAGE', 'android.permission.READ_PHONE_STATE',
                   'android.permission.ACCESS_FINE_LOCATION', 'com.android.vending.BILLING',
                   'com.google.android.c2dm.permission.RECEIVE']
PLAIN_PERMISSIONS = ['NODOT', 'INTERNET', 'MY_PERMISSION', 'p', '.LOCAL_PERMISSION']
STD_FEATURES = ['android.hardware.camera', 'android.hardware.touchscreen', 'android.software.leanback',
                'android.hardware.type.watch', 'android.hardware.bluetooth_le', 'android.hardware.camera.autofocus']
PLAIN_FEATURES = ['camera', 'touchscreen', 'nfc', '.feature']
STD_LIBRARIES = ['org.apache.http.legacy', 'com.google.android.maps', 'android.test.runner', 'javax.obex',
                 'com.android.future.usb.accessory']
PLAIN_LIBRARIES = ['lib', 'maps', 'obex', '.library']
ACTIONS = [M.ACTION_MAIN, 'android.intent.action.VIEW', 'android.intent.action.SEND',
           'android.intent.action.BOOT_COMPLETED', 'android.intent.action.MAIN2', 'MAIN']
CATEGORIES = [M.CATEGORY_LAUNCHER, 'android.intent.category.DEFAULT', 'android.intent.category.BROWSABLE',
              'android.intent.category.LEANBACK_LAUNCHER', 'android.intent.category.HOME', 'LAUNCHER']


def is_plain(name):
    """a name that component-name completion would change"""
    return name is not None and (name[0] == '.' or '.' not in name)


# ---------------------------------------------------------------------------------------------------
# model -> tree -> bytes

def _attr(m, name, type_, data=0, raw=None):
    blank = m['layout'].get('blank_names', False)
    return X.Attr(X.NS_ANDROID, '' if blank else name, type_, data, raw, ATTR_IDS[name])


def _s(m, name, v):
    return _attr(m, name, X.TYPE_STRING, 0, v)


def _i(m, name, v):
    return _attr(m, name, X.TYPE_INT_DEC, v)


def _b(m, name, v):
    return _attr(m, name, X.TYPE_INT_BOOLEAN, 0xFFFFFFFF if v else 0)


def _sorted(attrs):
    """aapt order: resource-mapped attributes by id, then the others"""
    return sorted(attrs, key=lambda a: (a.resid is None, a.resid or 0))


def _el(name, attrs=(), children=()):
    return X.Element(None, name, _sorted(attrs), children)


def _filter(m, f):
    kids = [_el('action', [_s(m, 'name', a)]) for a in f['actions']]
    kids += [_el('category', [_s(m, 'name', c)]) for c in f['categories']]
    kids += [_el('data', [_s(m, 'scheme', d)]) for d in f.get('data', [])]
    attrs = []
    if f.get('priority') is not None:
        attrs.append(_i(m, 'priority', f['priority']))
    return _el('intent-filter', attrs, kids)


def _component(m, c):
    attrs = [_s(m, 'name', c['name'])]
    if c.get('enabled') is not None:
        attrs.append(_b(m, 'enabled', c['enabled']))
    if c.get('exported') is not None:
        attrs.append(_b(m, 'exported', c['exported']))
    if c.get('target') is not None:
        attrs.append(_s(m, 'targetActivity', c['target']))
    if c.get('authorities') is not None:
        attrs.append(_s(m, 'authorities', c['authorities']))
    if c.get('label') is not None:
        attrs.append(_s(m, 'label', c['label']))
    kids = [_filter(m, f) for f in c['filters']]
    for (k, v) in c.get('meta', []):
        kids.append(_el('meta-data', [_s(m, 'name', k), _s(m, 'value', v)]))
    return _el(c['kind'], attrs, kids)


def to_tree(m):
    lay = m['layout']
    app_kids = []
    for (what, i) in lay['app']:
        if what == 'comp':
            app_kids.append(_component(m, m['components'][i]))
        elif what == 'lib':
            l = m['libraries'][i]
            a = [_s(m, 'name', l['name'])]
            if l.get('required') is not None:
                a.append(_b(m, 'required', l['required']))
            app_kids.append(_el('uses-library', a))
        elif what == 'meta':
            k, v = lay['app_meta'][i]
            app_kids.append(_el('meta-data', [_s(m, 'name', k), _s(m, 'value', v)]))
        else:
            raise ValueError(what)
    aa = lay.get('app_attrs') or {}
    app_attrs = []
    if aa.get('label') is not None:
        app_attrs.append(_s(m, 'label', aa['label']))
    if aa.get('name') is not None:
        app_attrs.append(_s(m, 'name', aa['name']))
    if aa.get('debuggable') is not None:
        app_attrs.append(_b(m, 'debuggable', aa['debuggable']))
    if aa.get('icon') is not None:
        app_attrs.append(_attr(m, 'icon', X.TYPE_REFERENCE, aa['icon']))
    top = []
    for (what, i) in lay['top']:
        if what == 'sdk':
            u = m['uses_sdk']
            a = []
            for key, an in (('min', 'minSdkVersion'), ('target', 'targetSdkVersion'), ('max', 'maxSdkVersion')):
                if u.get(key) is not None:
                    a.append(_i(m, an, u[key]))
            top.append(_el('uses-sdk', a))
        elif what == 'perm':
            p = m['permissions'][i]
            a = [_s(m, 'name', p['name'])]
            if p.get('max_sdk') is not None:
                a.append(_i(m, 'maxSdkVersion', p['max_sdk']))
            top.append(_el('uses-permission', a))
        elif what == 'feature':
            f = m['features'][i]
            a = []
            if f.get('name') is not None:
                a.append(_s(m, 'name', f['name']))
            if f.get('required') is not None:
                a.append(_b(m, 'required', f['required']))
            if f.get('gles') is not None:
                a.append(_attr(m, 'glEsVersion', X.TYPE_INT_HEX, f['gles']))
            top.append(_el('uses-feature', a))
        elif what == 'declperm':
            d = m['declared_permissions'][i]
            a = [_s(m, 'name', d['name'])]
            if d.get('level') is not None:
                a.append(_attr(m, 'protectionLevel', X.TYPE_INT_HEX, d['level']))
            top.append(_el('permission', a))
        elif what == 'app':
            top.append(_el('application', app_attrs, app_kids))
        else:
            raise ValueError(what)
    mattrs = []
    if m['version_code'] is not None:
        mattrs.append(_i(m, 'versionCode', m['version_code']))
    if m['version_name'] is not None:
        mattrs.append(_s(m, 'versionName', m['version_name']))
    mattrs = _sorted(mattrs) + [X.Attr(None, 'package', X.TYPE_STRING, 0, m['package'])]
    if lay.get('platform_build') is not None:
        mattrs.append(X.Attr(None, 'platformBuildVersionCode', X.TYPE_INT_DEC, lay['platform_build']))
    return X.Element(None, 'manifest', mattrs, top, nsdecls=[('android', X.NS_ANDROID)])


def to_axml(m):
    return X.build(X.Document(to_tree(m), utf8=m['layout']['utf8']))


def _filler(name, size):
    seed = (name + '|%d' % size).encode('utf-8')
    return (seed * (size // len(seed) + 1))[:size]


def to_apk(m, axml=None):
    lay = m['layout']
    if axml is None:
        axml = to_axml(m)
    entries = [(n, _filler(n, size), method) for (n, size, method) in lay.get('files', [])]
    man = (Z.MANIFEST_NAME, axml, lay.get('manifest_method', Z.DEFLATED))
    entries = entries + [man] if lay.get('manifest_last') else [man] + entries
    return Z.build_zip(entries, align=lay.get('align', 0))


def minimal(package='com.ex.app', **kw):
    """explicit model with a default layout (document order = sdk, permissions, features, declared permissions,
    application[components, libraries]); for regression / probe cases and hand-written experiments"""
    m = {'package': package, 'version_code': 1, 'version_name': '1.0', 'uses_sdk': None, 'permissions': [],
         'declared_permissions': [], 'features': [], 'libraries': [], 'components': []}
    m.update(kw)
    for c in m['components']:
        for k, v in (('enabled', None), ('exported', None), ('target', None), ('authorities', None), ('label', None),
                     ('filters', []), ('meta', [])):
            c.setdefault(k, v)
        for f in c['filters']:
            f.setdefault('data', [])
            f.setdefault('priority', None)
    for p in m['permissions']:
        p.setdefault('max_sdk', None)
    for f in m['features']:
        f.setdefault('required', None)
        f.setdefault('gles', None)
    for l in m['libraries']:
        l.setdefault('required', None)
    if 'layout' not in m:
        top = ([['sdk', 0]] if m['uses_sdk'] is not None else []) + [['perm', i] for i in range(len(m['permissions']))] + \
              [['feature', i] for i in range(len(m['features']))] + \
              [['declperm', i] for i in range(len(m['declared_permissions']))] + [['app', 0]]
        app = [['comp', i] for i in range(len(m['components']))] + [['lib', i] for i in range(len(m['libraries']))]
        m['layout'] = {'utf8': False, 'blank_names': False, 'top': top, 'app': app, 'app_meta': [], 'app_attrs': {},
                       'platform_build': None, 'files': [], 'manifest_last': False, 'manifest_method': Z.DEFLATED,
                       'align': 0}
    return m


# ---------------------------------------------------------------------------------------------------
# strategy

_LOW = 'abcdefghijklmnopqrstuvwxyz'
_UP = 'ABCDEFGHIJKLMNOPQRSTUVWXYZ'
FILLER_NAMES = ['classes.dex', 'res/layout/main.xml', 'lib/arm64-v8a/libx.so', 'assets/data.bin',
                'META-INF/MANIFEST.MF', 'res/drawable/icon.png']


def manifests(allow_plain_names=True, max_components=6):
    from hypothesis import strategies as st

    seg = st.builds(lambda a, b: a + b, st.sampled_from(_LOW), st.text(_LOW + '0123456789_', max_size=5))
    seg = st.one_of(st.sampled_from(['com', 'org', 'ex', 'app', 'a', 'android']), seg,
                    st.builds(lambda a, b: a + b, st.sampled_from(_UP), st.text(_LOW, max_size=3)))
    package = st.lists(seg, min_size=2, max_size=4).map('.'.join)
    simple = st.one_of(st.sampled_from(['Main', 'MainActivity', 'A', 'Svc', 'Recv', 'Prov', 'Outer$Inner', 'main']),
                       st.builds(lambda a, b: a + b, st.sampled_from(_UP + '_'),
                                 st.text(_LOW + _UP + '0123456789_$', max_size=7)))
    # version names: non-empty (an empty android:versionName is not distinguished from an absent one here)
    text = st.one_of(st.text('abcXYZ019 ._-', min_size=1, max_size=8),
                     st.text(st.sampled_from('aZ0 .-_+éüßЖ中😀&<>"\''), min_size=1, max_size=8),
                     st.sampled_from(['1.0', '2.3.4-beta', '1', 'v1.0 (build 7)']))
    sdk_level = st.one_of(st.integers(1, 36), st.sampled_from([1, 3, 4, 15, 16, 22, 23, 28, 33, 35, 10000]))
    opt_bool = st.sampled_from([None, None, True, False])

    @st.composite
    def comp_name(draw, pkg):
        form = draw(st.sampled_from(['rel', 'rel', 'bare', 'fq', 'fq-own']))
        s = draw(simple)
        if form == 'rel':
            sub = draw(st.sampled_from(['', '', '', 'ui.', 'a.b.']))
            return '.' + sub + s
        if form == 'bare':
            return s
        if form == 'fq-own':
            return pkg + '.' + draw(st.sampled_from(['', '', 'ui.'])) + s
        return draw(package) + '.' + s

    @st.composite
    def intent_filter(draw, launcher_mode):
        """launcher_mode: 'both' (MAIN and LAUNCHER here), 'main-only', 'launcher-only', 'none'"""
        acts = draw(st.lists(st.sampled_from(ACTIONS[1:]), max_size=2, unique=True))
        cats = draw(st.lists(st.sampled_from(CATEGORIES[1:]), max_size=2, unique=True))
        if launcher_mode in ('both', 'main-only'):
            acts.insert(draw(st.integers(0, len(acts))), M.ACTION_MAIN)
        if launcher_mode in ('both', 'launcher-only'):
            cats.insert(draw(st.integers(0, len(cats))), M.CATEGORY_LAUNCHER)
        if not acts and draw(st.booleans()):
            acts = ['android.intent.action.VIEW']
        data = draw(st.lists(st.sampled_from(['http', 'https', 'content', 'myapp']), max_size=1))
        prio = draw(st.sampled_from([None, None, None, 100, 999]))
        return {'actions': acts, 'categories': cats, 'data': data, 'priority': prio}

    @st.composite
    def component(draw, pkg):
        kind = draw(st.sampled_from(['activity', 'activity', 'activity', 'activity-alias', 'service', 'receiver',
                                     'provider']))
        c = {'kind': kind, 'name': draw(comp_name(pkg)), 'enabled': draw(opt_bool), 'exported': draw(opt_bool),
             'target': None, 'authorities': None, 'label': draw(st.sampled_from([None, None, 'Label', 'x']))}
        if kind == 'activity-alias':
            c['target'] = draw(comp_name(pkg))
        if kind == 'provider':
            c['authorities'] = pkg + '.' + draw(st.sampled_from(['provider', 'files', 'auth']))
        # per component ONE of MAIN / LAUNCHER distributions, so that "MAIN and LAUNCHER split over two filters" never occurs
        mode = draw(st.sampled_from(['both', 'both', 'main-only', 'launcher-only', 'none', 'none', 'none', 'none']))
        nf = draw(st.integers(0, 3))
        filters = []
        if mode != 'none' and nf == 0:
            nf = 1
        special = draw(st.integers(0, max(0, nf - 1)))
        for k in range(nf):
            if mode == 'none':
                fm = 'none'
            elif mode == 'both':
                # the other filters may repeat the pair or hold one half or nothing: a 'both' filter exists anyway
                fm = 'both' if k == special else draw(st.sampled_from(['none', 'none', 'both', 'main-only', 'launcher-only']))
            else:
                fm = mode if k == special else draw(st.sampled_from(['none', mode]))
            filters.append(draw(intent_filter(fm)))
        c['filters'] = filters
        c['meta'] = draw(st.lists(st.tuples(st.sampled_from(['android.app.lib_name', 'meta', 'com.x.KEY']),
                                            st.sampled_from(['v', 'native-lib', '1'])), max_size=1))
        return c

    def pick_names(std, plain):
        if allow_plain_names:
            return st.one_of(st.sampled_from(std), st.sampled_from(std), st.sampled_from(plain))
        return st.sampled_from(std)

    @st.composite
    def manifest(draw):
        pkg = draw(package)
        m = {'package': pkg,
             'version_code': draw(st.one_of(st.none(), st.integers(0, 200), st.integers(0, 0x7FFFFFFF))),
             'version_name': draw(st.one_of(st.none(), text, text))}
        # uses-sdk: any subset of min / target / max (including the empty element) or no element
        if draw(st.integers(0, 5)) == 0:
            m['uses_sdk'] = None
        else:
            m['uses_sdk'] = {'min': draw(st.one_of(st.none(), sdk_level)),
                             'target': draw(st.one_of(st.none(), sdk_level)),
                             'max': draw(st.one_of(st.none(), st.none(), sdk_level))}
        # permissions: small pools make duplicates natural; an explicit duplicate is added half of the time
        own = [pkg + '.permission.' + x for x in ('C2D_MESSAGE', 'MAPS_RECEIVE')]
        pname = st.one_of(pick_names(STD_PERMISSIONS, PLAIN_PERMISSIONS), st.sampled_from(own))
        max_sdk = st.one_of(st.none(), st.none(), st.integers(1, 35), st.sampled_from([18, 22, 28]))
        perms = [{'name': draw(pname), 'max_sdk': draw(max_sdk)} for _ in range(draw(st.integers(0, 6)))]
        if perms and draw(st.booleans()):
            src = perms[draw(st.integers(0, len(perms) - 1))]
            dup = {'name': src['name'], 'max_sdk': draw(st.one_of(st.just(src['max_sdk']), max_sdk))}
            perms.insert(draw(st.integers(0, len(perms))), dup)
        m['permissions'] = perms
        m['declared_permissions'] = [{'name': draw(st.sampled_from(own + ['android.permission.INTERNET'])),
                                      'level': draw(st.sampled_from([None, 0, 2]))}
                                     for _ in range(draw(st.sampled_from([0, 0, 0, 1, 2])))]
        feats = []
        for _ in range(draw(st.integers(0, 3))):
            if draw(st.integers(0, 4)) == 0:
                feats.append({'name': None, 'required': draw(opt_bool), 'gles': draw(st.sampled_from([0x20000, 0x30001]))})
            else:
                feats.append({'name': draw(pick_names(STD_FEATURES, PLAIN_FEATURES)), 'required': draw(opt_bool),
                              'gles': None})
        m['features'] = feats
        m['libraries'] = [{'name': draw(pick_names(STD_LIBRARIES, PLAIN_LIBRARIES)), 'required': draw(opt_bool)}
                          for _ in range(draw(st.integers(0, 3)))]
        comps, seen = [], set()
        for _ in range(draw(st.integers(0, max_components))):
            c = draw(component(pkg))
            full = M.complete_name(pkg, c['name'])
            if full in seen:
                continue
            seen.add(full)
            comps.append(c)
        m['components'] = comps
        app_meta = draw(st.lists(st.tuples(st.sampled_from(['com.google.android.gms.version', 'k']),
                                           st.sampled_from(['1', 'v'])), max_size=1))
        has_app = bool(comps or m['libraries'] or app_meta) or draw(st.integers(0, 4)) > 0
        if not has_app:
            app_meta = []
        top = ([['sdk', 0]] if m['uses_sdk'] is not None else []) + [['perm', i] for i in range(len(perms))] + \
              [['feature', i] for i in range(len(feats))] + [['declperm', i] for i in range(len(m['declared_permissions']))] + \
              ([['app', 0]] if has_app else [])
        app = [['comp', i] for i in range(len(comps))] + [['lib', i] for i in range(len(m['libraries']))] + \
              [['meta', i] for i in range(len(app_meta))]
        if draw(st.booleans()):
            top = list(draw(st.permutations(top))) if top else []
        if draw(st.booleans()):
            app = list(draw(st.permutations(app))) if app else []
        files = []
        for n in draw(st.lists(st.sampled_from(FILLER_NAMES), max_size=3, unique=True)):
            files.append([n, draw(st.integers(0, 300)), draw(st.sampled_from([Z.STORED, Z.DEFLATED]))])
        m['layout'] = {
            'utf8': draw(st.booleans()),
            'blank_names': draw(st.integers(0, 5)) == 0,
            'top': [list(t) for t in top], 'app': [list(t) for t in app], 'app_meta': [list(t) for t in app_meta],
            'app_attrs': {'label': draw(st.sampled_from([None, 'App', 'My app'])),
                          'name': draw(st.sampled_from([None, None, '.App', 'App'])),
                          'debuggable': draw(opt_bool),
                          'icon': draw(st.sampled_from([None, 0x7F020000]))},
            'platform_build': draw(st.sampled_from([None, 23, 33])),
            'files': files,
            'manifest_last': draw(st.booleans()),
            'manifest_method': draw(st.sampled_from([Z.STORED, Z.DEFLATED])),
            'align': draw(st.sampled_from([0, 0, 4])),
        }
        return m
    return manifest()
