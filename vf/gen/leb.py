"""Reference LEB128 codec written from the DEX specification (no androguard imports)."""


def uleb(v):
    assert v >= 0
    out = bytearray()
    while True:
        b = v & 0x7f
        v >>= 7
        if v:
            out.append(b | 0x80)
        else:
            out.append(b)
            return bytes(out)


def sleb(v):
    out = bytearray()
    while True:
        b = v & 0x7f
        v >>= 7
        if (v == 0 and not b & 0x40) or (v == -1 and b & 0x40):
            out.append(b)
            return bytes(out)
        out.append(b | 0x80)


def uleb_p1(v):
    return uleb(v + 1)


def pad_uleb(v, n):
    """non-canonical n-byte encoding of v (zero-padded); requires n >= minimal length"""
    e = bytearray(uleb(v))
    while len(e) < n:
        e[-1] |= 0x80
        e.append(0)
    return bytes(e)


def pad_sleb(v, n):
    e = bytearray(sleb(v))
    fill = 0x7f if v < 0 else 0x00
    while len(e) < n:
        e[-1] |= 0x80
        e.append(fill)
    return bytes(e)


def decode_uleb(buf, pos=0):
    """-> (value, consumed). Reads at most 5 bytes (DEX: 32-bit quantities)."""
    result = 0
    n = 0
    while True:
        b = buf[pos + n]
        result |= (b & 0x7f) << (7 * n)
        n += 1
        if not b & 0x80 or n == 5:
            return result, n


def decode_sleb(buf, pos=0):
    result = 0
    n = 0
    while True:
        b = buf[pos + n]
        result |= (b & 0x7f) << (7 * n)
        n += 1
        if not b & 0x80 or n == 5:
            break
    bits = 7 * n
    if bits < 32:
        if result & (1 << (bits - 1)):
            result -= 1 << bits
    else:
        result &= 0xffffffff
        if result & 0x80000000:
            result -= 1 << 32
    return result, n
