"""Independent PKCS#7 / CMS SignedData builder for JAR (APK v1) signature blocks  (RFC 5652; never imports androguard).

Signatures are made with `cryptography` (RSASSA-PKCS1-v1_5, ECDSA, DSA over SHA-1 / SHA-256), the ASN.1 is put
together with asn1crypto. Content is *detached* (eContent absent): the signed content is the META-INF/X.SF file.

  without signed attributes: signature = Sign(key, SF)                                        (RFC 5652 5.4)
  with signed attributes:    attrs = SET OF {contentType = id-data, messageDigest = H(SF) [, signingTime]},
                             signature = Sign(key, DER(attrs) with the universal SET OF tag 0x31), while the
                             SignerInfo carries the same bytes under the IMPLICIT [0] tag 0xA0.

Keys and certificates come from the committed pool fixtures/keys/ (tools/mkkeys.py); nothing is generated at check
time. `tools/mkkeys.py --selftest` cross-checks this builder against `openssl cms -verify`.
"""
import datetime
import hashlib
import os
from collections import namedtuple

from asn1crypto import algos, cms, core, x509 as ax509
from cryptography.hazmat.primitives import hashes, serialization
from cryptography.hazmat.primitives.asymmetric import dsa, ec, padding, rsa

KEYDIR = os.path.join(os.path.dirname(os.path.dirname(os.path.dirname(os.path.abspath(__file__)))), 'fixtures', 'keys')
KINDS = ('rsa', 'ec', 'dsa')
DIGESTS = ('sha1', 'sha256')
EXT = {'rsa': 'RSA', 'ec': 'EC', 'dsa': 'DSA'}
_HASH = {'sha1': hashes.SHA1, 'sha256': hashes.SHA256}
OID_CONTENT_TYPE = '1.2.840.113549.1.9.3'
OID_MESSAGE_DIGEST = '1.2.840.113549.1.9.4'
OID_SIGNING_TIME = '1.2.840.113549.1.9.5'

Signer = namedtuple('Signer', 'kind who key cert_der')


class SignerSpec(namedtuple('SignerSpec', 'kind who digest attrs signing_time rsa_generic_oid')):
    """kind rsa|ec|dsa, who a|b, digest sha1|sha256, attrs: with signed attributes, signing_time: add signingTime,
    rsa_generic_oid: signatureAlgorithm = rsaEncryption (as jarsigner/apksigner write) instead of shaXWithRSAEncryption"""
    def __new__(cls, kind, who='a', digest='sha256', attrs=False, signing_time=False, rsa_generic_oid=True):
        return super().__new__(cls, kind, who, digest, bool(attrs), bool(signing_time), bool(rsa_generic_oid))


_pool = None


def load_pool():
    """{kind: {'a': Signer, 'b': Signer, 'forged_a': cert DER}}"""
    global _pool
    if _pool is None:
        p = {}
        for kind in KINDS:
            p[kind] = {}
            for who in ('a', 'b'):
                with open(os.path.join(KEYDIR, '%s_%s.key.pem' % (kind, who)), 'rb') as f:
                    key = serialization.load_pem_private_key(f.read(), password=None)
                with open(os.path.join(KEYDIR, '%s_%s.cert.der' % (kind, who)), 'rb') as f:
                    p[kind][who] = Signer(kind, who, key, f.read())
            with open(os.path.join(KEYDIR, '%s_forged_a.cert.der' % kind), 'rb') as f:
                p[kind]['forged_a'] = f.read()
        _pool = p
    return _pool


def raw_sign(key, data, digest):
    h = _HASH[digest]()
    if isinstance(key, rsa.RSAPrivateKey):
        return key.sign(data, padding.PKCS1v15(), h)
    if isinstance(key, ec.EllipticCurvePrivateKey):
        return key.sign(data, ec.ECDSA(h))
    if isinstance(key, dsa.DSAPrivateKey):
        return key.sign(data, h)
    raise TypeError(key)


def sig_algorithm(spec):
    if spec.kind == 'rsa':
        return 'rsassa_pkcs1v15' if spec.rsa_generic_oid else spec.digest + '_rsa'
    return '%s_%s' % (spec.digest, 'ecdsa' if spec.kind == 'ec' else 'dsa')


def make_attrs(sf, digest, signing_time=False, extra=()):
    """CMSAttributes (a SET OF: asn1crypto sorts the encodings, so dump() is DER)."""
    items = [cms.CMSAttribute({'type': 'content_type', 'values': ['data']}),
             cms.CMSAttribute({'type': 'message_digest', 'values': [hashlib.new(digest, sf).digest()]})]
    if signing_time:
        items.append(cms.CMSAttribute({'type': 'signing_time', 'values': [
            cms.Time({'utc_time': datetime.datetime(2024, 5, 6, 7, 8, 9, tzinfo=datetime.timezone.utc)})]}))
    items.extend(extra)
    return cms.CMSAttributes(items)


def attrs_to_be_signed(attrs):
    """DER of the attributes as a universal SET OF (tag 0x31), RFC 5652 section 5.4."""
    d = cms.CMSAttributes(list(attrs)).dump(force=True)
    assert d[0] == 0x31
    return d


def parts(pool, spec, sf):
    """The pieces of one SignerInfo as a plain dict, so that fault injectors can edit one piece and leave the
    others (in particular the signature value) as they are:
      issuer (asn1crypto Name), serial (int), digest, sigalg, attrs (list of CMSAttribute or None), signature (bytes)"""
    s = pool[spec.kind][spec.who]
    cert = ax509.Certificate.load(s.cert_der)
    p = {'issuer': cert.issuer, 'serial': cert.serial_number, 'digest': spec.digest, 'sigalg': sig_algorithm(spec),
         'attrs': None}
    if spec.attrs:
        attrs = make_attrs(sf, spec.digest, spec.signing_time)
        p['attrs'] = list(attrs)
        p['signature'] = raw_sign(s.key, attrs_to_be_signed(attrs), spec.digest)
    else:
        p['signature'] = raw_sign(s.key, sf, spec.digest)
    return p


def signer_info_from_parts(p):
    d = {
        'version': 'v1',
        'sid': cms.SignerIdentifier({'issuer_and_serial_number': cms.IssuerAndSerialNumber(
            {'issuer': p['issuer'], 'serial_number': p['serial']})}),
        'digest_algorithm': algos.DigestAlgorithm({'algorithm': p['digest']}),
        'signature_algorithm': algos.SignedDigestAlgorithm({'algorithm': p['sigalg']}),
        'signature': p['signature'],
    }
    if p['attrs'] is not None:
        d['signed_attrs'] = cms.CMSAttributes([cms.CMSAttribute.load(a.dump(force=True)) for a in p['attrs']])
    return cms.SignerInfo(d)


def signer_info(pool, spec, sf):
    return signer_info_from_parts(parts(pool, spec, sf))


def render(signer_parts, cert_ders):
    """DER of the ContentInfo for a list of parts dicts and a list of certificate DERs."""
    return assemble([signer_info_from_parts(p) for p in signer_parts], cert_ders).dump(force=True)


def attr(oid_or_name, values):
    return cms.CMSAttribute({'type': oid_or_name, 'values': values})


def renamed(name, old_suffix, new_suffix):
    """A copy of an X.509 Name whose commonName has old_suffix replaced by new_suffix (a different name)."""
    rdns = []
    for rdn in name.chosen:
        atvs = []
        for atv in rdn:
            v = atv['value'].native
            if atv['type'].native == 'common_name':
                assert v.endswith(old_suffix)
                v = v[:len(v) - len(old_suffix)] + new_suffix
            atvs.append(ax509.NameTypeAndValue({'type': atv['type'].native, 'value': type(atv['value'].chosen)(v) if hasattr(atv['value'], 'chosen') else type(atv['value'])(v)}))
        rdns.append(ax509.RelativeDistinguishedName(atvs))
    return ax509.Name(name='', value=ax509.RDNSequence(rdns))


def assemble(signer_infos, cert_ders):
    """ContentInfo(SignedData v1, detached id-data content)."""
    digests = []
    for si in signer_infos:
        a = si['digest_algorithm']['algorithm'].native
        if a not in digests:
            digests.append(a)
    sd = cms.SignedData({
        'version': 'v1',
        'digest_algorithms': [algos.DigestAlgorithm({'algorithm': a}) for a in digests],
        'encap_content_info': {'content_type': 'data'},
        'certificates': [cms.CertificateChoices({'certificate': ax509.Certificate.load(c)}) for c in cert_ders],
        'signer_infos': signer_infos,
    })
    return cms.ContentInfo({'content_type': 'signed_data', 'content': sd})


def build(pool, specs, sf):
    """SignedData over `sf` with one SignerInfo per spec and the signers' certificates (in signer order)."""
    sis = [signer_info(pool, sp, sf) for sp in specs]
    certs = []
    for sp in specs:
        c = pool[sp.kind][sp.who].cert_der
        if c not in certs:
            certs.append(c)
    return assemble(sis, certs)


def reparse(ci):
    """A fresh, fully independent copy (dump + load) - fault injectors mutate copies."""
    return cms.ContentInfo.load(ci.dump(force=True))
