"""zipgen — independent zip/APK archive writer + Hypothesis strategies (never imports androguard).

An archive is described by a list of entries ``(name, data, method)``:
  name    str  — archive member name, '/'-separated, any Unicode text without NUL/surrogates; a name ending
                 in '/' is a directory entry (data must be b'')
  data    bytes — the uncompressed content
  method  STORED (0) or DEFLATED (8)

``build_zip(entries, ...) -> bytes`` writes it with Python's ``zipfile`` (fixed timestamps, so the bytes are a
function of the arguments). Options reproduce the shapes found in real APKs:
  comment=b'...'          end-of-central-directory comment
  data_descriptors=True   "streamed" archive (what java.util.zip / jarsigner produce): general-purpose bit 3 set,
                          CRC and sizes zero in the local headers, a data descriptor after each member
  align=4                 zipalign-style: STORED members start at a multiple of `align` (zero bytes in the extra field)
``read_back`` re-reads an archive with ``zipfile`` (generator self-check), ``locate`` finds the EOCD / central directory.

DEX member names.  Android loads `classes.dex`, `classes2.dex`, ... from the *root* of the APK; androguard documents
"all files in the root directory of the APK named classes.dex or classes[0-9]+.dex" (APK.get_dex_names docstring).
``is_root_dex_name`` is that predicate; ``dex_true_names`` / ``dex_near_miss_names`` generate names on both sides of it.
Names that contain a non-ASCII decimal digit between `classes` and `.dex` are never generated (nobody specifies them).
"""
import base64
import functools
import io
import re
import struct
import zipfile
import zlib

from hypothesis import strategies as st

STORED = zipfile.ZIP_STORED        # 0
DEFLATED = zipfile.ZIP_DEFLATED    # 8
FIXED_DATE = (2020, 1, 2, 3, 4, 6)

EOCD_SIG = b'PK\x05\x06'
CD_SIG = b'PK\x01\x02'
LOCAL_SIG = b'PK\x03\x04'

# A fixed, minimal binary AndroidManifest.xml, produced once with the design-time AXML prototype writer:
#   <manifest package="com.ex.app" android:versionCode=1 android:versionName="1.0">
#     <uses-sdk android:minSdkVersion=21 android:targetSdkVersion=33/> <application/> </manifest>
# (UTF-16 string pool, resource map for the four android: attributes). 780 bytes.
MINIMAL_MANIFEST = zlib.decompress(base64.b64decode(
    'eNp1kc1Kw0AUhc802sY2QhYVRLsRXIhgouCquHNbXCi4ttSqRW1DG8WlSx/EB/Mx3Ok304nG1N7h5N4598yZnwQKFQWSUUfvRor0'
    'G71SvQWOwTl4Bm/gA3yCJuvaYA+cgBaKoaaaaaSJxjrlew2z2DlTX4+us04ewVygvNflH5UUK0c51S18vkTTQDGmM2U+Ikv7ukOd'
    'K1NXKWOmAcyQnfrUSUWf0J3QS+Ez/FM6Q3Tpgm/TKxP6L84nY9gTZNQD1vbdSaVAR/QPqUK36xiHG+eaO+6Jys4OgL2TfaG52wPK'
    'AXX+cz/p1YTaJG/XjOmACGRAJnY8T68vYoW8CmrwVyXexhp1mxH4/2q5BrnuzqOg7tcWPbjYeM7MNU4Xev9exb/p/Wvew52j5LXh'
    'uaDE7dh55Q6Fl91jt8K3/B5F/Le2tYS39zdL3usbkUyMAw=='))
MINIMAL_MANIFEST_INFO = {'package': 'com.ex.app', 'versionCode': '1', 'versionName': '1.0',
                         'minSdkVersion': '21', 'targetSdkVersion': '33'}
MANIFEST_NAME = 'AndroidManifest.xml'


class ZipGenError(Exception):
    """the generator was asked for something it cannot write faithfully"""


# --------------------------------------------------------------------------------------------
# writer
# --------------------------------------------------------------------------------------------

class _WriteOnly:
    """file object without seek/tell: makes zipfile write data descriptors (streaming mode)"""

    def __init__(self):
        self.buf = io.BytesIO()

    def write(self, b):
        return self.buf.write(b)

    def flush(self):
        pass


def _check_entries(entries):
    seen = set()
    for e in entries:
        name, data, method = e
        if not isinstance(name, str) or not name or '\x00' in name:
            raise ZipGenError('bad member name %r' % (name,))
        name.encode('utf-8')                                   # surrogates -> UnicodeEncodeError (generator bug)
        if name in seen:
            raise ZipGenError('duplicate member name %r' % (name,))
        seen.add(name)
        if method not in (STORED, DEFLATED):
            raise ZipGenError('method %r' % (method,))
        if name.endswith('/') and data:
            raise ZipGenError('directory entry with data: %r' % (name,))
        if len(name.encode('utf-8')) > 0xffff:
            raise ZipGenError('name too long')


def build_zip(entries, comment=b'', data_descriptors=False, align=0, compresslevel=6):
    """entries: iterable of (name, data, method). Returns the archive bytes."""
    entries = [tuple(e) for e in entries]
    _check_entries(entries)
    if EOCD_SIG in comment or len(comment) > 0xffff:
        raise ZipGenError('comment would make the end-of-central-directory record ambiguous')
    fp = _WriteOnly() if data_descriptors else io.BytesIO()
    with zipfile.ZipFile(fp, 'w', allowZip64=False) as zf:
        for name, data, method in entries:
            zi = zipfile.ZipInfo(name, date_time=FIXED_DATE)
            if zi.filename != name:
                raise ZipGenError('zipfile rewrote the name %r -> %r' % (name, zi.filename))
            zi.compress_type = method
            zi.create_system = 3
            if name.endswith('/'):
                zi.external_attr = (0o40775 << 16) | 0x10
                zi.compress_type = STORED
            else:
                zi.external_attr = 0o100644 << 16
            if align and method == STORED and not name.endswith('/'):
                try:
                    nbytes = name.encode('ascii')
                except UnicodeEncodeError:
                    nbytes = name.encode('utf-8')
                here = zf.fp.tell()
                zi.extra = b'\x00' * ((-(here + 30 + len(nbytes))) % align)
            zf.writestr(zi, data, compresslevel=compresslevel)
        zf.comment = comment
    raw = (fp.buf if data_descriptors else fp).getvalue()
    return raw


def build_apk(entries, manifest=MINIMAL_MANIFEST, manifest_first=True, **kw):
    """build_zip with an AndroidManifest.xml member added (unless manifest is None or one is already listed)."""
    entries = [tuple(e) for e in entries]
    if manifest is not None and all(e[0] != MANIFEST_NAME for e in entries):
        m = (MANIFEST_NAME, manifest, DEFLATED)
        entries = [m] + entries if manifest_first else entries + [m]
    return build_zip(entries, **kw)


# --------------------------------------------------------------------------------------------
# readers used for self-checks and by sigblock.py
# --------------------------------------------------------------------------------------------

def locate(zbytes):
    """-> dict(eocd_offset, cd_offset, cd_size, entries, comment_len). The EOCD is searched from the end and must
    be consistent (comment length reaches exactly the end of the file)."""
    lo = max(0, len(zbytes) - 22 - 0xffff)
    pos = len(zbytes) - 22
    while pos >= lo:
        if zbytes[pos:pos + 4] == EOCD_SIG:
            (disk, cddisk, n_here, n_total, cd_size, cd_off, clen) = struct.unpack('<HHHHIIH', zbytes[pos + 4:pos + 22])
            if pos + 22 + clen == len(zbytes):
                return {'eocd_offset': pos, 'cd_offset': cd_off, 'cd_size': cd_size, 'entries': n_total,
                        'comment_len': clen}
        pos -= 1
    raise ZipGenError('no end-of-central-directory record')


def read_back(zbytes):
    """-> [(name, data, method)] as Python's zipfile reads the archive (central-directory order)."""
    out = []
    with zipfile.ZipFile(io.BytesIO(zbytes)) as zf:
        for zi in zf.infolist():
            out.append((zi.filename, zf.read(zi), zi.compress_type))
    return out


def self_check(zbytes, entries):
    """raise ZipGenError unless the archive reads back as exactly `entries` (order included)."""
    got = read_back(zbytes)
    exp = [tuple(e) for e in entries]
    if got != exp:
        raise ZipGenError('archive does not read back as written: %r vs %r' % (got[:3], exp[:3]))
    info = locate(zbytes)
    if zbytes[info['cd_offset']:info['cd_offset'] + 4] != CD_SIG and exp:
        raise ZipGenError('central directory not where the EOCD says')


# --------------------------------------------------------------------------------------------
# DEX member names
# --------------------------------------------------------------------------------------------

_ROOT_DEX = re.compile(r'classes[0-9]*\.dex', re.ASCII)
_UNSPECIFIED_DEX = re.compile(r'classes\d*\.dex')      # \d without re.ASCII: any Unicode decimal digit


def is_root_dex_name(name):
    """True iff `name` is a root-level member named classes.dex or classes<ASCII digits>.dex (whole name)."""
    return _ROOT_DEX.fullmatch(name) is not None


def dex_name_unspecified(name):
    """names with non-ASCII decimal digits in the numeric suffix: neither documented as DEX nor as non-DEX"""
    return _UNSPECIFIED_DEX.fullmatch(name) is not None and not is_root_dex_name(name)


_digits = st.text(alphabet='0123456789', min_size=1, max_size=9)
_opt_digits = st.one_of(st.just(''), st.integers(2, 12).map(str), _digits)


@functools.lru_cache(maxsize=None)
def dex_true_names():
    """names that ARE official DEX members"""
    return st.one_of(
        st.just('classes.dex'),
        st.integers(2, 9).map(lambda n: 'classes%d.dex' % n),
        st.integers(0, 130).map(lambda n: 'classes%d.dex' % n),
        _digits.map(lambda d: 'classes%s.dex' % d),             # leading zeros, long suffixes
    )


# building blocks of names that are NOT official DEX members (label -> pieces)
NODOT_CHARS = ['X', '_', 'x', '-', ' ', 'é', '0', ',', ':', 'd', '\n']
NESTED_PREFIXES = ['lib/', 'assets/', 'a/b/', 'classes/', 'classes.dex/', 'META-INF/', 'é/']
SUFFIXES = ['.bak', '~', 'x', '.', '.dex', ' ', '/', '.jar', '2']
INFIXES = ['foo', '-2', ' 2', '_2', '2a', 'a2', '2.', '.', '+1', '2 ', 'x', '²x', '2\n']
CASE_STEMS = ['Classes', 'CLASSES', 'classeS', 'cLasses']
CASE_EXTS = ['.dex', '.DEX', '.Dex']
PREFIXES = ['x', '_', ' ', '.', '2', 'my', './', 'é', '\n']
SHORT = ['classes', 'classes.', 'classes2', 'classe.dex', 'class.dex', 'classes.de', 'classes2.de', '.dex', 'dex',
         'classes.odex', 'classes.jar', 'classes.dex2']
GRAMMAR_DIGITS = ['', '2', '3', '10', '01', '0', '1', '99999']


def _near(d):
    """all near-miss names for one digit string d: [(label, name)]"""
    out = [('nodot', 'classes%s%sdex' % (d, c)) for c in NODOT_CHARS]
    out += [('nested', '%sclasses%s.dex' % (p, d)) for p in NESTED_PREFIXES]
    out += [('suffix', 'classes%s.dex%s' % (d, x)) for x in SUFFIXES]
    out += [('newline', 'classes%s.dex\n' % d)]                      # Python's `$` matches before a final line feed
    out += [('case', '%s%s%s' % (stem, d, ext)) for stem in CASE_STEMS for ext in CASE_EXTS]
    out += [('case', 'classes%s%s' % (d, ext)) for ext in CASE_EXTS[1:]]
    out += [('prefix', '%sclasses%s.dex' % (p, d)) for p in PREFIXES]
    return out


def _ok_near(t):
    return not is_root_dex_name(t[1]) and not dex_name_unspecified(t[1])


def dex_grammar():
    """deterministic finite sample of the name grammar: [(label, name)], label 'dex' = official DEX member"""
    out, seen = [], set()
    items = []
    for d in GRAMMAR_DIGITS:
        items.append(('dex', 'classes%s.dex' % d))
        items += [t for t in _near(d) if _ok_near(t)]
    items += [('infix', 'classes%s.dex' % i) for i in INFIXES]
    items += [('short', s) for s in SHORT]
    for lab, n in items:
        if n not in seen:
            seen.add(n)
            assert (lab == 'dex') == is_root_dex_name(n), (lab, n)
            out.append((lab, n))
    return out


@functools.lru_cache(maxsize=None)
def dex_near_miss_names():
    """-> strategy of (label, name); the name is guaranteed not to be an official DEX member"""
    n_near = len(_near(''))
    per_digit = st.tuples(_opt_digits, st.integers(0, n_near - 1)).map(lambda t: _near(t[0])[t[1]])
    fixed = st.sampled_from([('infix', 'classes%s.dex' % i) for i in INFIXES] + [('short', s) for s in SHORT])
    nodot = st.tuples(_opt_digits, st.sampled_from(NODOT_CHARS)).map(lambda t: ('nodot', 'classes%s%sdex' % t))
    return st.one_of(per_digit, per_digit, per_digit, nodot, fixed).filter(_ok_near)


# --------------------------------------------------------------------------------------------
# general member names and contents
# --------------------------------------------------------------------------------------------

_ASCII = 'abcdefghijklmnopqrstuvwxyzABCDEFGHIJKLMNOPQRSTUVWXYZ0123456789._- +()$@,=[]'
_EXOTIC = 'éüßñøÅçЖяλ中文日本한😀🙏́‍  \\\'"&;%#!~^`{}|<>*?:\r\n\t'


@functools.lru_cache(maxsize=None)
def name_components(non_ascii=True):
    alpha = st.sampled_from(_ASCII) if not non_ascii else st.one_of(st.sampled_from(_ASCII), st.sampled_from(_ASCII),
                                                                    st.sampled_from(_EXOTIC))
    return st.text(alphabet=alpha, min_size=1, max_size=10).filter(lambda s: s not in ('.', '..'))


_COMMON = ['resources.arsc', 'res/layout/main.xml', 'res/drawable-hdpi/icon.png', 'lib/arm64-v8a/libx.so',
           'META-INF/MANIFEST.MF', 'META-INF/CERT.SF', 'META-INF/CERT.RSA', 'assets/data.bin', 'kotlin/kotlin.kotlin_builtins',
           'lib/', 'res/', 'assets/x/', 'META-INF/services/a.b.C', 'DebugProbesKt.bin', 'okhttp3/internal/publicsuffix/NOTICE']


@functools.lru_cache(maxsize=None)
def member_names(non_ascii=True):
    """plain (non-DEX-looking) member names: nested, optionally non-ASCII, optionally a directory entry"""
    comp = name_components(non_ascii)
    path = st.lists(comp, min_size=1, max_size=4).map('/'.join)
    made = st.tuples(path, st.sampled_from(['', '', '', '', '/'])).map(lambda t: t[0] + t[1])
    return st.one_of(made, made, st.sampled_from(_COMMON)).filter(
        lambda n: not n.startswith('classes') and n != MANIFEST_NAME)


@functools.lru_cache(maxsize=None)
def contents(max_size=600):
    """member contents: empty, random, compressible, DEX-looking, zip-signature-bearing"""
    rnd = st.binary(min_size=0, max_size=max_size)
    rep = st.tuples(st.binary(min_size=1, max_size=8), st.integers(1, max(1, max_size // 4))).map(lambda t: t[0] * t[1])
    dexy = st.binary(max_size=64).map(lambda b: b'dex\n035\x00' + b)
    sigs = st.lists(st.sampled_from([EOCD_SIG, CD_SIG, LOCAL_SIG, b'APK Sig Block 42', b'\x00' * 7, b'PK']),
                    min_size=1, max_size=6).map(b''.join)
    return st.one_of(st.just(b''), rnd, rnd, rep, dexy, sigs)


methods = st.sampled_from([STORED, DEFLATED])


@st.composite
def entry_lists(draw, min_plain=0, max_plain=8, max_dex=5, max_near=4, non_ascii=True, max_size=600,
                dex_names=True):
    """-> (entries, labels): entries = list of unique-named (name, data, method) in archive order; labels = set of
    near-miss class labels present. `max_dex` true DEX members, `max_near` near-miss DEX names."""
    labels = set()
    names = []
    if dex_names:
        for n in draw(_name_lists('true', max_dex)):
            names.append(n)
        for (lab, n) in draw(_name_lists('near', max_near)):
            if n not in names:
                names.append(n)
                labels.add(lab)
    for n in draw(_name_lists('plain' if non_ascii else 'plain-ascii', max_plain, min_plain)):
        if n not in names:
            names.append(n)
    names = draw(st.permutations(names)) if names else []
    payload = draw(st.lists(st.tuples(contents(max_size), methods), min_size=len(names), max_size=len(names)))
    entries = []
    for n, (data, method) in zip(names, payload):
        if n.endswith('/'):
            data, method = b'', STORED
        entries.append((n, data, method))
    return entries, labels


@functools.lru_cache(maxsize=None)
def _name_lists(kind, max_n, min_n=0):
    if kind == 'true':
        return st.lists(dex_true_names(), min_size=min_n, max_size=max_n, unique=True)
    if kind == 'near':
        return st.lists(dex_near_miss_names(), min_size=min_n, max_size=max_n, unique_by=lambda t: t[1])
    return st.lists(member_names(kind == 'plain'), min_size=min_n, max_size=max_n, unique=True)


_COMMENT_ALPHA = st.sampled_from(list(b'abcXYZ 0123\n\x00\xff\xe9'))
comments = st.one_of(st.just(b''), st.just(b''), st.lists(_COMMENT_ALPHA, max_size=40).map(bytes))

zip_options = st.fixed_dictionaries({
    'comment': comments,
    'data_descriptors': st.sampled_from([False, False, True]),
    'align': st.sampled_from([0, 0, 4]),
    'compresslevel': st.sampled_from([6, 1, 9]),
})
