"""Cross-reference program generator for C13 / C14 / C15 / C16 (no androguard import).

A *model* is a plain JSON-able dict (lists, strings, ints only), so that it can be stored in a replay file:

    {'ndex': k,                                  number of DEX files the class set is split into (1..4)
     'classes': [ {'name': 'Lp/C0;', 'dex': 0, 'super': 'Ljava/lang/Object;', 'interfaces': [...],
                   'iface': bool, 'fields': [[name, type, is_static], ...],
                   'methods': [ {'name', 'ret', 'params': [...], 'kind': 'static'|'direct'|'virtual',
                                 'code': bool, 'body': [site, ...]} ]} ]}

    site (one instruction of the body, in program order):
      ['inv', opcode, cls, name, ret, [params]]     invoke-kind {..}, meth     (0x6e..0x72 35c, 0x74..0x78 3rc)
      ['fld', opcode, cls, name, type]              iget*/iput*/sget*/sput*    (0x52..0x6d)
      ['str', opcode, value]                        const-string (0x1a) / const-string/jumbo (0x1b)
      ['new', type]  ['cls', type]                  new-instance / const-class
      ['cast', type] ['iof', type] ['narr', type] ['farr', opcode, type]
                                                    check-cast / instance-of / new-array / filled-new-array(/range):
                                                    type users that are NOT class xref sources
      ['pad', k]                                    filler of 1, 1, 2, 3 or 5 code units (k = 0..4), k = 5 move-result
      ['br']                                        if-eqz v0 to the next instruction (2 units)
      ['fill']                                      fill-array-data v0 with its payload after the return
      ['mid', v]                                    a payload in the MIDDLE of the code (legal DEX; smali-style assemblers, packers):
                                                    v = 0 fill-array-data, 1 packed-switch, 2 sparse-switch; emitted as
                                                    `op v0, P; goto L; [nop]; P: payload; L:` (switch targets all = L), so
                                                    whatever follows in the body is located behind a payload
    Every body is terminated by the return matching `ret` (then the payloads).

    optional keys of a model (absent in the plain strategies):
      'bulk':    {'t': n, 'f': n, 'm': n, 's': n}   filler pool entries written into every DEX file of the model in front of
                 the model's own items: n types La/T<i>;, n field refs La/F;->x<i>:I, n method refs La/F;->x<i>()V, n strings
                 !<i>. They are referenced by nothing; they move the indices of the model's items up (>= 0x8000, ...).
                 index_report(model, dexfiles) gives the pool index every reference instruction ends up with.
      'renames': [['f', cls, name, type, new], ['m', cls, name, ret, [params], new], ...]
                 a history, part of the case: renames to perform (EncodedField/EncodedMethod.set_name) after the files were
                 added to the Analysis and before create_xref(); the new names are fresh (used by nothing else).
                 vf.checks._xref applies them to the loaded files and to the expectation.

The oracle is `sites(model)`: for every method with code the list of (byte offset, opcode, kind, target) of its
reference-carrying instructions; offsets come from vf.gen.asm (instruction sizes from vf.gen.dalvik_spec), never from
androguard. `build(model)` writes one DEX per part with vf.gen.dexgen; pool indices are resolved per DEX at build
time, so the same class has the same code offsets in every split.

Keys:  method key = (class, name, ret, (params...));  field key = (class, name, type).

Strategies:  models(max_classes=5, max_dex=4, max_sites=10, array_invokes=True, profile='mixed', min_dex=1)
    2..max_classes classes `Lp/C<i>;` (+ `Lq/D$1;`), some interfaces / abstract / native members, superclass Object, an
    external class or an earlier internal class (so that "inherited, undefined here" member references exist), split
    over min_dex..max_dex DEX files (every file non-empty). Bodies: 2..max_sites sites + up to 3 repeats of earlier
    sites at later offsets. Targets: defined members of any class (own / other / other DEX), undefined members of internal
    classes (inherited, other overload, other field type, missing), external members, array receivers ('[I', '[[J',
    '[Lp/C0;', ...; switched off with array_invokes=False), array / internal / external types for the type users.
    Field opcodes follow the field's kind and type, so the ten field types x static/instance x read/write reach all 28.
    About 1 site in 16..25 (profile dependent) is a ['mid', v] payload in the middle of the code, so that roughly half of the
    models have reference instructions located behind a payload (payload_labels() measures it).
    profile ('mixed' | 'invokes' | 'fields' | 'strings') multiplies the weight of one instruction family.
large_models(profile, array_invokes): a single-DEX model plus a 'bulk' plan that puts a drawn referenced item of each pool on
    an index boundary (0x7fff / 0x8000 / 0x8001; in half of the cases one pool is filled up to 0xfffe / 0xffff (types: 0xfffd /
    0xfffe, a DEX file has at most 65535 type_ids), strings also
    to 0x10000 with const-string turned into const-string/jumbo where the index no longer fits 16 bits).
with_renames(models): adds a drawn 'renames' history (1..4 renames of defined fields and non-constructor methods).
normalize(model): undo the tuple -> list conversion of a JSON round trip.
"""
import bisect

from hypothesis import strategies as st

from vf.gen import asm
from vf.gen import dalvik_spec as ds
from vf.gen import dexgen as G

OBJ = 'Ljava/lang/Object;'
STR = 'Ljava/lang/String;'

FIELD_TYPES = ['I', 'J', STR, 'Z', 'B', 'C', 'S', '[I', 'F', 'D']
_VARIANT = {'I': 0, 'F': 0, 'J': 1, 'D': 1, 'L': 2, '[': 2, 'Z': 3, 'B': 4, 'C': 5, 'S': 6}
PROTOS = [('V', ()), ('V', ('I',)), ('I', ()), ('V', ('J',)), (OBJ, ()), ('V', ('I', STR)), ('Z', (OBJ,)),
          (STR, ()), ('J', ('I',))]
OBJECT_METHODS = [('hashCode', 'I', ()), ('toString', STR, ()), ('equals', 'Z', (OBJ,)), ('getClass', 'Ljava/lang/Class;', ()),
                  ('clone', OBJ, ())]
EXT_CLASSES = ['Lext/E0;', 'Lext/Base;', OBJ, 'Ljava/lang/StringBuilder;', 'Lext/Iface;']
EXT_METHODS = [(OBJ, '<init>', 'V', ()), ('Lext/E0;', 'e0', 'V', ()), ('Lext/E0;', 'e0', 'V', ('I',)),
               ('Lext/E0;', 'm0', 'V', ()), ('Lext/Base;', 'm0', 'V', ()), ('Lext/Base;', '<init>', 'V', ()),
               ('Ljava/lang/StringBuilder;', 'append', 'Ljava/lang/StringBuilder;', (STR,)),
               ('Lext/Iface;', 'run', 'V', ()), (OBJ, 'hashCode', 'I', ())]
EXT_FIELDS = [('Lext/E0;', 'f0', 'I'), ('Lext/E0;', 'ef', STR), ('Ljava/lang/System;', 'out', 'Ljava/io/PrintStream;'),
              ('Lext/Base;', 'f0', 'J'), ('Lext/Base;', 'g', 'Z')]
STRINGS = ['hello', 'a', '', 'Lp/C0;', 'm0', 'f0', 'xé中', 'hello world', 'I', '\u0000z', 'never']


def field_opcode(static, write, ftype):
    """The one opcode among the 28 that matches (static?, read/write, value type)."""
    return (0x60 if static else 0x52) + (7 if write else 0) + _VARIANT[ftype[0]]


def mkey(c, m):
    return (c['name'], m['name'], m['ret'], tuple(m['params']))


def words(params):
    return sum(2 if p in ('J', 'D') else 1 for p in params)


# ------------------------------------------------------------------------------------------ assembling one body
_PADS = [
    lambda: asm.Ins('nop'),
    lambda: asm.Ins('const/4', A=0, B=1),
    lambda: asm.Ins('const/16', AA=1, BBBB=-3),
    lambda: asm.Ins('const', AA=2, BBBBBBBB=0x12345),
    lambda: asm.Ins('const-wide', AA=2, BBBBBBBBBBBBBBBB=0x1122334455),
    lambda: asm.Ins('move-result', AA=0),
]


def _invoke_ins(op, nwords, idx):
    if ds.OPCODES[op].fmt == '3rc':
        return asm.Ins(op, AA=nwords, CCCC=0, BBBB=idx)
    regs = dict(zip('CDEFG', range(nwords)))
    return asm.Ins(op, A=nwords, BBBB=idx, **regs)


def _items(method, ix):
    """-> (asm items, [site index or None per item]). ix=None assembles with index 0 everywhere (sizes only)."""
    s = (lambda x: ix.s(x)) if ix else (lambda x: 0)
    t = (lambda x: ix.t(x)) if ix else (lambda x: 0)
    f = (lambda *a: ix.f(*a)) if ix else (lambda *a: 0)
    m = (lambda *a: ix.m(*a)) if ix else (lambda *a: 0)
    items, src = [], []
    tail = []

    def emit(it, k):
        items.append(it)
        src.append(k)
    for k, site in enumerate(method['body']):
        kind = site[0]
        if kind == 'inv':
            op, cls, name, ret, params = site[1], site[2], site[3], site[4], site[5]
            n = words(params) + (0 if ds.invoke_kind(op) == 'static' else 1)
            emit(_invoke_ins(op, n, m(cls, name, ret, params)), k)
        elif kind == 'fld':
            op, cls, name, ftype = site[1], site[2], site[3], site[4]
            if ds.field_access(op)[0] == 'static':
                emit(asm.Ins(op, AA=0, BBBB=f(cls, name, ftype)), k)
            else:
                emit(asm.Ins(op, A=0, B=1, CCCC=f(cls, name, ftype)), k)
        elif kind == 'str':
            if site[1] == 0x1a:
                emit(asm.Ins(0x1a, AA=0, BBBB=s(site[2])), k)
            else:
                emit(asm.Ins(0x1b, AA=0, BBBBBBBB=s(site[2])), k)
        elif kind == 'new':
            emit(asm.Ins('new-instance', AA=0, BBBB=t(site[1])), k)
        elif kind == 'cls':
            emit(asm.Ins('const-class', AA=0, BBBB=t(site[1])), k)
        elif kind == 'cast':
            emit(asm.Ins('check-cast', AA=0, BBBB=t(site[1])), k)
        elif kind == 'iof':
            emit(asm.Ins('instance-of', A=0, B=1, CCCC=t(site[1])), k)
        elif kind == 'narr':
            emit(asm.Ins('new-array', A=0, B=1, CCCC=t(site[1])), k)
        elif kind == 'farr':
            emit(_invoke_ins(site[1], 2, t(site[2])), k)
        elif kind == 'pad':
            emit(_PADS[site[1]](), k)
        elif kind == 'br':
            lab = 'L%d' % k
            emit(asm.Ins('if-eqz', AA=0, target=lab), k)
            emit(asm.Label(lab), None)
        elif kind == 'fill':
            lab = 'P%d' % k
            emit(asm.Ins('fill-array-data', AA=0, target=lab), k)
            tail.append(asm.Label(lab))
            tail.append(asm.FillArrayPayload(2, [1, 2, 0x6e, 0x1a22, 0x52]))   # data that looks like opcodes
        elif kind == 'mid':
            plab, after = 'M%d' % k, 'A%d' % k
            emit(asm.Ins(('fill-array-data', 'packed-switch', 'sparse-switch')[site[1]], AA=0, target=plab), k)
            emit(asm.Goto(after), k)
            emit(asm.Label(plab), None)
            if site[1] == 0:
                emit(asm.FillArrayPayload(2, [0x6e, 0x1a22, 0x52]), k)          # data that looks like opcodes
            elif site[1] == 1:
                emit(asm.PackedSwitchPayload(0, [after, after]), k)
            else:
                emit(asm.SparseSwitchPayload([-1, 0x7122], [after, after]), k)
            emit(asm.Label(after), None)
        else:
            raise ValueError(site)
    r = method['ret']
    if r == 'V':
        emit(asm.Ins('return-void'), None)
    elif r in ('J', 'D'):
        emit(asm.Ins('return-wide', AA=2), None)
    elif r[0] in 'L[':
        emit(asm.Ins('return-object', AA=0), None)
    else:
        emit(asm.Ins('return', AA=0), None)
    for it in tail:
        emit(it, None)
    return items, src


def assemble(method, ix=None):
    items, src = _items(method, ix)
    return asm.assemble(items), src


def method_sites(method):
    """[(byte offset, opcode, kind, target)] of the reference-carrying instructions of one body, in program order.
    kind/target: 'inv' method key | 'fld' field key | 'str' value | 'new'/'cls'/'cast'/'iof'/'narr'/'farr' type."""
    a, src = assemble(method)
    out = []
    for e in a.items:
        if e.kind != 'ins' or e.index >= len(src) or src[e.index] is None:
            continue
        site = method['body'][src[e.index]]
        kind = site[0]
        if kind == 'inv':
            out.append((e.offset, e.op, 'inv', (site[2], site[3], site[4], tuple(site[5]))))
        elif kind == 'fld':
            out.append((e.offset, e.op, 'fld', (site[2], site[3], site[4])))
        elif kind == 'str':
            out.append((e.offset, e.op, 'str', site[2]))
        elif kind in ('new', 'cls', 'cast', 'iof', 'narr'):
            out.append((e.offset, e.op, kind, site[1]))
        elif kind == 'farr':
            out.append((e.offset, e.op, kind, site[2]))
    return out


def sites(model):
    """{method key: [(byte offset, opcode, kind, target)]} for every method that has code."""
    out = {}
    for c in model['classes']:
        for m in c['methods']:
            if m['code']:
                out[mkey(c, m)] = method_sites(m)
    return out


# ------------------------------------------------------------------------------------------ model -> DEX files
def _refs(method):
    refs = []
    for site in method['body']:
        k = site[0]
        if k == 'inv':
            refs.append(('m', site[2], site[3], site[4], tuple(site[5])))
        elif k == 'fld':
            refs.append(('f', site[2], site[3], site[4]))
        elif k == 'str':
            refs.append(('s', site[2]))
        elif k in ('new', 'cls', 'cast', 'iof', 'narr'):
            refs.append(('t', site[1]))
        elif k == 'farr':
            refs.append(('t', site[2]))
    return refs


def _gclass(c):
    sf = [G.Field(n, t, 0x9) for (n, t, s) in c['fields'] if s]
    inf = [G.Field(n, t, 0x1) for (n, t, s) in c['fields'] if not s]
    dm, vm = [], []
    abstract = False
    for m in c['methods']:
        params = tuple(m['params'])
        code = None
        if m['code']:
            ins = words(params) + (0 if m['kind'] == 'static' else 1)
            code = G.Code(8 + ins, ins, 5, (lambda ix, m=m: assemble(m, ix)[0].code), refs=_refs(m))
        if m['kind'] == 'static':
            acc = 0x9 | (0x10000 if m['name'] == '<clinit>' else 0)
        elif m['kind'] == 'direct':
            acc = 0x10001 if m['name'] == '<init>' else 0x2
        else:
            acc = 0x1
        if code is None:
            if m['kind'] == 'virtual':
                acc |= 0x400
                abstract = True
            else:
                acc |= 0x100
        (vm if m['kind'] == 'virtual' else dm).append(G.Method(m['name'], m['ret'], params, acc, code))
    acc = 0x601 if c['iface'] else (0x401 if abstract else 0x1)
    return G.Class(c['name'], acc, c['super'], interfaces=c['interfaces'], sfields=sf, ifields=inf, dmethods=dm, vmethods=vm)


BULK_CLASS = 'La/F;'


def bulk_refs(bulk):
    """extra_refs of the filler pool entries of a 'bulk' plan; every filler sorts in front of the items a model can
    reference from code (types La/.. < Lext/ Ljava/ Lp/ Lq/ [..; members of La/F; first; strings '!..' < every model
    string except '' and '\\0z')."""
    bulk = bulk or {}
    refs = [('t', 'La/T%05d;' % i) for i in range(bulk.get('t', 0))]
    refs += [('f', BULK_CLASS, 'x%05d' % i, 'I') for i in range(bulk.get('f', 0))]
    refs += [('m', BULK_CLASS, 'x%05d' % i, 'V', ()) for i in range(bulk.get('m', 0))]
    refs += [('s', '!%05d' % i) for i in range(bulk.get('s', 0))]
    return refs


def build(model, single=False, bulk=True):
    """-> [(dex bytes, DexFile)] one per part (part d holds the classes with c['dex'] == d); single=True puts
    every class in one file. bulk=False leaves the model's filler pool entries out (index planning)."""
    parts = {}
    for c in model['classes']:
        parts.setdefault(0 if single else c['dex'], []).append(c)
    extra = bulk_refs(model.get('bulk')) if bulk else []
    out = []
    for d in sorted(parts):
        df = G.DexFile([_gclass(c) for c in parts[d]], extra_refs=extra)
        out.append((df.build(), df))
    return out


def _site_index(ix, site):
    k = site[0]
    if k == 'inv':
        return 'm', ix.m(site[2], site[3], site[4], tuple(site[5]))
    if k == 'fld':
        return 'f', ix.f(site[2], site[3], site[4])
    if k == 'str':
        return 's', ix.s(site[2])
    if k in ('new', 'cls', 'cast', 'iof', 'narr'):
        return 't', ix.t(site[1])
    if k == 'farr':
        return 't', ix.t(site[2])
    return None


def index_class(i):
    return ('<0x7fff' if i < 0x7fff else '0x7fff' if i == 0x7fff else '0x8000' if i == 0x8000 else
            '0x8001..0xfffe' if i < 0xffff else '0xffff' if i == 0xffff else '>=0x10000')


def index_report(model, dexfiles):
    """[(site kind, opcode format, pool, index)] of every reference instruction, with the index the writer gave it
    (dexfiles = the DexFile objects returned by build(model), in part order)."""
    parts = sorted({c['dex'] for c in model['classes']})
    out = []
    for c in model['classes']:
        ix = dexfiles[parts.index(c['dex']) if len(dexfiles) > 1 else 0].ix
        for m in c['methods']:
            if not m['code']:
                continue
            for site in m['body']:
                r = _site_index(ix, site)
                if r is not None:
                    op = site[1] if site[0] in ('inv', 'fld', 'str', 'farr') else \
                        {'new': 0x22, 'cls': 0x1c, 'cast': 0x1f, 'iof': 0x20, 'narr': 0x23}[site[0]]
                    out.append((site[0], ds.OPCODES[op].fmt, r[0], r[1]))
    return out


def index_labels(model, dexfiles):
    """labels 'idx:<kind>:<fmt>:<index class>' for a bulk model (what the large-pool generator really produced)."""
    return sorted({'idx:%s:%s:%s' % (k, fmt, index_class(i)) for (k, fmt, _, i) in index_report(model, dexfiles)})


def payload_labels(model, kinds=('inv', 'fld', 'str', 'new', 'cls')):
    """labels for payloads that are not last in the code: 'payload-mid', 'payload-mid:<fill|packed|sparse>' and
    'payload-mid:then-<kind>' when an instruction of that kind is located behind such a payload in the same method."""
    labels = set()
    for c in model['classes']:
        for m in c['methods']:
            seen = False
            for site in m['body'] if m['code'] else ():
                if site[0] == 'mid':
                    seen = True
                    labels.add('payload-mid')
                    labels.add('payload-mid:' + ('fill', 'packed', 'sparse')[site[1]])
                elif seen and site[0] in kinds:
                    labels.add('payload-mid:then-' + site[0])
    return labels


# ------------------------------------------------------------------------------------------ expectations
def defined_methods(model):
    return {mkey(c, m) for c in model['classes'] for m in c['methods']}


def defined_fields(model):
    return {(c['name'], f[0], f[1]) for c in model['classes'] for f in c['fields']}


def internal_classes(model):
    return {c['name'] for c in model['classes']}


def dex_of(model):
    return {c['name']: c['dex'] for c in model['classes']}


def is_array(t):
    return t.startswith('[')


# ------------------------------------------------------------------------------------------ strategies
def _uniq(seq, key):
    seen, out = set(), []
    for x in seq:
        k = key(x)
        if k not in seen:
            seen.add(k)
            out.append(x)
    return out


@st.composite
def structures(draw, max_classes=5, max_dex=4, min_dex=1):
    """class / field / method skeleton (bodies empty)."""
    ncls = draw(st.integers(2, max_classes))
    ndex = draw(st.sampled_from([d for d in (1, 1, 2, 2, 2, 3, 3, 4) if min_dex <= d <= min(max_dex, ncls)]))
    perm = draw(st.permutations(list(range(ncls))))
    dexno = {}
    for pos, ci in enumerate(perm):
        dexno[ci] = pos if pos < ndex else draw(st.integers(0, ndex - 1))
    classes = []
    for ci in range(ncls):
        name = 'Lp/C%d;' % ci if ci != 3 else 'Lq/D$1;'
        earlier = [c['name'] for c in classes if not c['iface']]
        ifaces_avail = [c['name'] for c in classes if c['iface']]
        iface = draw(st.integers(0, 5)) == 0
        sup = OBJ if iface else draw(st.sampled_from([OBJ, 'Lext/Base;'] + earlier + earlier))
        interfaces = []
        if ifaces_avail and draw(st.booleans()):
            interfaces.append(draw(st.sampled_from(ifaces_avail)))
        if draw(st.integers(0, 5)) == 0:
            interfaces.append('Lext/Iface;')
        fields = []
        if not iface:
            fl = draw(st.lists(st.tuples(st.sampled_from(['f0', 'f1', 'g']), st.sampled_from(FIELD_TYPES), st.booleans()),
                               max_size=4))
            fields = [list(f) for f in _uniq(fl, lambda f: (f[0], f[1]))]
        nm = draw(st.integers(1, 3))
        methods = []
        for _ in range(nm):
            shape = draw(st.integers(0, 9))
            if iface:
                nme = draw(st.sampled_from(['m0', 'm1', 'run']))
                ret, params = draw(st.sampled_from(PROTOS))
                meth = {'name': nme, 'ret': ret, 'params': list(params), 'kind': 'virtual', 'code': False, 'body': []}
            elif shape == 0:
                meth = {'name': '<init>', 'ret': 'V', 'params': list(draw(st.sampled_from([(), ('I',)]))),
                        'kind': 'direct', 'code': True, 'body': []}
            elif shape == 1:
                meth = {'name': '<clinit>', 'ret': 'V', 'params': [], 'kind': 'static', 'code': True, 'body': []}
            elif shape == 2:
                nme, ret, params = draw(st.sampled_from(OBJECT_METHODS[:3]))
                meth = {'name': nme, 'ret': ret, 'params': list(params), 'kind': 'virtual', 'code': True, 'body': []}
            else:
                nme = draw(st.sampled_from(['m0', 'm0', 'm1', 'm2']))
                ret, params = draw(st.sampled_from(PROTOS))
                kind = draw(st.sampled_from(['static', 'direct', 'virtual', 'virtual']))
                code = draw(st.integers(0, 7)) != 0
                meth = {'name': nme, 'ret': ret, 'params': list(params), 'kind': kind, 'code': code, 'body': []}
            methods.append(meth)
        methods = _uniq(methods, lambda m: (m['name'], m['ret'], tuple(m['params'])))
        if not any(m['code'] for m in methods) and not iface:
            methods.append({'name': 'main', 'ret': 'V', 'params': [], 'kind': 'static', 'code': True, 'body': []})
        classes.append({'name': name, 'dex': dexno[ci], 'super': sup, 'interfaces': interfaces, 'iface': iface,
                        'fields': fields, 'methods': methods})
    if not any(m['code'] for c in classes for m in c['methods']):
        classes[0]['iface'] = False
        classes[0]['methods'].append({'name': 'main', 'ret': 'V', 'params': [], 'kind': 'static', 'code': True, 'body': []})
    return {'ndex': ndex, 'classes': classes}


def _pools(model):
    """candidate targets derived from the skeleton."""
    cls = {c['name']: c for c in model['classes']}
    dm = []             # (key, kind) of defined methods
    for c in model['classes']:
        for m in c['methods']:
            dm.append((mkey(c, m), 'interface' if c['iface'] else m['kind']))
    defined = {k for (k, _) in dm}
    undefined_m = []
    for c in model['classes']:
        # inherited: defined in an internal ancestor, not here
        s = c['super']
        while s in cls:
            for m in cls[s]['methods']:
                k = (c['name'], m['name'], m['ret'], tuple(m['params']))
                if k not in defined and m['name'] not in ('<clinit>',):
                    undefined_m.append(k)
            s = cls[s]['super']
        for (n, r, p) in OBJECT_METHODS[:3] + [('missing', 'V', ())]:
            k = (c['name'], n, r, tuple(p))
            if k not in defined:
                undefined_m.append(k)
        # same name, other descriptor than a defined overload
        for m in c['methods']:
            k = (c['name'], m['name'], 'V', ('I', STR))
            if k not in defined and not m['name'].startswith('<'):
                undefined_m.append(k)
    df = [((c['name'], f[0], f[1]), f[2]) for c in model['classes'] for f in c['fields']]
    definedf = {k for (k, _) in df}
    undefined_f = []
    for c in model['classes']:
        s = c['super']
        while s in cls:
            for f in cls[s]['fields']:
                k = (c['name'], f[0], f[1])
                if k not in definedf:
                    undefined_f.append((k, f[2]))
            s = cls[s]['super']
        for f in c['fields']:
            # same name, other type
            for t in ('I', 'J'):
                k = (c['name'], f[0], t)
                if k not in definedf:
                    undefined_f.append((k, f[2]))
        k = (c['name'], 'nofield', 'I')
        undefined_f.append((k, False))
    names = [c['name'] for c in model['classes']]
    arrays = ['[I', '[[J', '[' + STR, '[Lext/E0;'] + ['[' + n for n in names] + ['[[' + names[0]]
    return dict(dm=dm, undefined_m=undefined_m, df=df, undefined_f=undefined_f, names=names, arrays=arrays)


PROFILES = {'mixed': {}, 'invokes': {'inv': 3}, 'fields': {'fld': 3}, 'strings': {'str': 3, 'cls': 3}}


def _site_strategy(model, owner, pools, array_invokes=True, profile='mixed'):
    names, arrays = pools['names'], pools['arrays']
    others = [n for n in names if n != owner] or names
    rng = st.booleans()

    def inv(key, kind, r):
        if kind == 'static':
            base = 0x71
        elif kind == 'direct':
            base = 0x70
        elif kind == 'interface':
            base = 0x72
        else:
            base = kind       # already an opcode base
        return ['inv', base + (6 if r else 0), key[0], key[1], key[2], list(key[3])]

    vkind = st.sampled_from([0x6e, 0x6e, 0x6f, 0x72])
    anykind = st.sampled_from([0x6e, 0x6f, 0x70, 0x71, 0x72])
    parts = []
    # -- invokes
    if pools['dm']:
        parts.append(('inv', 6, st.tuples(st.sampled_from(pools['dm']), vkind, rng).map(
            lambda t: inv(t[0][0], t[1] if t[0][1] == 'virtual' else t[0][1], t[2]))))
    if pools['undefined_m']:
        parts.append(('inv', 2, st.tuples(st.sampled_from(pools['undefined_m']), anykind, rng).map(lambda t: inv(t[0], t[1], t[2]))))
    parts.append(('inv', 3, st.tuples(st.sampled_from(EXT_METHODS), anykind, rng).map(lambda t: inv(t[0], t[1], t[2]))))
    arr_m = [(a, n, r, p) for a in arrays for (n, r, p) in OBJECT_METHODS]
    if array_invokes:
        parts.append(('inv', 2, st.tuples(st.sampled_from(arr_m), st.sampled_from([0x6e, 0x6e, 0x6f]), rng).map(lambda t: inv(t[0], t[1], t[2]))))
    # -- fields
    wr = st.booleans()
    if pools['df']:
        parts.append(('fld', 6, st.tuples(st.sampled_from(pools['df']), wr).map(
            lambda t: ['fld', field_opcode(t[0][1], t[1], t[0][0][2])] + list(t[0][0]))))
    parts.append(('fld', 2, st.tuples(st.sampled_from(pools['undefined_f']), wr).map(
        lambda t: ['fld', field_opcode(t[0][1], t[1], t[0][0][2])] + list(t[0][0]))))
    parts.append(('fld', 2, st.tuples(st.sampled_from(EXT_FIELDS), st.booleans(), wr).map(
        lambda t: ['fld', field_opcode(t[1], t[2], t[0][2])] + list(t[0]))))
    # -- strings
    parts.append(('str', 5, st.tuples(st.sampled_from([0x1a, 0x1a, 0x1b]), st.sampled_from(STRINGS[:-1])).map(lambda t: ['str', t[0], t[1]])))
    # -- class users
    cls_targets = st.one_of(st.sampled_from(others), st.sampled_from(names), st.sampled_from(EXT_CLASSES))
    parts.append(('cls', 4, cls_targets.map(lambda t: ['new', t])))
    parts.append(('cls', 4, st.one_of(cls_targets, st.sampled_from(arrays)).map(lambda t: ['cls', t])))
    anytype = st.one_of(cls_targets, st.sampled_from(arrays))
    parts.append(('noise', 1, st.tuples(st.sampled_from(['cast', 'iof']), anytype).map(list)))
    parts.append(('noise', 1, st.sampled_from(arrays).map(lambda t: ['narr', t])))
    parts.append(('noise', 1, st.tuples(st.sampled_from([0x24, 0x25]), st.sampled_from(arrays)).map(lambda t: ['farr', t[0], t[1]])))
    # -- fillers
    parts.append(('pad', 4, st.integers(0, 5).map(lambda k: ['pad', k])))
    parts.append(('pad', 1, st.just(['br'])))
    parts.append(('pad', 1, st.just(['fill'])))
    parts.append(('pad', 3, st.integers(0, 2).map(lambda v: ['mid', v])))
    # weighted choice of a branch (one_of() drops duplicate branches, so weights go through an index draw)
    mult = PROFILES[profile]
    branches = [strat for (_, _, strat) in parts]
    index = []
    for i, (g, w, _) in enumerate(parts):
        index.extend([i] * (w * mult.get(g, 1)))
    return st.sampled_from(index).flatmap(lambda i: branches[i])


@st.composite
def _body(draw, site, max_sites):
    body = draw(st.lists(site, min_size=2, max_size=max_sites))
    # repeats: the same reference again at later offsets
    nrep = draw(st.integers(0, 3))
    for _ in range(nrep):
        refs = [s for s in body if s[0] not in ('pad', 'br', 'fill', 'mid')]
        if not refs:
            break
        s = draw(st.sampled_from(refs))
        pos = draw(st.integers(0, len(body)))
        body.insert(pos, list(s))
    return body


@st.composite
def models(draw, max_classes=5, max_dex=4, max_sites=10, array_invokes=True, profile='mixed', min_dex=1):
    model = draw(structures(max_classes, max_dex, min_dex))
    pools = _pools(model)
    for c in model['classes']:
        site = _site_strategy(model, c['name'], pools, array_invokes, profile)
        for m in c['methods']:
            if m['code']:
                m['body'] = draw(_body(site, max_sites))
    return model


# ------------------------------------------------------------------------------------------ rename histories
def renamable(model):
    """(field renames, method renames) that a history may contain: every defined field; every defined method except
    constructors / class initialisers."""
    fl = [['f', c['name'], f[0], f[1]] for c in model['classes'] for f in c['fields']]
    ml = [['m', c['name'], m['name'], m['ret'], list(m['params'])] for c in model['classes'] for m in c['methods']
          if not m['name'].startswith('<')]
    return fl, ml


@st.composite
def with_renames(draw, model_strategy, methods=True):
    """model + 'renames': 1..4 distinct items, fields twice as likely as methods, new names r0, r1, .. (fresh)."""
    model = draw(model_strategy)
    fl, ml = renamable(model)
    pool = fl + fl + (ml if methods else [])
    if not pool:
        return model
    picks = draw(st.lists(st.sampled_from(pool), min_size=1, max_size=4, unique_by=repr))
    model['renames'] = [list(p) + ['r%d' % i] for i, p in enumerate(picks)]
    return model


# ------------------------------------------------------------------------------------------ large pools
def _filler_strings(bulk):
    out = ['La/T%05d;' % i for i in range(bulk.get('t', 0))]
    out += ['x%05d' % i for i in range(max(bulk.get('f', 0), bulk.get('m', 0)))]
    out += ['!%05d' % i for i in range(bulk.get('s', 0))]
    return out


def plan_bulk(model, wants):
    """Turn `wants` = {'t'|'f'|'m'|'s': (pick, B)} into filler counts (model['bulk']) such that, in the single DEX file
    of the model, the pick-th (mod n) item of that pool that the code references gets index B (its pool neighbours B-1,
    B+1, ..); pick = -1: the LAST item of the whole pool gets index B (so B = 0xffff fills the 16-bit index space exactly;
    the type pool is capped at the format's limit of 65535 entries, i.e. last index 0xfffe).
    Returns the model (changed in place): const-string sites whose string index no longer fits 16 bits become
    const-string/jumbo. Every pool gets at least one filler (the auxiliary items La/F;, I, V are then always present);
    a target that cannot be met (B below the index the item has anyway) is ignored."""
    assert model['ndex'] == 1
    probe = {'t': 1, 'f': 1, 'm': 1, 's': 1}
    model['bulk'] = probe
    df = build(model)[0][1]
    ix = df.ix
    used = {'t': set(), 'f': set(), 'm': set(), 's': set()}
    for c in model['classes']:
        for m in c['methods']:
            for site in m['body'] if m['code'] else ():
                r = _site_index(ix, site)
                if r is not None:
                    used[r[0]].add(r[1])
    size = {'t': len(df.types), 'f': len(df.fields), 'm': len(df.methods)}
    counts = dict(probe)
    for pool in ('t', 'f', 'm'):
        if pool in wants:
            pick, B = wants[pool]
            cand = sorted(used[pool])
            if pick < 0 or not cand:
                at = size[pool] - 1
            else:
                at = cand[pick % len(cand)]
            counts[pool] = max(1, 1 + B - at)
    counts['t'] = min(counts['t'], 65535 - (size['t'] - 1))       # type_ids_size is at most 65535 (DEX format)
    value_at = {i: v for v, i in ix.sidx.items()}
    probe_units = [G.units(f) for f in _filler_strings(probe)]

    def plain_index(v):                         # index among the non-filler strings
        return ix.s(v) - sum(1 for f in probe_units if f < G.units(v))
    if 's' in wants:
        pick, B = wants['s']
        cand = sorted(i for i in used['s'] if G.units(value_at[i]) > G.units('!99999'))
        if cand:
            value = value_at[cand[-1] if pick < 0 else cand[pick % len(cand)]]
            others = dict(counts, s=0)
            before = sum(1 for f in _filler_strings(others) if G.units(f) < G.units(value))
            counts['s'] = max(1, B - plain_index(value) - before)
    model['bulk'] = counts
    # const-string needs a 16-bit index
    fu = sorted(G.units(f) for f in _filler_strings(counts))
    final = {}
    for c in model['classes']:
        for m in c['methods']:
            for site in m['body'] if m['code'] else ():
                if site[0] == 'str' and site[1] == 0x1a:
                    v = site[2]
                    if v not in final:
                        final[v] = plain_index(v) + bisect.bisect_left(fu, G.units(v))
                    if final[v] > 0xffff:
                        site[1] = 0x1b
    return model


NEAR_HALF = [0x7fff, 0x8000, 0x8000, 0x8001]


@st.composite
def large_models(draw, profile='mixed', array_invokes=True, max_sites=10):
    """single-DEX model + bulk plan: every pool gets 'a drawn referenced item on 0x7fff / 0x8000 / 0x8001'; in half of the
    cases ONE pool (drawn) is filled up to the end of the 16-bit index space instead: its last item on 0xfffe / 0xffff,
    for strings a drawn loaded string on 0xfffe / 0xffff / 0x10000 (const-string/jumbo territory)."""
    model = draw(models(max_classes=4, max_dex=1, max_sites=max_sites, array_invokes=array_invokes, profile=profile))
    high = draw(st.sampled_from([None, None, None, None, 't', 'f', 'm', 's']))
    wants = {}
    for pool in ('t', 'f', 'm', 's'):
        if pool != high:
            wants[pool] = (draw(st.integers(0, 7)), draw(st.sampled_from(NEAR_HALF)))
        elif pool == 's':
            wants[pool] = (draw(st.integers(0, 7)), draw(st.sampled_from([0xfffe, 0xffff, 0x10000])))
        elif pool == 't':
            wants[pool] = (-1, draw(st.sampled_from([0xfffd, 0xfffe])))         # at most 65535 type_ids in a DEX file
        else:
            wants[pool] = (-1, draw(st.sampled_from([0xfffe, 0xffff])))
    return plan_bulk(model, wants)


def normalize(model):
    """Bring a model that went through JSON (tuples -> lists) back into generator form (idempotent)."""
    out = {'ndex': int(model['ndex']), 'classes': []}
    if model.get('bulk'):
        out['bulk'] = {k: int(v) for k, v in model['bulk'].items()}
    if model.get('renames'):
        out['renames'] = [[list(x) if isinstance(x, (list, tuple)) else x for x in r] for r in model['renames']]
    for c in model['classes']:
        out['classes'].append({
            'name': c['name'], 'dex': int(c['dex']), 'super': c['super'], 'interfaces': list(c['interfaces']),
            'iface': bool(c['iface']), 'fields': [[f[0], f[1], bool(f[2])] for f in c['fields']],
            'methods': [{'name': m['name'], 'ret': m['ret'], 'params': list(m['params']), 'kind': m['kind'],
                         'code': bool(m['code']),
                         'body': [[list(x) if isinstance(x, (list, tuple)) else x for x in s] for s in m['body']]}
                        for m in c['methods']]})
    return out
