"""Cross-reference program generator for C13 / C14 / C15 / C16 (no androguard import).

A *model* is a plain JSON-able dict (lists, strings, ints only), so that it can be stored in a replay file:

    {'ndex': k,                                  number of DEX files the class set is split into (1..4)
     'classes': [ {'name': 'Lp/C0;', 'dex': 0, 'super': 'Ljava/lang/Object;', 'interfaces': [...],
                   'iface': bool, 'fields': [[name, type, is_static], ...],
                   'methods': [ {'name', 'ret', 'params': [...], 'kind': 'static'|'direct'|'virtual',
                                 'code': bool, 'body': [site, ...]} ]} ]}

    site (one instruction of the body, in program order):
      ['inv', opcode, cls, name, ret, [params]]     invoke-kind {..}, meth     (0x6e..0x72 35c, 0x74..0x78 3rc)
      ['fld', opcode, cls, name, type]              iget*/iput*/sget*/sput*    (0x52..0x6d)
      ['str', opcode, value]                        const-string (0x1a) / const-string/jumbo (0x1b)
      ['new', type]  ['cls', type]                  new-instance / const-class
      ['cast', type] ['iof', type] ['narr', type] ['farr', opcode, type]
                                                    check-cast / instance-of / new-array / filled-new-array(/range):
                                                    type users that are NOT class xref sources
      ['pad', k]                                    filler of 1, 1, 2, 3 or 5 code units (k = 0..4), k = 5 move-result
      ['br']                                        if-eqz v0 to the next instruction (2 units)
      ['fill']                                      fill-array-data v0 with its payload after the return
    Every body is terminated by the return matching `ret` (then the payloads).

The oracle is `sites(model)`: for every method with code the list of (byte offset, opcode, kind, target) of its
reference-carrying instructions; offsets come from vf.gen.asm (instruction sizes from vf.gen.dalvik_spec), never from
androguard. `build(model)` writes one DEX per part with vf.gen.dexgen; pool indices are resolved per DEX at build
time, so the same class has the same code offsets in every split.

Keys:  method key = (class, name, ret, (params...));  field key = (class, name, type).

Strategies:  models(max_classes=5, max_dex=4, max_sites=10, array_invokes=True, profile='mixed', min_dex=1)
    2..max_classes classes `Lp/C<i>;` (+ `Lq/D$1;`), some interfaces / abstract / native members, superclass Object, an
    external class or an earlier internal class (so that "inherited, undefined here" member references exist), split
    over min_dex..max_dex DEX files (every file non-empty). Bodies: 2..max_sites sites + up to 3 repeats of earlier
    sites at later offsets. Targets: defined members of any class (own / other / other DEX), undefined members of internal
    classes (inherited, other overload, other field type, missing), external members, array receivers ('[I', '[[J',
    '[Lp/C0;', ...; switched off with array_invokes=False), array / internal / external types for the type users.
    Field opcodes follow the field's kind and type, so the ten field types x static/instance x read/write reach all 28.
    profile ('mixed' | 'invokes' | 'fields' | 'strings') multiplies the weight of one instruction family.
normalize(model): undo the tuple -> list conversion of a JSON round trip.
"""
from hypothesis import strategies as st

from vf.gen import asm
from vf.gen import dalvik_spec as ds
from vf.gen import dexgen as G

OBJ = 'Ljava/lang/Object;'
STR = 'Ljava/lang/String;'

FIELD_TYPES = ['I', 'J', STR, 'Z', 'B', 'C', 'S', '[I', 'F', 'D']
_VARIANT = {'I': 0, 'F': 0, 'J': 1, 'D': 1, 'L': 2, '[': 2, 'Z': 3, 'B': 4, 'C': 5, 'S': 6}
PROTOS = [('V', ()), ('V', ('I',)), ('I', ()), ('V', ('J',)), (OBJ, ()), ('V', ('I', STR)), ('Z', (OBJ,)),
          (STR, ()), ('J', ('I',))]
OBJECT_METHODS = [('hashCode', 'I', ()), ('toString', STR, ()), ('equals', 'Z', (OBJ,)), ('getClass', 'Ljava/lang/Class;', ()),
                  ('clone', OBJ, ())]
EXT_CLASSES = ['Lext/E0;', 'Lext/Base;', OBJ, 'Ljava/lang/StringBuilder;', 'Lext/Iface;']
EXT_METHODS = [(OBJ, '<init>', 'V', ()), ('Lext/E0;', 'e0', 'V', ()), ('Lext/E0;', 'e0', 'V', ('I',)),
               ('Lext/E0;', 'm0', 'V', ()), ('Lext/Base;', 'm0', 'V', ()), ('Lext/Base;', '<init>', 'V', ()),
               ('Ljava/lang/StringBuilder;', 'append', 'Ljava/lang/StringBuilder;', (STR,)),
               ('Lext/Iface;', 'run', 'V', ()), (OBJ, 'hashCode', 'I', ())]
EXT_FIELDS = [('Lext/E0;', 'f0', 'I'), ('Lext/E0;', 'ef', STR), ('Ljava/lang/System;', 'out', 'Ljava/io/PrintStream;'),
              ('Lext/Base;', 'f0', 'J'), ('Lext/Base;', 'g', 'Z')]
STRINGS = ['hello', 'a', '', 'Lp/C0;', 'm0', 'f0', 'xé中', 'hello world', 'I', '\u0000z', 'never']


def field_opcode(static, write, ftype):
    """The one opcode among the 28 that matches (static?, read/write, value type)."""
    return (0x60 if static else 0x52) + (7 if write else 0) + _VARIANT[ftype[0]]


def mkey(c, m):
    return (c['name'], m['name'], m['ret'], tuple(m['params']))


def words(params):
    return sum(2 if p in ('J', 'D') else 1 for p in params)


# ------------------------------------------------------------------------------------------ assembling one body
_PADS = [
    lambda: asm.Ins('nop'),
    lambda: asm.Ins('const/4', A=0, B=1),
    lambda: asm.Ins('const/16', AA=1, BBBB=-3),
    lambda: asm.Ins('const', AA=2, BBBBBBBB=0x12345),
    lambda: asm.Ins('const-wide', AA=2, BBBBBBBBBBBBBBBB=0x1122334455),
    lambda: asm.Ins('move-result', AA=0),
]


def _invoke_ins(op, nwords, idx):
    if ds.OPCODES[op].fmt == '3rc':
        return asm.Ins(op, AA=nwords, CCCC=0, BBBB=idx)
    regs = dict(zip('CDEFG', range(nwords)))
    return asm.Ins(op, A=nwords, BBBB=idx, **regs)


def _items(method, ix):
    """-> (asm items, [site index or None per item]). ix=None assembles with index 0 everywhere (sizes only)."""
    s = (lambda x: ix.s(x)) if ix else (lambda x: 0)
    t = (lambda x: ix.t(x)) if ix else (lambda x: 0)
    f = (lambda *a: ix.f(*a)) if ix else (lambda *a: 0)
    m = (lambda *a: ix.m(*a)) if ix else (lambda *a: 0)
    items, src = [], []
    tail = []

    def emit(it, k):
        items.append(it)
        src.append(k)
    for k, site in enumerate(method['body']):
        kind = site[0]
        if kind == 'inv':
            op, cls, name, ret, params = site[1], site[2], site[3], site[4], site[5]
            n = words(params) + (0 if ds.invoke_kind(op) == 'static' else 1)
            emit(_invoke_ins(op, n, m(cls, name, ret, params)), k)
        elif kind == 'fld':
            op, cls, name, ftype = site[1], site[2], site[3], site[4]
            if ds.field_access(op)[0] == 'static':
                emit(asm.Ins(op, AA=0, BBBB=f(cls, name, ftype)), k)
            else:
                emit(asm.Ins(op, A=0, B=1, CCCC=f(cls, name, ftype)), k)
        elif kind == 'str':
            if site[1] == 0x1a:
                emit(asm.Ins(0x1a, AA=0, BBBB=s(site[2])), k)
            else:
                emit(asm.Ins(0x1b, AA=0, BBBBBBBB=s(site[2])), k)
        elif kind == 'new':
            emit(asm.Ins('new-instance', AA=0, BBBB=t(site[1])), k)
        elif kind == 'cls':
            emit(asm.Ins('const-class', AA=0, BBBB=t(site[1])), k)
        elif kind == 'cast':
            emit(asm.Ins('check-cast', AA=0, BBBB=t(site[1])), k)
        elif kind == 'iof':
            emit(asm.Ins('instance-of', A=0, B=1, CCCC=t(site[1])), k)
        elif kind == 'narr':
            emit(asm.Ins('new-array', A=0, B=1, CCCC=t(site[1])), k)
        elif kind == 'farr':
            emit(_invoke_ins(site[1], 2, t(site[2])), k)
        elif kind == 'pad':
            emit(_PADS[site[1]](), k)
        elif kind == 'br':
            lab = 'L%d' % k
            emit(asm.Ins('if-eqz', AA=0, target=lab), k)
            emit(asm.Label(lab), None)
        elif kind == 'fill':
            lab = 'P%d' % k
            emit(asm.Ins('fill-array-data', AA=0, target=lab), k)
            tail.append(asm.Label(lab))
            tail.append(asm.FillArrayPayload(2, [1, 2, 0x6e, 0x1a22, 0x52]))   # data that looks like opcodes
        else:
            raise ValueError(site)
    r = method['ret']
    if r == 'V':
        emit(asm.Ins('return-void'), None)
    elif r in ('J', 'D'):
        emit(asm.Ins('return-wide', AA=2), None)
    elif r[0] in 'L[':
        emit(asm.Ins('return-object', AA=0), None)
    else:
        emit(asm.Ins('return', AA=0), None)
    for it in tail:
        emit(it, None)
    return items, src


def assemble(method, ix=None):
    items, src = _items(method, ix)
    return asm.assemble(items), src


def method_sites(method):
    """[(byte offset, opcode, kind, target)] of the reference-carrying instructions of one body, in program order.
    kind/target: 'inv' method key | 'fld' field key | 'str' value | 'new'/'cls'/'cast'/'iof'/'narr'/'farr' type."""
    a, src = assemble(method)
    out = []
    for e in a.items:
        if e.kind != 'ins' or e.index >= len(src) or src[e.index] is None:
            continue
        site = method['body'][src[e.index]]
        kind = site[0]
        if kind == 'inv':
            out.append((e.offset, e.op, 'inv', (site[2], site[3], site[4], tuple(site[5]))))
        elif kind == 'fld':
            out.append((e.offset, e.op, 'fld', (site[2], site[3], site[4])))
        elif kind == 'str':
            out.append((e.offset, e.op, 'str', site[2]))
        elif kind in ('new', 'cls', 'cast', 'iof', 'narr'):
            out.append((e.offset, e.op, kind, site[1]))
        elif kind == 'farr':
            out.append((e.offset, e.op, kind, site[2]))
    return out


def sites(model):
    """{method key: [(byte offset, opcode, kind, target)]} for every method that has code."""
    out = {}
    for c in model['classes']:
        for m in c['methods']:
            if m['code']:
                out[mkey(c, m)] = method_sites(m)
    return out


# ------------------------------------------------------------------------------------------ model -> DEX files
def _refs(method):
    refs = []
    for site in method['body']:
        k = site[0]
        if k == 'inv':
            refs.append(('m', site[2], site[3], site[4], tuple(site[5])))
        elif k == 'fld':
            refs.append(('f', site[2], site[3], site[4]))
        elif k == 'str':
            refs.append(('s', site[2]))
        elif k in ('new', 'cls', 'cast', 'iof', 'narr'):
            refs.append(('t', site[1]))
        elif k == 'farr':
            refs.append(('t', site[2]))
    return refs


def _gclass(c):
    sf = [G.Field(n, t, 0x9) for (n, t, s) in c['fields'] if s]
    inf = [G.Field(n, t, 0x1) for (n, t, s) in c['fields'] if not s]
    dm, vm = [], []
    abstract = False
    for m in c['methods']:
        params = tuple(m['params'])
        code = None
        if m['code']:
            ins = words(params) + (0 if m['kind'] == 'static' else 1)
            code = G.Code(8 + ins, ins, 5, (lambda ix, m=m: assemble(m, ix)[0].code), refs=_refs(m))
        if m['kind'] == 'static':
            acc = 0x9 | (0x10000 if m['name'] == '<clinit>' else 0)
        elif m['kind'] == 'direct':
            acc = 0x10001 if m['name'] == '<init>' else 0x2
        else:
            acc = 0x1
        if code is None:
            if m['kind'] == 'virtual':
                acc |= 0x400
                abstract = True
            else:
                acc |= 0x100
        (vm if m['kind'] == 'virtual' else dm).append(G.Method(m['name'], m['ret'], params, acc, code))
    acc = 0x601 if c['iface'] else (0x401 if abstract else 0x1)
    return G.Class(c['name'], acc, c['super'], interfaces=c['interfaces'], sfields=sf, ifields=inf, dmethods=dm, vmethods=vm)


def build(model, single=False):
    """-> [(dex bytes, DexFile)] one per part (part d holds the classes with c['dex'] == d); single=True puts
    every class in one file."""
    parts = {}
    for c in model['classes']:
        parts.setdefault(0 if single else c['dex'], []).append(c)
    out = []
    for d in sorted(parts):
        df = G.DexFile([_gclass(c) for c in parts[d]])
        out.append((df.build(), df))
    return out


# ------------------------------------------------------------------------------------------ expectations
def defined_methods(model):
    return {mkey(c, m) for c in model['classes'] for m in c['methods']}


def defined_fields(model):
    return {(c['name'], f[0], f[1]) for c in model['classes'] for f in c['fields']}


def internal_classes(model):
    return {c['name'] for c in model['classes']}


def dex_of(model):
    return {c['name']: c['dex'] for c in model['classes']}


def is_array(t):
    return t.startswith('[')


# ------------------------------------------------------------------------------------------ strategies
def _uniq(seq, key):
    seen, out = set(), []
    for x in seq:
        k = key(x)
        if k not in seen:
            seen.add(k)
            out.append(x)
    return out


@st.composite
def structures(draw, max_classes=5, max_dex=4, min_dex=1):
    """class / field / method skeleton (bodies empty)."""
    ncls = draw(st.integers(2, max_classes))
    ndex = draw(st.sampled_from([d for d in (1, 1, 2, 2, 2, 3, 3, 4) if min_dex <= d <= min(max_dex, ncls)]))
    perm = draw(st.permutations(list(range(ncls))))
    dexno = {}
    for pos, ci in enumerate(perm):
        dexno[ci] = pos if pos < ndex else draw(st.integers(0, ndex - 1))
    classes = []
    for ci in range(ncls):
        name = 'Lp/C%d;' % ci if ci != 3 else 'Lq/D$1;'
        earlier = [c['name'] for c in classes if not c['iface']]
        ifaces_avail = [c['name'] for c in classes if c['iface']]
        iface = draw(st.integers(0, 5)) == 0
        sup = OBJ if iface else draw(st.sampled_from([OBJ, 'Lext/Base;'] + earlier + earlier))
        interfaces = []
        if ifaces_avail and draw(st.booleans()):
            interfaces.append(draw(st.sampled_from(ifaces_avail)))
        if draw(st.integers(0, 5)) == 0:
            interfaces.append('Lext/Iface;')
        fields = []
        if not iface:
            fl = draw(st.lists(st.tuples(st.sampled_from(['f0', 'f1', 'g']), st.sampled_from(FIELD_TYPES), st.booleans()),
                               max_size=4))
            fields = [list(f) for f in _uniq(fl, lambda f: (f[0], f[1]))]
        nm = draw(st.integers(1, 3))
        methods = []
        for _ in range(nm):
            shape = draw(st.integers(0, 9))
            if iface:
                nme = draw(st.sampled_from(['m0', 'm1', 'run']))
                ret, params = draw(st.sampled_from(PROTOS))
                meth = {'name': nme, 'ret': ret, 'params': list(params), 'kind': 'virtual', 'code': False, 'body': []}
            elif shape == 0:
                meth = {'name': '<init>', 'ret': 'V', 'params': list(draw(st.sampled_from([(), ('I',)]))),
                        'kind': 'direct', 'code': True, 'body': []}
            elif shape == 1:
                meth = {'name': '<clinit>', 'ret': 'V', 'params': [], 'kind': 'static', 'code': True, 'body': []}
            elif shape == 2:
                nme, ret, params = draw(st.sampled_from(OBJECT_METHODS[:3]))
                meth = {'name': nme, 'ret': ret, 'params': list(params), 'kind': 'virtual', 'code': True, 'body': []}
            else:
                nme = draw(st.sampled_from(['m0', 'm0', 'm1', 'm2']))
                ret, params = draw(st.sampled_from(PROTOS))
                kind = draw(st.sampled_from(['static', 'direct', 'virtual', 'virtual']))
                code = draw(st.integers(0, 7)) != 0
                meth = {'name': nme, 'ret': ret, 'params': list(params), 'kind': kind, 'code': code, 'body': []}
            methods.append(meth)
        methods = _uniq(methods, lambda m: (m['name'], m['ret'], tuple(m['params'])))
        if not any(m['code'] for m in methods) and not iface:
            methods.append({'name': 'main', 'ret': 'V', 'params': [], 'kind': 'static', 'code': True, 'body': []})
        classes.append({'name': name, 'dex': dexno[ci], 'super': sup, 'interfaces': interfaces, 'iface': iface,
                        'fields': fields, 'methods': methods})
    if not any(m['code'] for c in classes for m in c['methods']):
        classes[0]['iface'] = False
        classes[0]['methods'].append({'name': 'main', 'ret': 'V', 'params': [], 'kind': 'static', 'code': True, 'body': []})
    return {'ndex': ndex, 'classes': classes}


def _pools(model):
    """candidate targets derived from the skeleton."""
    cls = {c['name']: c for c in model['classes']}
    dm = []             # (key, kind) of defined methods
    for c in model['classes']:
        for m in c['methods']:
            dm.append((mkey(c, m), 'interface' if c['iface'] else m['kind']))
    defined = {k for (k, _) in dm}
    undefined_m = []
    for c in model['classes']:
        # inherited: defined in an internal ancestor, not here
        s = c['super']
        while s in cls:
            for m in cls[s]['methods']:
                k = (c['name'], m['name'], m['ret'], tuple(m['params']))
                if k not in defined and m['name'] not in ('<clinit>',):
                    undefined_m.append(k)
            s = cls[s]['super']
        for (n, r, p) in OBJECT_METHODS[:3] + [('missing', 'V', ())]:
            k = (c['name'], n, r, tuple(p))
            if k not in defined:
                undefined_m.append(k)
        # same name, other descriptor than a defined overload
        for m in c['methods']:
            k = (c['name'], m['name'], 'V', ('I', STR))
            if k not in defined and not m['name'].startswith('<'):
                undefined_m.append(k)
    df = [((c['name'], f[0], f[1]), f[2]) for c in model['classes'] for f in c['fields']]
    definedf = {k for (k, _) in df}
    undefined_f = []
    for c in model['classes']:
        s = c['super']
        while s in cls:
            for f in cls[s]['fields']:
                k = (c['name'], f[0], f[1])
                if k not in definedf:
                    undefined_f.append((k, f[2]))
            s = cls[s]['super']
        for f in c['fields']:
            # same name, other type
            for t in ('I', 'J'):
                k = (c['name'], f[0], t)
                if k not in definedf:
                    undefined_f.append((k, f[2]))
        k = (c['name'], 'nofield', 'I')
        undefined_f.append((k, False))
    names = [c['name'] for c in model['classes']]
    arrays = ['[I', '[[J', '[' + STR, '[Lext/E0;'] + ['[' + n for n in names] + ['[[' + names[0]]
    return dict(dm=dm, undefined_m=undefined_m, df=df, undefined_f=undefined_f, names=names, arrays=arrays)


PROFILES = {'mixed': {}, 'invokes': {'inv': 3}, 'fields': {'fld': 3}, 'strings': {'str': 3, 'cls': 3}}


def _site_strategy(model, owner, pools, array_invokes=True, profile='mixed'):
    names, arrays = pools['names'], pools['arrays']
    others = [n for n in names if n != owner] or names
    rng = st.booleans()

    def inv(key, kind, r):
        if kind == 'static':
            base = 0x71
        elif kind == 'direct':
            base = 0x70
        elif kind == 'interface':
            base = 0x72
        else:
            base = kind       # already an opcode base
        return ['inv', base + (6 if r else 0), key[0], key[1], key[2], list(key[3])]

    vkind = st.sampled_from([0x6e, 0x6e, 0x6f, 0x72])
    anykind = st.sampled_from([0x6e, 0x6f, 0x70, 0x71, 0x72])
    parts = []
    # -- invokes
    if pools['dm']:
        parts.append(('inv', 6, st.tuples(st.sampled_from(pools['dm']), vkind, rng).map(
            lambda t: inv(t[0][0], t[1] if t[0][1] == 'virtual' else t[0][1], t[2]))))
    if pools['undefined_m']:
        parts.append(('inv', 2, st.tuples(st.sampled_from(pools['undefined_m']), anykind, rng).map(lambda t: inv(t[0], t[1], t[2]))))
    parts.append(('inv', 3, st.tuples(st.sampled_from(EXT_METHODS), anykind, rng).map(lambda t: inv(t[0], t[1], t[2]))))
    arr_m = [(a, n, r, p) for a in arrays for (n, r, p) in OBJECT_METHODS]
    if array_invokes:
        parts.append(('inv', 2, st.tuples(st.sampled_from(arr_m), st.sampled_from([0x6e, 0x6e, 0x6f]), rng).map(lambda t: inv(t[0], t[1], t[2]))))
    # -- fields
    wr = st.booleans()
    if pools['df']:
        parts.append(('fld', 6, st.tuples(st.sampled_from(pools['df']), wr).map(
            lambda t: ['fld', field_opcode(t[0][1], t[1], t[0][0][2])] + list(t[0][0]))))
    parts.append(('fld', 2, st.tuples(st.sampled_from(pools['undefined_f']), wr).map(
        lambda t: ['fld', field_opcode(t[0][1], t[1], t[0][0][2])] + list(t[0][0]))))
    parts.append(('fld', 2, st.tuples(st.sampled_from(EXT_FIELDS), st.booleans(), wr).map(
        lambda t: ['fld', field_opcode(t[1], t[2], t[0][2])] + list(t[0]))))
    # -- strings
    parts.append(('str', 5, st.tuples(st.sampled_from([0x1a, 0x1a, 0x1b]), st.sampled_from(STRINGS[:-1])).map(lambda t: ['str', t[0], t[1]])))
    # -- class users
    cls_targets = st.one_of(st.sampled_from(others), st.sampled_from(names), st.sampled_from(EXT_CLASSES))
    parts.append(('cls', 4, cls_targets.map(lambda t: ['new', t])))
    parts.append(('cls', 4, st.one_of(cls_targets, st.sampled_from(arrays)).map(lambda t: ['cls', t])))
    anytype = st.one_of(cls_targets, st.sampled_from(arrays))
    parts.append(('noise', 1, st.tuples(st.sampled_from(['cast', 'iof']), anytype).map(list)))
    parts.append(('noise', 1, st.sampled_from(arrays).map(lambda t: ['narr', t])))
    parts.append(('noise', 1, st.tuples(st.sampled_from([0x24, 0x25]), st.sampled_from(arrays)).map(lambda t: ['farr', t[0], t[1]])))
    # -- fillers
    parts.append(('pad', 4, st.integers(0, 5).map(lambda k: ['pad', k])))
    parts.append(('pad', 1, st.just(['br'])))
    parts.append(('pad', 1, st.just(['fill'])))
    # weighted choice of a branch (one_of() drops duplicate branches, so weights go through an index draw)
    mult = PROFILES[profile]
    branches = [strat for (_, _, strat) in parts]
    index = []
    for i, (g, w, _) in enumerate(parts):
        index.extend([i] * (w * mult.get(g, 1)))
    return st.sampled_from(index).flatmap(lambda i: branches[i])


@st.composite
def _body(draw, site, max_sites):
    body = draw(st.lists(site, min_size=2, max_size=max_sites))
    # repeats: the same reference again at later offsets
    nrep = draw(st.integers(0, 3))
    for _ in range(nrep):
        refs = [s for s in body if s[0] not in ('pad', 'br', 'fill')]
        if not refs:
            break
        s = draw(st.sampled_from(refs))
        pos = draw(st.integers(0, len(body)))
        body.insert(pos, list(s))
    return body


@st.composite
def models(draw, max_classes=5, max_dex=4, max_sites=10, array_invokes=True, profile='mixed', min_dex=1):
    model = draw(structures(max_classes, max_dex, min_dex))
    pools = _pools(model)
    for c in model['classes']:
        site = _site_strategy(model, c['name'], pools, array_invokes, profile)
        for m in c['methods']:
            if m['code']:
                m['body'] = draw(_body(site, max_sites))
    return model


def normalize(model):
    """Bring a model that went through JSON (tuples -> lists) back into generator form (idempotent)."""
    out = {'ndex': int(model['ndex']), 'classes': []}
    for c in model['classes']:
        out['classes'].append({
            'name': c['name'], 'dex': int(c['dex']), 'super': c['super'], 'interfaces': list(c['interfaces']),
            'iface': bool(c['iface']), 'fields': [[f[0], f[1], bool(f[2])] for f in c['fields']],
            'methods': [{'name': m['name'], 'ret': m['ret'], 'params': list(m['params']), 'kind': m['kind'],
                         'code': bool(m['code']),
                         'body': [[list(x) if isinstance(x, (list, tuple)) else x for x in s] for s in m['body']]}
                        for m in c['methods']]})
    return out
