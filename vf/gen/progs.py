"""Structured int/long program generator for C21/C22 (no androguard import).

A *program* is a static method `(int|long)* -> int|long` given as a typed AST (JSON-able lists), plus a
`choices` seed that drives the lowering decisions (which instruction form is used where several are legal).
Everything random is drawn by the Hypothesis strategy `programs(features)`; `compile_program` is a pure
function of the program.

API summary
-----------
FEATURES                         tuple of all generator feature names (individually switchable)
programs(features=FEATURES)      Hypothesis strategy -> program dict
    {'params': ['I','J',..], 'ret': 'I'|'J', 'locals': [types of ALL variables, parameters first],
     'body': [stmt..], 'choices': int, 'lower': [enabled lowering features: 2addr lit8 lit16 rsub loop_bottom],
     'acc': index of the accumulator local (read by every return, updated in every branch) or None}
  stmt:  ['set', var, expr] | ['if', cond, then, else] | ['loop', kind, counter, bound, step, extra_cond|None, body]
         (kind 'while'|'dowhile'; counter is a dedicated int local set to 0 before the loop, `counter += step`
         is the last statement of the body, the condition is `counter < bound [&& extra]`)
         | ['breakif', cond] (inside loops) | ['switch', expr, [[keys, block, falls_through]..], default_block, 'packed'|'sparse']
         | ['ret', expr]
  expr:  ['c', ty, value] | ['v', ty, var] | ['b', ty, op, a, b] | ['u', ty, op, a] | ['k', ty, kind, a]
         op(b): add sub mul div rem and or xor shl shr ushr;  op(u): neg not;  kind: i2l l2i i2b i2s i2c
  cond:  ['cmp', op, a, b] (eq ne lt ge gt le) | ['and', c1, c2] | ['or', c1, c2]
compile_program(prog) -> Compiled(insns: bytes, regs, ins, outs=0, listing: [str], used: set of feature names)
evaluate(prog, args) -> ('ret', value) | ('exc', 'java.lang.ArithmeticException')   Java semantics of the AST
to_java(prog, name) -> Java source of the method (used only by the generator's self test against a real JVM)
features_used(prog) -> set of AST-level features (incl. the shape features dead_branch, dowhile_kill, const_loop_cond,
                       fallthrough_any, narrow_switch, loop_return, break_in_if, switch_inner_return, deep, narrow_join,
                       div_zero, narrow_reuse, hoist, see programs());
narrow_joins(prog) -> set of (kinds, join) e.g. ('BC', 'ifelse'): reads of an int local whose reaching definitions are
                       two or more byte/short/char casts of at least two different kinds (reaching definitions of the AST)
narrow_reuses(prog) -> set of (kind, join) e.g. ('B', 'if'): casts `(byte|short|char) v` of a local v that some other
                       statement assigns a cast of that same kind, at a point where a reaching definition of v is wider
div_zeros(prog) -> set of (type, form, use) e.g. ('I', 'lit', 'dead'): divisions / remainders whose divisor is the literal 0
                       ('lit') or a local that only ever holds the constant 0 ('reg'); use: dead arm after_exit self normal inline
hoists(prog) -> set of (type, at, kill, x, merged, k) e.g. ('I', 'arm', 'between', 'param', 'merged', 2): groups of k single-use
                       temporaries computed from one variable x in a block and all read in one other block (at: arm else loop
                       case default join nested), with x assigned again before / between / after the reads or in the first block
ops_used(prog) -> set of operator names;  nesting(prog) -> '<inner>_in_<parent>' tags;  build_dex(progs) -> DEX bytes
shrink_candidates(prog) -> list of strictly smaller programs (one-step reductions) for batch shrinking
descriptor(prog) -> '(IJ)I' ;  arg_tuples(prog, rng, n) -> boundary + random argument tuples
"""
import random
import struct
import zlib

from vf.gen import dalvik_spec as ds

I, J = 'I', 'J'
M32, M64 = (1 << 32) - 1, (1 << 64) - 1

FEATURES = ('arith', 'divrem', 'bitwise', 'shift', 'ushr', 'neg', 'not', '2addr', 'lit8', 'lit16', 'rsub',
            'cast_i2l', 'cast_l2i', 'cast_narrow', 'long', 'bigconst', 'compound', 'if', 'else',
            'while', 'dowhile', 'loop_bottom', 'break', 'nested', 'packed', 'sparse', 'fallthrough',
            'early_return', 'empty_case', 'dead_branch', 'dowhile_kill', 'const_loop_cond',
            'fallthrough_any', 'narrow_switch', 'loop_return', 'break_in_if', 'switch_inner_return', 'deep',
            'narrow_join', 'div_zero', 'narrow_reuse', 'hoist')

BIN_OPS = ('add', 'sub', 'mul', 'div', 'rem', 'and', 'or', 'xor', 'shl', 'shr', 'ushr')
OP_FEATURE = {'add': 'arith', 'sub': 'arith', 'mul': 'arith', 'div': 'divrem', 'rem': 'divrem', 'and': 'bitwise',
              'or': 'bitwise', 'xor': 'bitwise', 'shl': 'shift', 'shr': 'shift', 'ushr': 'ushr'}
COMMUTATIVE = ('add', 'mul', 'and', 'or', 'xor')
LIT16_OPS = ('add', 'mul', 'div', 'rem', 'and', 'or', 'xor')           # + rsub
LIT8_OPS = LIT16_OPS + ('shl', 'shr', 'ushr')                           # + rsub
CMP_NEG = {'eq': 'ne', 'ne': 'eq', 'lt': 'ge', 'ge': 'lt', 'gt': 'le', 'le': 'gt'}
CMP_SWAP = {'eq': 'eq', 'ne': 'ne', 'lt': 'gt', 'gt': 'lt', 'le': 'ge', 'ge': 'le'}
JAVA_OP = {'add': '+', 'sub': '-', 'mul': '*', 'div': '/', 'rem': '%', 'and': '&', 'or': '|', 'xor': '^',
           'shl': '<<', 'shr': '>>', 'ushr': '>>>', 'eq': '==', 'ne': '!=', 'lt': '<', 'ge': '>=', 'gt': '>', 'le': '<='}
CAST_JAVA = {'i2l': '(long)', 'l2i': '(int)', 'i2b': '(byte)', 'i2s': '(short)', 'i2c': '(char)'}
CAST_FEATURE = {'i2l': 'cast_i2l', 'l2i': 'cast_l2i', 'i2b': 'cast_narrow', 'i2s': 'cast_narrow', 'i2c': 'cast_narrow'}
CAST_TYPES = {'i2l': (I, J), 'l2i': (J, I), 'i2b': (I, I), 'i2s': (I, I), 'i2c': (I, I)}
LOWER_FEATURES = ('2addr', 'lit8', 'lit16', 'rsub', 'loop_bottom')      # decided by the lowering, not by the AST
MAX_REGS = 16
DZ_PERCENT, NR_PERCENT = 6, 12     # chance per statement slot of the div_zero / narrow_reuse construct (programs())
HO_PERCENT = 12                    # the same for the hoist construct


class Reject(Exception):
    """The program needs more than 16 registers (the 4-bit register forms could not be used)."""


def s32(v):
    v &= M32
    return v - (1 << 32) if v >> 31 else v


def s64(v):
    v &= M64
    return v - (1 << 64) if v >> 63 else v


def wrap(ty, v):
    return s32(v) if ty == I else s64(v)


# ----------------------------------------------------------------------------------------------------------
# Java semantics of the AST (JLS 15.17-15.22): the third opinion used to validate compiler + interpreter
# ----------------------------------------------------------------------------------------------------------
class _Arith(Exception):
    pass


class _Return(Exception):
    def __init__(self, v):
        self.v = v


class _Break(Exception):
    pass


def _jdiv(a, b):
    if b == 0:
        raise _Arith()
    q = abs(a) // abs(b)
    return q if (a < 0) == (b < 0) else -q


def eval_expr(e, env):
    k = e[0]
    if k == 'c':
        return e[2]
    if k == 'v':
        return env[e[2]]
    ty = e[1]
    if k == 'b':
        op = e[2]
        a = eval_expr(e[3], env)
        b = eval_expr(e[4], env)
        if op == 'add':
            r = a + b
        elif op == 'sub':
            r = a - b
        elif op == 'mul':
            r = a * b
        elif op == 'div':
            r = _jdiv(a, b)
        elif op == 'rem':
            r = a - _jdiv(a, b) * b
        elif op == 'and':
            r = a & b
        elif op == 'or':
            r = a | b
        elif op == 'xor':
            r = a ^ b
        else:
            n = b & (31 if ty == I else 63)
            if op == 'shl':
                r = a << n
            elif op == 'shr':
                r = a >> n
            else:
                r = (a & (M32 if ty == I else M64)) >> n
        return wrap(ty, r)
    if k == 'u':
        a = eval_expr(e[3], env)
        return wrap(ty, -a if e[2] == 'neg' else ~a)
    if k == 'k':
        a = eval_expr(e[3], env)
        kind = e[2]
        if kind == 'i2l':
            return a
        if kind == 'l2i':
            return s32(a)
        if kind == 'i2b':
            a &= 0xff
            return a - 256 if a >> 7 else a
        if kind == 'i2s':
            a &= 0xffff
            return a - 65536 if a >> 15 else a
        if kind == 'i2c':
            return a & 0xffff
    raise ValueError(e)


def eval_cond(c, env):
    if c[0] == 'cmp':
        a, b = eval_expr(c[2], env), eval_expr(c[3], env)
        return {'eq': a == b, 'ne': a != b, 'lt': a < b, 'ge': a >= b, 'gt': a > b, 'le': a <= b}[c[1]]
    if c[0] == 'and':
        return eval_cond(c[1], env) and eval_cond(c[2], env)
    if c[0] == 'or':
        return eval_cond(c[1], env) or eval_cond(c[2], env)
    raise ValueError(c)


def _exec(block, env):
    for s in block:
        k = s[0]
        if k == 'set':
            env[s[1]] = eval_expr(s[2], env)
        elif k == 'if':
            _exec(s[2] if eval_cond(s[1], env) else s[3], env)
        elif k == 'loop':
            _, kind, cv, bound, step, extra, body = s
            env[cv] = 0

            def test():
                return env[cv] < bound and (extra is None or eval_cond(extra, env))
            try:
                if kind == 'while':
                    while test():
                        _exec(body, env)
                        env[cv] = s32(env[cv] + step)
                else:
                    while True:
                        _exec(body, env)
                        env[cv] = s32(env[cv] + step)
                        if not test():
                            break
            except _Break:
                pass
        elif k == 'breakif':
            if eval_cond(s[1], env):
                raise _Break()
        elif k == 'switch':
            v = eval_expr(s[1], env)
            cases = s[2]
            start = None
            for i, (keys, blk, ft) in enumerate(cases):
                if v in keys:
                    start = i
                    break
            if start is None:
                _exec(s[3], env)
            else:
                i = start
                while True:
                    _exec(cases[i][1], env)
                    if cases[i][2] and i + 1 < len(cases):
                        i += 1
                        continue
                    if cases[i][2]:           # last case falls through into default
                        _exec(s[3], env)
                    break
        elif k == 'ret':
            raise _Return(eval_expr(s[1], env))
        else:
            raise ValueError(s)


def evaluate(prog, args):
    env = {i: a for i, a in enumerate(args)}
    try:
        _exec(prog['body'], env)
    except _Return as r:
        return ('ret', r.v)
    except _Arith:
        return ('exc', 'java.lang.ArithmeticException')
    raise AssertionError('program fell off its end')


# ----------------------------------------------------------------------------------------------------------
# AST helpers
# ----------------------------------------------------------------------------------------------------------
def _walk_exprs(e, out):
    out.append(e)
    if e[0] == 'b':
        _walk_exprs(e[3], out)
        _walk_exprs(e[4], out)
    elif e[0] in ('u', 'k'):
        _walk_exprs(e[3], out)


def _walk_cond(c, exprs, conds):
    conds.append(c)
    if c[0] == 'cmp':
        _walk_exprs(c[2], exprs)
        _walk_exprs(c[3], exprs)
    else:
        _walk_cond(c[1], exprs, conds)
        _walk_cond(c[2], exprs, conds)


def walk(block, stmts, exprs, conds, depth=0):
    for s in block:
        stmts.append((s, depth))
        k = s[0]
        if k == 'set':
            _walk_exprs(s[2], exprs)
        elif k == 'if':
            _walk_cond(s[1], exprs, conds)
            walk(s[2], stmts, exprs, conds, depth)
            walk(s[3], stmts, exprs, conds, depth)
        elif k == 'loop':
            if s[5] is not None:
                _walk_cond(s[5], exprs, conds)
            walk(s[6], stmts, exprs, conds, depth + 1)
        elif k == 'breakif':
            _walk_cond(s[1], exprs, conds)
        elif k == 'switch':
            _walk_exprs(s[1], exprs)
            for (keys, blk, ft) in s[2]:
                walk(blk, stmts, exprs, conds, depth)
            walk(s[3], stmts, exprs, conds, depth)
        elif k == 'ret':
            _walk_exprs(s[1], exprs)


def features_used(prog):
    stmts, exprs, conds = [], [], []
    walk(prog['body'], stmts, exprs, conds)
    f = set()
    if J in prog['locals'] or prog['ret'] == J:
        f.add('long')
    for e in exprs:
        if e[0] == 'b':
            f.add(OP_FEATURE[e[2]])
        elif e[0] == 'u':
            f.add(e[2])
        elif e[0] == 'k':
            f.add(CAST_FEATURE[e[2]])
        elif e[0] == 'c':
            if not -32768 <= e[2] <= 32767:
                f.add('bigconst')
        if e[1] == J:
            f.add('long')
    for c in conds:
        if c[0] in ('and', 'or'):
            f.add('compound')
    nret = 0
    for s, depth in stmts:
        k = s[0]
        if k == 'if':
            f.add('if')
            if s[3]:
                f.add('else')
        elif k == 'loop':
            f.add(s[1])
            if depth > 0:
                f.add('nested')
        elif k == 'breakif':
            f.add('break')
        elif k == 'switch':
            f.add(s[4])
            if any(ft for (_k, _b, ft) in s[2]):
                f.add('fallthrough')
            if any(not _b for (_k, _b, ft) in s[2]):
                f.add('empty_case')
        elif k == 'ret':
            nret += 1
    if nret > 1:
        f.add('early_return')
    f |= _shape_features(prog)
    return f


def _shape_features(prog):
    """the three shape features that are defined by an analysis of the whole program (see programs())"""
    f = set()
    body = prog['body']
    np_ = len(prog['params'])
    acc = prog.get('acc')
    # never-constant variables: greatest fixed point of "every assignment reads a never-constant variable"
    sets = []

    def collect(blk):
        for s in blk:
            if s[0] == 'set':
                sets.append((s[1], _vars_of(s[2])))
            elif s[0] == 'if':
                collect(s[2]); collect(s[3])
            elif s[0] == 'loop':
                collect(s[6])
            elif s[0] == 'switch':
                for c in s[2]:
                    collect(c[1])
                collect(s[3])
    collect(body)
    nc = set(range(len(prog['locals'])))
    changed = True
    while changed:
        changed = False
        for v in sorted(nc):
            if any(t == v and not (used & nc) for (t, used) in sets) or (v >= np_ and not any(t == v for t, _u in sets)):
                nc.discard(v)
                changed = True

    def effect(blk):
        return any((s[0] == 'set' and s[1] == acc and acc in _vars_of(s[2])) or s[0] == 'ret' for s in blk)

    def scan(blk, in_dowhile, counters, in_loop):
        for s in blk:
            k = s[0]
            if k == 'set':
                if in_dowhile and s[1] not in _vars_of(s[2]):
                    f.add('dowhile_kill')
            elif k == 'if':
                if in_loop and not _cond_const_free(s[1], nc | counters):
                    f.add('const_loop_cond')
                for b in (s[2], s[3]):
                    if b and not effect(b):
                        f.add('dead_branch')
                    scan(b, in_dowhile, counters, in_loop)
            elif k == 'breakif':
                if not _cond_const_free(s[1], nc | counters):
                    f.add('const_loop_cond')
            elif k == 'loop':
                if in_dowhile:
                    f.add('dowhile_kill')
                if s[5] is not None and not _cond_const_free(s[5], nc | counters | {s[2]}):
                    f.add('const_loop_cond')
                if not effect(s[6]):
                    f.add('dead_branch')
                scan(s[6], in_dowhile or s[1] == 'dowhile', counters | {s[2]}, True)
            elif k == 'switch':
                for c in s[2]:
                    if c[1] and not effect(c[1]):
                        f.add('dead_branch')
                    scan(c[1], in_dowhile, counters, in_loop)
                if s[3] and not effect(s[3]):
                    f.add('dead_branch')
                scan(s[3], in_dowhile, counters, in_loop)
    scan(body, False, set(), False)
    stmts_, e_all, c_ = [], [], []
    walk(body, stmts_, e_all, c_)
    if any(s_[0] == 'ret' and d_ > 0 for s_, d_ in stmts_):
        f.add('loop_return')
    nest = nesting(prog)
    if 'break_in_if' in nest:
        f.add('break_in_if')
    if 'depth4' in nest:
        f.add('deep')

    def inner_ret(blk, top):
        for i_, s_ in enumerate(blk):
            if s_[0] == 'ret' and not top:
                return True
            if s_[0] == 'if' and (inner_ret(s_[2], False) or inner_ret(s_[3], False)):
                return True
            if s_[0] == 'loop' and inner_ret(s_[6], False):
                return True
            if s_[0] == 'switch' and (any(inner_ret(c_[1], False) for c_ in s_[2]) or inner_ret(s_[3], False)):
                return True
        return False
    for s in _switches(body, []):
        if any(inner_ret(c_[1], True) for c_ in s[2]) or inner_ret(s[3], True):
            f.add('switch_inner_return')
    for s in _switches(body, []):
        keys = sorted(k for c in s[2] for k in c[0])
        table = list(range(keys[0], keys[-1] + 1)) if s[4] == 'packed' else keys
        for ci in range(len(s[2]) - 1):
            if s[2][ci][2] and s[2][ci][1] and not _adjacent_fallthrough(s[2][ci][0], s[2][ci + 1][0], table):
                f.add('fallthrough_any')
    if _has_wide_case_label(body) and any(e_[0] == 'k' and e_[2] in ('i2b', 'i2s', 'i2c') for e_ in e_all):
        f.add('narrow_switch')
    joins, reuses = _narrow_analysis(prog)
    if joins:
        f.add('narrow_join')
    if reuses:
        f.add('narrow_reuse')
    if div_zeros(prog):
        f.add('div_zero')
    if hoists(prog):
        f.add('hoist')
    return f


NARROW_LETTER = {'i2b': 'B', 'i2s': 'S', 'i2c': 'C'}


def narrow_joins(prog):
    """Reaching definitions on the AST. -> set of (kinds, join): one entry per read of a local whose reaching definitions
    are at least two assignments `v = (byte|short|char) e`, of at least two different kinds and nothing else (no plain int
    definition, no parameter value). kinds: 'BC' 'BS' 'CS' 'BCS'; join: where these definitions met - 'ifelse' (both arms
    of an if/else), 'if' (an if without else: the value from before meets the one of the arm), 'switch', 'loop'
    (loop-carried: the value from before the loop meets the one of the body), several when the set grew in steps."""
    return _narrow_analysis(prog)[0]


def narrow_reuses(prog):
    """Reaching definitions on the AST. -> set of (kind, join): one entry per cast `(byte|short|char) v` applied directly
    to a local v such that (1) some assignment of the program gives v a cast of that same kind ('B' 'S' 'C') and (2) at
    the cast at least one reaching definition of v is something else (a plain int value, a cast of another kind, a
    parameter value): the conversion is not redundant although "v is a byte" somewhere else. join: where the reaching
    definitions met ('if' 'ifelse' 'switch' 'loop'), 'straight' when there is a single reaching definition."""
    return _narrow_analysis(prog)[1]


def _narrow_analysis(prog):
    """-> (narrow_joins, narrow_reuses), one pass of reaching definitions (see there)"""
    kinds = {}                 # definition id (path of the statement) -> 'B' 'S' 'C' | None
    origin = {}                # (var, frozenset of definition ids) -> {join tags}
    back = {}                  # path of a loop -> state at the end of its body (grows until the fixed point)
    found = set()
    reuse = set()
    flags = {'record': False, 'changed': False}
    empty = frozenset()
    assigned = {}              # (var, letter) -> paths of the statements that assign the variable a narrow cast of that kind

    def define(st, v, path, e):
        kinds[path] = NARROW_LETTER.get(e[2]) if e is not None and e[0] == 'k' else None
        if kinds[path] is not None:
            assigned.setdefault((v, kinds[path]), set()).add(path)
        st = dict(st)
        st[v] = frozenset([path])
        return st

    def merge(states, tag):
        states = [x for x in states if x is not None]
        if not states:
            return None
        out = {}
        for v in sorted(set().union(*states)):
            parts = [x.get(v, empty) for x in states]
            u = empty.union(*parts)
            out[v] = u
            if any(q != u for q in parts):
                origin.setdefault((v, u), set()).add(tag)
        return out

    def use(e, st, at):
        if not flags['record']:
            return
        for v in sorted(_vars_of(e)):
            ds_ = st.get(v, empty)
            ks = {kinds[d] for d in ds_}
            if len(ds_) >= 2 and None not in ks and len(ks) >= 2:
                for tag in sorted(origin.get((v, ds_), ())) or ['other']:
                    found.add((''.join(sorted(ks)), tag))
        if not assigned:
            return
        es = []
        _walk_exprs(e, es)
        for x in es:
            if x[0] == 'k' and x[2] in NARROW_LETTER and x[3][0] == 'v':
                v, letter = x[3][2], NARROW_LETTER[x[2]]
                if not (assigned.get((v, letter), empty) - {at}):
                    continue            # no other statement makes v a value of that kind
                ds_ = st.get(v, empty)
                if any(kinds[d] != letter for d in ds_):
                    for tag in (sorted(origin.get((v, ds_), ())) or ['other']) if len(ds_) >= 2 else ['straight']:
                        reuse.add((letter, tag))

    def use_cond(c, st, at):
        if c[0] == 'cmp':
            use(c[2], st, at)
            use(c[3], st, at)
        else:
            use_cond(c[1], st, at)
            use_cond(c[2], st, at)

    def block(blk, st, brk, path):
        for i, s in enumerate(blk):
            if st is None:
                break
            p = path + (i,)
            k = s[0]
            if k == 'set':
                use(s[2], st, p)
                st = define(st, s[1], p, s[2])
            elif k == 'ret':
                use(s[1], st, p)
                st = None
            elif k == 'if':
                use_cond(s[1], st, p)
                a = block(s[2], st, brk, p + (0,))
                b = block(s[3], st, brk, p + (1,))
                st = merge([a, b], 'ifelse' if s[3] else 'if')
            elif k == 'breakif':
                use_cond(s[1], st, p)
                brk.append(st)
            elif k == 'loop':
                _, kind, cv, bound, step, extra, body = s
                st = define(st, cv, p + ('init',), None)
                head = merge([st, back.get(p)], 'loop')
                inner = []
                if kind == 'while' and extra is not None:
                    use_cond(extra, head, p)
                out = block(body, head, inner, p + (0,))
                if out is not None:
                    out = define(out, cv, p + ('inc',), None)
                    if kind == 'dowhile' and extra is not None:
                        use_cond(extra, out, p)
                nb = merge([back.get(p), out], 'loop')
                if nb != back.get(p):
                    back[p] = nb
                    flags['changed'] = True
                st = merge([head if kind == 'while' else None, out] + inner, 'loop')
            elif k == 'switch':
                use(s[1], st, p)
                exits, prev = [], None
                for j, (keys, cb, ft) in enumerate(s[2]):
                    o = block(cb, merge([st, prev], 'switch'), brk, p + (j,))
                    if ft:
                        prev = o
                    else:
                        prev = None
                        exits.append(o)
                exits.append(block(s[3], merge([st, prev], 'switch'), brk, p + ('d',)))
                st = merge(exits, 'switch')
        return st

    start = {i: frozenset([('param', i)]) for i in range(len(prog['params']))}
    for i in range(len(prog['params'])):
        kinds[('param', i)] = None
    for _ in range(50):
        flags['changed'] = False
        block(prog['body'], start, [], ())
        if not flags['changed']:
            break
    else:
        raise AssertionError('reaching definitions did not converge')
    flags['record'] = True
    block(prog['body'], start, [], ())
    return found, reuse


def _reach_defs(prog):
    """Reaching definitions of the AST. -> {(path of the reading statement, variable): frozenset of definition ids}.
    A statement is named by its path (index in the body, then arm number / case number / 'd' and index, ..); a definition
    id is the path of the assigning statement, ('param', i), or the path of a loop + ('init',) / ('inc',) for its counter.
    The condition of an if / break / loop and the selector of a switch are read at the path of that statement."""
    reads = {}
    back = {}
    flag = {'changed': False}
    empty = frozenset()

    def merge(states):
        states = [x for x in states if x is not None]
        if not states:
            return None
        out = {}
        for x in states:
            for v, d in x.items():
                out[v] = out.get(v, empty) | d
        return out

    def use(vs, st, p):
        for v in vs:
            reads[(p, v)] = reads.get((p, v), empty) | st.get(v, empty)

    def define(st, v, d):
        st = dict(st)
        st[v] = frozenset([d])
        return st

    def block(blk, st, brk, path):
        for i, s in enumerate(blk):
            if st is None:
                break
            p = path + (i,)
            k = s[0]
            if k == 'set':
                use(_vars_of(s[2]), st, p)
                st = define(st, s[1], p)
            elif k == 'ret':
                use(_vars_of(s[1]), st, p)
                st = None
            elif k == 'if':
                use(_cond_vars(s[1]), st, p)
                st = merge([block(s[2], st, brk, p + (0,)), block(s[3], st, brk, p + (1,))])
            elif k == 'breakif':
                use(_cond_vars(s[1]), st, p)
                brk.append(st)
            elif k == 'loop':
                _, kind, cv, bound, step, extra, body = s
                st = define(st, cv, p + ('init',))
                head = merge([st, back.get(p)])
                inner = []
                if kind == 'while':
                    use({cv} | (_cond_vars(extra) if extra is not None else set()), head, p)
                out = block(body, head, inner, p + (0,))
                if out is not None:
                    use({cv}, out, p)
                    out = define(out, cv, p + ('inc',))
                    if kind == 'dowhile':
                        use({cv} | (_cond_vars(extra) if extra is not None else set()), out, p)
                nb = merge([back.get(p), out])
                if nb != back.get(p):
                    back[p] = nb
                    flag['changed'] = True
                st = merge([head if kind == 'while' else None, out] + inner)
            elif k == 'switch':
                use(_vars_of(s[1]), st, p)
                exits, prev = [], None
                for j, (keys, cb, ft) in enumerate(s[2]):
                    o = block(cb, merge([st, prev]), brk, p + (j,))
                    if ft:
                        prev = o
                    else:
                        prev = None
                        exits.append(o)
                exits.append(block(s[3], merge([st, prev]), brk, p + ('d',)))
                st = merge(exits)
        return st

    start = {i: frozenset([('param', i)]) for i in range(len(prog['params']))}
    for _ in range(50):
        flag['changed'] = False
        block(prog['body'], start, [], ())
        if not flag['changed']:
            return reads
    raise AssertionError('reaching definitions did not converge')


def hoists(prog):
    """Temporaries hoisted above a branch. -> set of (type, at, kill, x, merged, k), one entry per group of k >= 2 locals
    t1..tk such that: each is assigned exactly once in the program and read exactly once; their assignments are plain
    statements of one block B0 with nothing but assignments between them; every one of their expressions reads a common
    variable x (type 'I'/'J'); and their reads all lie in one other block B1 that is entered through a branch after B0 -
    at: 'arm' / 'else' (of a later if of B0's statement list), 'loop' (body), 'case' / 'default' (of a switch), 'join'
    (the statement list of B0 itself, behind an if / switch / loop that follows the assignments), 'nested' (deeper).
    kill says where x is assigned again relative to the reads when these are statements of one basic block of B1:
    'between' two of the reads (the statement that holds the first read counts, it assigns after reading), 'before' the
    first one (inside B1), 'after' the last one, 'b0' (in B0 behind the temporaries), 'none'; 'spread' when the reads
    are not in one basic block. x: 'param' / 'local'. merged: 'merged' when the new definition of x and a definition that
    reaches the temporaries both reach some read of x (a decompiler has to keep them in one variable), 'split' when they
    do not, '-' without a new definition."""
    body = prog['body']
    np_ = len(prog['params'])
    stmts, exprs, conds = [], [], []
    walk(body, stmts, exprs, conds)
    nsets, nreads = {}, {}
    for s, _d in stmts:
        if s[0] == 'set':
            nsets[s[1]] = nsets.get(s[1], 0) + 1
    for e in exprs:
        if e[0] == 'v':
            nreads[e[2]] = nreads.get(e[2], 0) + 1
    counters = _loop_counters(body, set())
    temps = {v for v, n in nsets.items() if n == 1 and nreads.get(v, 0) == 1 and v >= np_ and v not in counters}
    if len(temps) < 2:
        return set()
    site = {}                  # temporary -> (path of the statement list that holds the reading statement, index in it)
    lists = {}                 # path of a statement list -> the list

    def nested(s, p):
        k = s[0]
        if k == 'if':
            return [(p + (0,), s[2]), (p + (1,), s[3])]
        if k == 'loop':
            return [(p + (0,), s[6])]
        if k == 'switch':
            return [(p + (j,), c[1]) for j, c in enumerate(s[2])] + [(p + ('d',), s[3])]
        return []

    def flat_reads(s):
        k = s[0]
        if k == 'set':
            return _vars_of(s[2])
        if k in ('ret', 'switch'):
            return _vars_of(s[1])
        if k in ('if', 'breakif'):
            return _cond_vars(s[1])
        if k == 'loop':
            return _cond_vars(s[5]) if s[5] is not None else set()
        return set()

    def index(blk, path):
        lists[path] = blk
        for i, s in enumerate(blk):
            for v in flat_reads(s) & temps:
                site[v] = (path, i)
            for p, b in nested(s, path + (i,)):
                index(b, p)
    index(body, ())
    out = set()
    reach = None
    for pl in sorted(lists, key=repr):
        L = lists[pl]
        i = 0
        while i < len(L):
            if not (L[i][0] == 'set' and L[i][1] in temps):
                i += 1
                continue
            j = i
            while j + 1 < len(L) and L[j + 1][0] == 'set':
                j += 1
            run = [(n, L[n][1], _vars_of(L[n][2])) for n in range(i, j + 1) if L[n][1] in temps]
            nxt = j + 1
            i = nxt
            by_block = {}
            for n, t, vs in run:
                if t in site:
                    by_block.setdefault(site[t][0], []).append((n, t, vs))
            for pb in sorted(by_block, key=repr):
                grp = by_block[pb]
                if len(grp) < 2:
                    continue
                for x in sorted(set().union(*[vs for _n, _t, vs in grp])):
                    g = [(n, t) for n, t, vs in grp if x in vs]
                    if len(g) < 2 or x in temps:
                        continue
                    last_def = max(n for n, _t in g)
                    uses = sorted(site[t][1] for _n, t in g)
                    B1 = lists[pb]
                    if pb == pl:
                        ctl = [n for n in range(last_def + 1, uses[0]) if L[n][0] in ('if', 'switch', 'loop')] if uses[0] > last_def else []
                        if not ctl:
                            continue              # the same basic block, or read before (loop-carried)
                        at, first = 'join', ctl[-1] + 1
                        b0_end = ctl[0]
                    elif pb[:len(pl)] == pl and len(pb) >= len(pl) + 2 and isinstance(pb[len(pl)], int) and pb[len(pl)] > last_def:
                        first = 0
                        b0_end = pb[len(pl)]
                        holder = L[b0_end]
                        if len(pb) > len(pl) + 2:
                            at = 'nested'
                        elif holder[0] == 'if':
                            at = 'arm' if pb[-1] == 0 else 'else'
                        elif holder[0] == 'loop':
                            at = 'loop'
                        else:
                            at = 'default' if pb[-1] == 'd' else 'case'
                    else:
                        continue
                    kills = set()
                    kill_paths = []
                    for n in range(last_def + 1, min(b0_end, nxt)):
                        if L[n][0] == 'set' and L[n][1] == x:
                            kills.add('b0')
                            kill_paths.append(pl + (n,))
                    if any(B1[n][0] not in ('set', 'ret') for n in range(uses[0], uses[-1] + 1)):
                        kills.add('spread')
                    else:
                        for n in range(first, len(B1)):
                            if B1[n][0] != 'set' or B1[n][1] != x:
                                continue
                            if any(B1[m][0] not in ('set', 'ret') for m in range(min(n, uses[0]), max(n, uses[-1]) + 1)):
                                continue          # not in the basic block of the reads
                            kills.add('before' if n < uses[0] else 'between' if n < uses[-1] else 'after')
                            kill_paths.append(pb + (n,))
                    merged = '-'
                    if kill_paths:
                        if reach is None:
                            reach = _reach_defs(prog)
                        src = set()
                        for n, _t in g:
                            src |= reach.get((pl + (n,), x), frozenset())
                        # definitions of x that share a read are one variable (transitively)
                        groups = [set(d) for (p_, v), d in reach.items() if v == x and d]
                        comp = set(src)
                        grew = True
                        while grew:
                            grew = False
                            for d in groups:
                                if d & comp and not d <= comp:
                                    comp |= d
                                    grew = True
                        merged = 'merged' if any(kp in comp for kp in kill_paths) else 'split'
                    for kl in sorted(kills) or ['none']:
                        out.add((prog['locals'][x], at, kl, 'param' if x < np_ else 'local', merged, len(g)))
    return out


def _loop_counters(blk, out):
    for s in blk:
        if s[0] == 'if':
            _loop_counters(s[2], out); _loop_counters(s[3], out)
        elif s[0] == 'loop':
            out.add(s[2])
            _loop_counters(s[6], out)
        elif s[0] == 'switch':
            for c in s[2]:
                _loop_counters(c[1], out)
            _loop_counters(s[3], out)
    return out


def zero_vars(prog):
    """locals (not parameters, not loop counters) that are assigned somewhere and only ever the constant 0: registers
    that hold the constant 0 wherever they are read"""
    stmts, exprs, conds = [], [], []
    walk(prog['body'], stmts, exprs, conds)
    np_ = len(prog['params'])
    zero, other = set(), set(range(np_)) | _loop_counters(prog['body'], set())
    for s, _d in stmts:
        if s[0] == 'set':
            (zero if s[2][0] == 'c' and s[2][2] == 0 else other).add(s[1])
    return zero - other


def _is_div_zero(e, zv):
    return e[0] == 'b' and e[2] in ('div', 'rem') and ((e[4][0] == 'c' and e[4][2] == 0) or (e[4][0] == 'v' and e[4][2] in zv))


def div_zeros(prog):
    """-> set of (type, form, use), one entry per division or remainder whose divisor is the literal 0 (form 'lit') or a
    local that only ever holds the constant 0 (form 'reg', zero_vars). use says what becomes of the quotient:
    'dead'       it is the whole right-hand side of `t = x / 0` and nothing reads t
    'self'       `t = t / 0` (the dividend is the target: the 2addr shape) and nothing else reads t
    'arm'        `t = x / 0`, and t is read only inside arms / cases / bodies of later statements of the same block
    'after_exit' `t = x / 0`, and before the first read of t in the same block there is an if or switch that may return
    'normal'     `t = x / 0` with any other read of t
    'inline'     the division is an operand of a larger expression, of a condition, of a return or of a switch selector"""
    zv = zero_vars(prog)
    out = set()
    stmts, exprs, conds = [], [], []
    walk(prog['body'], stmts, exprs, conds)
    if not any(_is_div_zero(e, zv) for e in exprs):
        return out
    roots = {id(s[2]) for s, _d in stmts if s[0] == 'set' and _is_div_zero(s[2], zv)}
    for e in exprs:
        if _is_div_zero(e, zv) and id(e) not in roots:
            out.add((e[1], 'lit' if e[4][0] == 'c' else 'reg', 'inline'))

    def reads_flat(s, v):
        """does the statement itself (not its nested blocks) read v"""
        k = s[0]
        if k == 'set':
            return v in _vars_of(s[2])
        if k == 'ret':
            return v in _vars_of(s[1])
        if k == 'switch':
            return v in _vars_of(s[1])
        if k in ('if', 'breakif'):
            return v in _cond_vars(s[1])
        if k == 'loop':
            return s[5] is not None and v in _cond_vars(s[5])
        return False

    def nested(s):
        k = s[0]
        if k == 'if':
            return [s[2], s[3]]
        if k == 'loop':
            return [s[6]]
        if k == 'switch':
            return [c[1] for c in s[2]] + [s[3]]
        return []

    def reads_deep(blk, v):
        return sum((1 if reads_flat(s, v) else 0) + sum(reads_deep(b, v) for b in nested(s)) for s in blk)

    def has_ret(blk):
        return any(s[0] == 'ret' or any(has_ret(b) for b in nested(s)) for s in blk)

    total = {}

    def scan(blk):
        for i, s in enumerate(blk):
            for b in nested(s):
                scan(b)
            if s[0] != 'set' or id(s[2]) not in roots:
                continue
            t, e = s[1], s[2]
            own = 1 if t in _vars_of(e) else 0
            if t not in total:
                total[t] = reads_deep(prog['body'], t)
            form = 'lit' if e[4][0] == 'c' else 'reg'
            if total[t] - own == 0:
                use = 'self' if own else 'dead'
            else:
                rest = blk[i + 1:]
                inside = sum(reads_deep(b, t) for r in rest for b in nested(r))
                flat = [j for j, r in enumerate(rest) if reads_flat(r, t)]
                if not flat and inside == total[t] - own:
                    use = 'arm'
                elif flat and any(r[0] in ('if', 'switch') and any(has_ret(b) for b in nested(r)) for r in rest[:flat[0]]):
                    use = 'after_exit'
                else:
                    use = 'normal'
            out.add((e[1], form, use))
    scan(prog['body'])
    return out


def _adjacent_fallthrough(keys, next_keys, table_keys):
    if len(keys) != 1:
        return False
    i = table_keys.index(keys[0])
    return i + 1 < len(table_keys) and table_keys[i + 1] == min(next_keys)


def _switches(blk, out):
    for s in blk:
        if s[0] == 'if':
            _switches(s[2], out); _switches(s[3], out)
        elif s[0] == 'loop':
            _switches(s[6], out)
        elif s[0] == 'switch':
            out.append(s)
            for c in s[2]:
                _switches(c[1], out)
            _switches(s[3], out)
    return out


def _has_wide_case_label(body):
    return any(not 0 <= k <= 127 for s in _switches(body, []) for c in s[2] for k in c[0])


def _strip_narrow(x):
    """the same statements without byte/short/char casts"""
    if isinstance(x, list):
        if len(x) == 4 and x[0] == 'k' and x[2] in ('i2b', 'i2s', 'i2c'):
            return _strip_narrow(x[3])
        return [_strip_narrow(y) for y in x]
    return x


def nesting(prog):
    """-> set of '<inner>_in_<parent>' tags (inner: if loop switch break ret, parent: if loop switch) and 'depthN'"""
    out = set()

    def rec(blk, parent, depth):
        for s in blk:
            k = s[0]
            name = {'if': 'if', 'loop': 'loop', 'switch': 'switch', 'breakif': 'break', 'ret': 'ret'}.get(k)
            if name and parent:
                out.add('%s_in_%s' % (name, parent))
                if name in ('if', 'switch', 'break') and _is_compound(s[1]) :
                    out.add('compound_in_%s' % parent)
            if k == 'if':
                out.add('depth%d' % (depth + 1))
                rec(s[2], 'if', depth + 1)
                rec(s[3], 'if', depth + 1)
            elif k == 'loop':
                out.add('depth%d' % (depth + 1))
                if s[5] is not None and parent:
                    out.add('loopcond_in_%s' % parent)
                rec(s[6], 'loop', depth + 1)
            elif k == 'switch':
                out.add('depth%d' % (depth + 1))
                for c in s[2]:
                    rec(c[1], 'switch', depth + 1)
                rec(s[3], 'switch', depth + 1)
    rec(prog['body'], None, 0)
    return out


def _is_compound(c):
    return isinstance(c, list) and c and c[0] in ('and', 'or')


def _cond_const_free(c, nc):
    """every comparison of the condition reads a never-constant variable"""
    if c[0] == 'cmp':
        return bool((_vars_of(c[2]) | _vars_of(c[3])) & nc)
    return _cond_const_free(c[1], nc) and _cond_const_free(c[2], nc)


def ops_used(prog):
    stmts, exprs, conds = [], [], []
    walk(prog['body'], stmts, exprs, conds)
    ops = set()
    for e in exprs:
        if e[0] in ('b', 'u', 'k'):
            ops.add(e[2])
    for c in conds:
        ops.add(c[0] if c[0] != 'cmp' else 'cmp_' + c[1])
    return ops


def has_branch_or_loop(prog):
    stmts, exprs, conds = [], [], []
    walk(prog['body'], stmts, exprs, conds)
    return any(s[0] in ('if', 'loop', 'switch') for s, _ in stmts)


def descriptor(prog):
    return '(' + ''.join(prog['params']) + ')' + prog['ret']


def falls(block):
    """Can control reach the end of the block? (JLS 14.22 restricted to this statement language)"""
    for s in block:
        if not _falls_stmt(s):
            return False
    return True


def _falls_stmt(s):
    k = s[0]
    if k == 'ret':
        return False
    if k == 'if':
        return falls(s[2]) or falls(s[3])
    if k == 'switch':
        # JLS 14.22: the switch completes normally iff the last block (default, printed last) does, or a
        # `break` is reachable: a case block that completes normally and does not fall through ends with one
        if falls(s[3]):
            return True
        cases = s[2]
        comp = False
        nxt = falls(s[3])
        for (_k, blk, ft) in reversed(cases):
            cur = falls(blk) and (nxt if ft else True)
            comp = comp or cur
            nxt = cur
        return comp
    return True     # set, loop (condition is not a constant expression), breakif


# ----------------------------------------------------------------------------------------------------------
# Java source of the AST (self test only)
# ----------------------------------------------------------------------------------------------------------
def _jexpr(e):
    k = e[0]
    if k == 'c':
        return ('(%d)' % e[2] if e[2] != -(1 << 31) else '(-2147483648)') if e[1] == I else (
            '(%dL)' % e[2] if e[2] != -(1 << 63) else '(-9223372036854775808L)')
    if k == 'v':
        return 'x%d' % e[2]
    if k == 'b':
        return '(%s %s %s)' % (_jexpr(e[3]), JAVA_OP[e[2]], _jexpr(e[4]))
    if k == 'u':
        return '(%s%s)' % ('-' if e[2] == 'neg' else '~', _jexpr(e[3]))
    if k == 'k':
        return '(%s%s)' % (CAST_JAVA[e[2]], _jexpr(e[3]))


def _jcond(c):
    if c[0] == 'cmp':
        return '%s %s %s' % (_jexpr(c[2]), JAVA_OP[c[1]], _jexpr(c[3]))
    return '(%s) %s (%s)' % (_jcond(c[1]), '&&' if c[0] == 'and' else '||', _jcond(c[2]))


def _jblock(block, ind, out):
    p = '    ' * ind
    for s in block:
        k = s[0]
        if k == 'set':
            out.append('%sx%d = %s;' % (p, s[1], _jexpr(s[2])))
        elif k == 'if':
            out.append('%sif (%s) {' % (p, _jcond(s[1])))
            _jblock(s[2], ind + 1, out)
            if s[3]:
                out.append('%s} else {' % p)
                _jblock(s[3], ind + 1, out)
            out.append('%s}' % p)
        elif k == 'loop':
            _, kind, cv, bound, step, extra, body = s
            c = 'x%d < %d' % (cv, bound) + (' && (%s)' % _jcond(extra) if extra is not None else '')
            out.append('%sx%d = 0;' % (p, cv))
            out.append('%swhile (%s) {' % (p, c) if kind == 'while' else '%sdo {' % p)
            _jblock(body, ind + 1, out)
            out.append('%s    x%d += %d;' % (p, cv, step))
            out.append('%s}' % p if kind == 'while' else '%s} while (%s);' % (p, c))
        elif k == 'breakif':
            out.append('%sif (%s) break;' % (p, _jcond(s[1])))
        elif k == 'switch':
            out.append('%sswitch (%s) {' % (p, _jexpr(s[1])))
            for (keys, blk, ft) in s[2]:
                for key in keys:
                    out.append('%s  case %d:' % (p, key))
                _jblock(blk, ind + 1, out)
                if not ft and falls(blk):
                    out.append('%s    break;' % p)
            out.append('%s  default:' % p)
            _jblock(s[3], ind + 1, out)
            out.append('%s}' % p)
        elif k == 'ret':
            out.append('%sreturn %s;' % (p, _jexpr(s[1])))


def to_java(prog, name):
    jt = {I: 'int', J: 'long'}
    np_ = len(prog['params'])
    out = ['    public static %s %s(%s) {' % (jt[prog['ret']], name,
                                            ', '.join('%s x%d' % (jt[t], i) for i, t in enumerate(prog['params'])))]
    for i, t in enumerate(prog['locals'][np_:]):
        out.append('        %s x%d;' % (jt[t], np_ + i))
    _jblock(prog['body'], 2, out)
    out.append('    }')
    return '\n'.join(out)


# ----------------------------------------------------------------------------------------------------------
# Lowering to Dalvik
# ----------------------------------------------------------------------------------------------------------
class Compiled:
    def __init__(self, insns, regs, ins, listing, used):
        self.insns, self.regs, self.ins, self.outs, self.listing, self.used = insns, regs, ins, 0, listing, used


class _Lowering:
    def __init__(self, prog):
        self.p = prog
        self.rng = random.Random(prog['choices'])
        self.items = []            # ('i', name, {field: value|('reg', sym)|('lab', name)}) | ('l', name) | ('payload', kind, ...)
        self.nlab = 0
        self.used = set()
        self.types = prog['locals']
        self.np = len(prog['params'])
        self.tmp_free = {I: [], J: []}
        self.tmp_all = []          # [(ty)] in allocation order -> symbolic ('t', k)
        self.loop_exit = []
        self.lower = set(prog.get('lower', LOWER_FEATURES))
        self.zero_vars = zero_vars(prog)     # only for the 'divzero:<instruction>' tags in `used`

    # -- registers ----------------------------------------------------------------------------
    def var(self, i):
        return ('p', i) if i < self.np else ('l', i)

    def tmp(self, ty):
        if self.tmp_free[ty]:
            return self.tmp_free[ty].pop()
        self.tmp_all.append(ty)
        return ('t', len(self.tmp_all) - 1)

    def release(self, r):
        if r[0] == 't':
            self.tmp_free[self.tmp_all[r[1]]].append(r)

    def label(self):
        self.nlab += 1
        return 'L%d' % self.nlab

    def emit(self, name, **f):
        self.items.append(('i', name, f))

    def mark(self, lab):
        self.items.append(('l', lab))

    def chance(self, p=0.5):
        return self.rng.random() < p

    # -- constants ----------------------------------------------------------------------------
    def const(self, dst, ty, v):
        forms = []
        if ty == I:
            if -8 <= v <= 7:
                forms.append('const/4')
            if -32768 <= v <= 32767:
                forms.append('const/16')
            if v & 0xffff == 0:
                forms.append('const/high16')
            forms.append('const')
        else:
            if -32768 <= v <= 32767:
                forms.append('const-wide/16')
            if -(1 << 31) <= v < (1 << 31):
                forms.append('const-wide/32')
            if v & ((1 << 48) - 1) == 0:
                forms.append('const-wide/high16')
            forms.append('const-wide')
        # compilers pick the shortest form; the longer legal forms are used now and then
        form = forms[0] if self.chance(0.8) else self.rng.choice(forms)
        if form in ('const/high16', 'const-wide/high16') and forms[0] != form and v == 0:
            form = forms[0]
        self.used.add(form)
        if form == 'const/4':
            self.emit(form, A=('reg', dst), B=v)
        elif form in ('const/16', 'const-wide/16'):
            self.emit(form, AA=('reg', dst), BBBB=v)
        elif form == 'const/high16':
            self.emit(form, AA=('reg', dst), BBBB=s32(v) >> 16)
        elif form == 'const-wide/high16':
            self.emit(form, AA=('reg', dst), BBBB=s64(v) >> 48)
        elif form in ('const', 'const-wide/32'):
            self.emit(form, AA=('reg', dst), BBBBBBBB=v)
        else:
            self.emit(form, AA=('reg', dst), BBBBBBBBBBBBBBBB=v)

    # -- expressions --------------------------------------------------------------------------
    def ev(self, e, want=None):
        """Compile e; returns the register holding its value (a variable's own register for ['v',..],
        `want` or a fresh temporary otherwise)."""
        k = e[0]
        ty = e[1]
        if k == 'v':
            return self.var(e[2])
        dst = want if want is not None else None
        if k == 'c':
            dst = dst or self.tmp(ty)
            self.const(dst, ty, e[2])
            return dst
        if k == 'u':
            a = self.ev(e[3])
            self.release(a)
            dst = dst or self.tmp(ty)
            name = '%s-%s' % (e[2], 'int' if ty == I else 'long')
            self.used.add(name)
            self.emit(name, A=('reg', dst), B=('reg', a))
            return dst
        if k == 'k':
            a = self.ev(e[3])
            self.release(a)
            dst = dst or self.tmp(ty)
            name = {'i2l': 'int-to-long', 'l2i': 'long-to-int', 'i2b': 'int-to-byte', 'i2s': 'int-to-short',
                    'i2c': 'int-to-char'}[e[2]]
            self.used.add(name)
            self.emit(name, A=('reg', dst), B=('reg', a))
            return dst
        op, x, y = e[2], e[3], e[4]
        sfx = 'int' if ty == I else 'long'
        if ty == I:
            # literal forms (what dx/d8 do with a constant operand)
            if x[0] == 'c' and y[0] != 'c' and op in COMMUTATIVE:
                x, y = y, x
            if y[0] == 'c' and x[0] != 'c':
                c = y[2]
                lop = op
                if op == 'sub' and -32767 <= c <= 32768:
                    lop, c = 'add', -c
                forms = []
                if lop in LIT8_OPS and -128 <= c <= 127 and 'lit8' in self.lower:
                    forms.append('lit8')
                if lop in LIT16_OPS and -32768 <= c <= 32767 and 'lit16' in self.lower:
                    forms.append('lit16')
                divzero = c == 0 and lop in ('div', 'rem')
                if forms and divzero:
                    # `x / 0` and `x % 0` are legal Java (they throw at run time): every encoding a compiler may pick is
                    # used with the same weight - /lit8, /lit16, or the constant in a register (3-register and 2addr forms)
                    zform = self.rng.choice(forms + ['reg'])
                    forms = [zform] if zform != 'reg' else []
                if forms:
                    a = self.ev(x)
                    self.release(a)
                    dst = dst or self.tmp(ty)
                    form = forms[0] if self.chance(0.85) else self.rng.choice(forms)
                    name = '%s-int/%s' % (lop, form)
                    self.used.add(name)
                    self.used.add(form)
                    if divzero:
                        self.used.add('divzero:' + name)
                    if form == 'lit8':
                        self.emit(name, AA=('reg', dst), BB=('reg', a), CC=c)
                    else:
                        self.emit(name, A=('reg', dst), B=('reg', a), CCCC=c)
                    return dst
            if x[0] == 'c' and y[0] != 'c' and op == 'sub' and -32768 <= x[2] <= 32767 and 'rsub' in self.lower:
                c = x[2]
                a = self.ev(y)
                self.release(a)
                dst = dst or self.tmp(ty)
                self.used.add('rsub')
                if -128 <= c <= 127 and self.chance(0.65):
                    self.used.add('rsub-int/lit8')
                    self.emit('rsub-int/lit8', AA=('reg', dst), BB=('reg', a), CC=c)
                else:
                    self.used.add('rsub-int')
                    self.emit('rsub-int', A=('reg', dst), B=('reg', a), CCCC=c)
                return dst
        a = self.ev(x)
        b = self.ev(y)
        self.release(b)
        self.release(a)
        dst = dst or self.tmp(ty)
        name = '%s-%s' % (op, sfx)
        if dst == b and dst != a and op in COMMUTATIVE:
            a, b = b, a
        divzero = op in ('div', 'rem') and ((y[0] == 'c' and y[2] == 0) or (y[0] == 'v' and y[2] in self.zero_vars))
        if dst == a and '2addr' in self.lower and self.chance(0.8):
            self.used.add('2addr')
            self.used.add(name + '/2addr')
            self.emit(name + '/2addr', A=('reg', dst), B=('reg', b))
            if divzero:
                self.used.add('divzero:' + name + '/2addr')
        else:
            self.used.add(name)
            self.emit(name, AA=('reg', dst), BB=('reg', a), CC=('reg', b))
            if divzero:
                self.used.add('divzero:' + name)
        return dst

    # -- conditions ---------------------------------------------------------------------------
    def branch(self, c, target, negate):
        """emit one conditional branch to `target` taken when cmp-condition c (negated if `negate`) holds"""
        op, x, y = c[1], c[2], c[3]
        if negate:
            op = CMP_NEG[op]
        ty = x[1]
        if ty == J:
            a = self.ev(x)
            b = self.ev(y)
            self.release(b)
            self.release(a)
            t = self.tmp(I)
            self.release(t)
            self.used.add('cmp-long')
            self.emit('cmp-long', AA=('reg', t), BB=('reg', a), CC=('reg', b))
            self.emit('if-%sz' % op, AA=('reg', t), BBBB=('lab', target))
            return
        if x[0] == 'c' and x[2] == 0 and y[0] != 'c':
            x, y, op = y, x, CMP_SWAP[op]
        if y[0] == 'c' and y[2] == 0:
            a = self.ev(x)
            self.release(a)
            self.used.add('if-testz')
            self.emit('if-%sz' % op, AA=('reg', a), BBBB=('lab', target))
            return
        a = self.ev(x)
        b = self.ev(y)
        self.release(b)
        self.release(a)
        self.used.add('if-test')
        self.emit('if-%s' % op, A=('reg', a), B=('reg', b), CCCC=('lab', target))

    def cond(self, c, t, f, fall):
        """jump to t when c holds, to f otherwise; `fall` ('t'/'f') names the label that follows physically"""
        if c[0] == 'cmp':
            if fall == 't':
                self.branch(c, f, True)
            else:
                self.branch(c, t, False)
        elif c[0] == 'and':
            mid = self.label()
            self.cond(c[1], mid, f, 't')
            self.mark(mid)
            self.cond(c[2], t, f, fall)
        else:
            mid = self.label()
            self.cond(c[1], t, mid, 'f')
            self.mark(mid)
            self.cond(c[2], t, f, fall)

    # -- statements ---------------------------------------------------------------------------
    def block(self, blk):
        for s in blk:
            self.stmt(s)

    def stmt(self, s):
        k = s[0]
        if k == 'set':
            dst = self.var(s[1])
            e = s[2]
            if e[0] == 'v':
                src = self.var(e[2])
                if src != dst:
                    n = 'move' if e[1] == I else 'move-wide'
                    self.used.add(n)
                    self.emit(n, A=('reg', dst), B=('reg', src))
            else:
                self.ev(e, want=dst)
        elif k == 'if':
            T, E, END = self.label(), self.label(), self.label()
            self.cond(s[1], T, E, 't')
            self.mark(T)
            self.block(s[2])
            if s[3]:
                if falls(s[2]):
                    self.emit('goto', AA=('lab', END))
                self.mark(E)
                self.block(s[3])
                self.mark(END)
            else:
                self.mark(E)
        elif k == 'loop':
            _, kind, cv, bound, step, extra, body = s
            c = ['cmp', 'lt', ['v', I, cv], ['c', I, bound]]
            if extra is not None:
                c = ['and', c, extra]
            HEAD, BODY, EXIT = self.label(), self.label(), self.label()
            self.const(self.var(cv), I, 0)
            self.loop_exit.append(EXIT)
            inc = ['set', cv, ['b', I, 'add', ['v', I, cv], ['c', I, step]]]
            if kind == 'while':
                bottom = 'loop_bottom' in self.lower and self.chance(0.4)
                if bottom:
                    self.used.add('loop_bottom')
                    self.emit('goto', AA=('lab', HEAD))
                    self.mark(BODY)
                    self.block(body)
                    self.stmt(inc)
                    self.mark(HEAD)
                    self.cond(c, BODY, EXIT, 'f')
                else:
                    self.mark(HEAD)
                    self.cond(c, BODY, EXIT, 't')
                    self.mark(BODY)
                    self.block(body)
                    self.stmt(inc)
                    self.emit('goto', AA=('lab', HEAD))
            else:
                self.mark(BODY)
                self.block(body)
                self.stmt(inc)
                self.cond(c, BODY, EXIT, 'f')
            self.mark(EXIT)
            self.loop_exit.pop()
        elif k == 'breakif':
            CONT = self.label()
            self.cond(s[1], self.loop_exit[-1], CONT, 'f')
            self.mark(CONT)
        elif k == 'switch':
            _, e, cases, default, kind = s
            r = self.ev(e)
            self.release(r)
            PAY, END = self.label(), self.label()
            labs = [self.label() for _ in cases]
            DEF = self.label()
            for i in range(len(cases) - 1, -1, -1):
                if not cases[i][1]:           # `case K: break;` / `case K:` falling into the next one: no code of its own
                    if cases[i][2]:
                        labs[i] = labs[i + 1] if i + 1 < len(cases) else DEF
                    else:
                        labs[i] = END
            table = []
            for (keys, blk, ft), lab in zip(cases, labs):
                for key in keys:
                    table.append((key, lab))
            table.sort()
            self.used.add(kind + '-switch')
            self.emit(kind + '-switch', AA=('reg', r), BBBBBBBB=('lab', PAY))
            self.mark(DEF)
            self.block(default)
            if falls(default):
                self.emit('goto', AA=('lab', END))
            laid = [i for i, c in enumerate(cases) if c[1]]
            for n, i in enumerate(laid):
                keys, blk, ft = cases[i]
                self.mark(labs[i])
                self.block(blk)
                if falls(blk):
                    last = i + 1 == len(cases)
                    target = (DEF if last else labs[i + 1]) if ft else END
                    physical_next = labs[laid[n + 1]] if n + 1 < len(laid) else END
                    if target != physical_next:
                        self.emit('goto', AA=('lab', target))
            self.mark(END)
            self.items.append(('payload', kind, PAY, table, DEF))
        elif k == 'ret':
            e = s[1]
            r = self.ev(e)
            self.release(r)
            self.emit('return' if e[1] == I else 'return-wide', AA=('reg', r))
        else:
            raise ValueError(s)


def _sizeof(ty):
    return 1 if ty == I else 2


def compile_program(prog):
    lo = _Lowering(prog)
    lo.block(prog['body'])
    assert not falls(prog['body']), 'program falls off its end'
    # a trailing label (e.g. END of a last if whose branches all return) needs an instruction: none is reachable,
    # compilers do not emit one; drop trailing labels that nothing jumps to, otherwise fail loudly
    # register assignment: locals, temporaries, then parameters (the last `ins` registers)
    regmap = {}
    n = 0
    for i in range(lo.np, len(lo.types)):
        regmap[('l', i)] = n
        n += _sizeof(lo.types[i])
    for k, ty in enumerate(lo.tmp_all):
        regmap[('t', k)] = n
        n += _sizeof(ty)
    ins = 0
    for i in range(lo.np):
        regmap[('p', i)] = n + ins
        ins += _sizeof(lo.types[i])
    regs = n + ins
    if regs > MAX_REGS:
        raise Reject(regs)

    items = lo.items
    # drop unreferenced labels, check that the stream does not end on a referenced label
    referenced = set()
    for it in items:
        if it[0] == 'i':
            for v in it[2].values():
                if isinstance(v, tuple) and v[0] == 'lab':
                    referenced.add(v[1])
        elif it[0] == 'payload':
            referenced.add(it[2])
            referenced.update(l for _, l in it[3])
            referenced.add(it[4])
    # layout: iterate goto widths until stable
    wide_goto = set()
    for _ in range(10):
        pos = 0
        labels = {}
        at = []
        for idx, it in enumerate(items):
            if it[0] == 'l':
                labels[it[1]] = pos
            elif it[0] == 'i':
                at.append((idx, pos))
                name = it[1]
                if name == 'goto' and idx in wide_goto:
                    name = 'goto/16'
                pos += ds.units_of(ds.BY_NAME[name])
        code_end = pos
        pay_pos = {}
        for it in items:
            if it[0] == 'payload':
                if pos % 2:
                    pos += 1
                pay_pos[it[2]] = pos
                labels[it[2]] = pos
                kind, table = it[1], it[3]
                if kind == 'packed':
                    lo_key, hi_key = table[0][0], table[-1][0]
                    pos += ds.packed_payload_units(hi_key - lo_key + 1)
                else:
                    pos += ds.sparse_payload_units(len(table))
        changed = False
        for idx, p in at:
            it = items[idx]
            if it[1] == 'goto' and idx not in wide_goto:
                off = labels[it[2]['AA'][1]] - p
                if not -128 <= off <= 127 or off == 0:
                    wide_goto.add(idx)
                    changed = True
        if not changed:
            break
    else:
        raise AssertionError('goto layout did not converge')
    for lab in referenced:
        if labels[lab] >= code_end and lab not in pay_pos:
            raise AssertionError('label %s at the end of the code' % lab)

    out = bytearray()
    listing = []
    switch_at = {}
    for idx, p in at:
        it = items[idx]
        name, f = it[1], dict(it[2])
        if name == 'goto' and idx in wide_goto:
            name = 'goto/16'
            f = {'AAAA': f['AA']}
        vals = {}
        for fn, v in f.items():
            if isinstance(v, tuple) and v[0] == 'reg':
                vals[fn] = regmap[v[1]]
            elif isinstance(v, tuple) and v[0] == 'lab':
                vals[fn] = labels[v[1]] - p
                if v[1] in pay_pos:
                    switch_at[v[1]] = p
            else:
                vals[fn] = v
        assert len(out) == 2 * p
        out += ds.encode(name, **vals)
        listing.append('%04x: %s %s' % (p, name, ', '.join(
            ('v%d' % vals[fn]) if isinstance(f[fn], tuple) and f[fn][0] == 'reg' else
            ('%+d' % vals[fn]) if isinstance(f[fn], tuple) else ('#%d' % vals[fn]) for fn in f)))
    for it in items:
        if it[0] != 'payload':
            continue
        kind, lab, table, dflt = it[1], it[2], it[3], it[4]
        while len(out) < 2 * pay_pos[lab]:
            out += b'\x00\x00'          # nop padding to 4-byte alignment
            listing.append('%04x: nop' % (len(out) // 2 - 1))
        base = switch_at[lab]
        if kind == 'packed':
            first, last = table[0][0], table[-1][0]
            tgt = dict(table)
            targets = [labels[tgt[k]] if k in tgt else labels[dflt] for k in range(first, last + 1)]
            out += struct.pack('<HHi', ds.PAYLOAD_PACKED, len(targets), first)
            out += b''.join(struct.pack('<i', t - base) for t in targets)
            listing.append('%04x: packed-switch-payload first=%d targets=%s' % (pay_pos[lab], first, targets))
        else:
            out += struct.pack('<HH', ds.PAYLOAD_SPARSE, len(table))
            out += b''.join(struct.pack('<i', k) for k, _ in table)
            out += b''.join(struct.pack('<i', labels[l] - base) for _, l in table)
            listing.append('%04x: sparse-switch-payload keys=%s targets=%s' % (
                pay_pos[lab], [k for k, _ in table], [labels[l] for _, l in table]))
    used = set(lo.used)
    return Compiled(bytes(out), regs, ins, listing, used)


# ----------------------------------------------------------------------------------------------------------
# Argument tuples
# ----------------------------------------------------------------------------------------------------------
BOUND_I = [0, 1, -1, 2, 31, 32, 33, 63, 64, -31, 127, 128, 255, 256, 32767, 32768, 65535, 65536,
           (1 << 31) - 1, -(1 << 31), -(1 << 31) + 1, 0x55555555, -0x55555556]
BOUND_J = BOUND_I + [(1 << 32) - 1, 1 << 32, -(1 << 32), (1 << 63) - 1, -(1 << 63), -(1 << 63) + 1, 0x123456789, -0x123456789]


def arg_tuples(prog, seed, n_random=6):
    """Boundary tuples (every parameter at the same boundary / one parameter at a boundary, the others small)
    and random tuples. Deterministic in (prog, seed)."""
    rng = random.Random(seed)
    ps = prog['params']
    out = []
    if not ps:
        return [[]]
    for k in range(len(BOUND_J)):
        out.append([(BOUND_I[k % len(BOUND_I)] if t == I else BOUND_J[k]) for t in ps])
    for _ in range(n_random):
        t = []
        for ty in ps:
            m = rng.random()
            if m < 0.35:
                t.append(rng.randrange(-10, 11))
            elif m < 0.6:
                t.append(rng.choice(BOUND_I if ty == I else BOUND_J))
            else:
                t.append(s32(rng.getrandbits(32)) if ty == I else s64(rng.getrandbits(64)))
        out.append(t)
    for _ in range(n_random):
        out.append([rng.choice(BOUND_I if ty == I else BOUND_J) for ty in ps])
    seen, res = set(), []
    for t in out:
        if tuple(t) not in seen:
            seen.add(tuple(t))
            res.append(t)
    return res


# ----------------------------------------------------------------------------------------------------------
# Hypothesis strategy
# ----------------------------------------------------------------------------------------------------------
def _vars_of(e, out=None):
    out = set() if out is None else out
    es = []
    _walk_exprs(e, es)
    for x in es:
        if x[0] == 'v':
            out.add(x[2])
    return out


def _cond_vars(c):
    es, cs = [], []
    _walk_cond(c, es, cs)
    return {x[2] for x in es if x[0] == 'v'}


def programs(features=FEATURES, max_stmts=6):
    """Strategy for programs. Generator features that are *off* are excluded by construction:
    deep off             control structures are nested at most three levels deep
    loop_return off      no return statement inside a loop body
    break_in_if off      `if (c) break;` only as a statement of the loop body itself, not inside a nested if
    switch_inner_return off   a return inside a switch case is the last statement of the case block, never nested deeper
    fallthrough off      no case block falls through into the next one (several labels for one block remain)
    fallthrough_any off  a case only falls through when it has a single label and the next case's smallest label is the
                         next entry of the switch table (what a switch written in label order compiles to)
    narrow_switch off    a program with a case label outside 0..127 has no byte/short/char cast (a selector of such a
                         type would not admit the label)
    dead_branch off      every branch / case / loop body updates the accumulator (a local that every return reads), so
                         no branch is without effect
    dowhile_kill off     inside a do-while body every assignment reads its own target (`v = f(v, ..)`) and no loop is nested
                         in it, so no variable has all its reaching definitions inside a do-while body
    const_loop_cond off  every comparison evaluated inside a loop reads a variable that never holds a compile-time constant
                         (a parameter, the accumulator or the counter of an enclosing loop)
    narrow_join on       (needs cast_narrow) up to two times per program a dedicated int local is assigned byte/short/char casts
                         of different kinds on different paths and read right after the join - what
                         `int v; if (c) v = (byte) a; else v = (char) b; return v;` compiles to. Joins: if/else (optionally a
                         third kind in a nested else-if), a narrow assignment followed by one or two ifs without else, the
                         cases + default of a switch, loop-carried (assigned before a loop and again, from itself, in its
                         body). Reads: folded into the accumulator, into another local, or returned.
    narrow_join off      no read of a local has two or more reaching definitions that are all byte/short/char casts of
                         different kinds (narrow_joins(prog) is empty: if the other features produce one by chance the casts
                         are removed from the program)
    div_zero on          (needs divrem) at most once per program a division or remainder by zero, int or long - what `x / 0`,
                         `x % 0` and `z = 0; .. x / z` compile to (javac accepts them, they throw ArithmeticException at run
                         time). Divisor: the literal 0 (the lowering picks /lit8, /lit16 or a constant register with equal weight;
                         long: const-wide register) or a dedicated local that only ever holds 0 (set right before or at the top
                         of the method). Quotient: dead (`t = x / 0` or `t = x; t = t / 0`, t never read), read only inside one
                         arm of a later if (by the accumulator or a return), read after an if whose arm returns, used normally
                         (assigned to a live local, `w = w / 0`, folded into the accumulator, returned). div_zeros(prog) measures it.
    div_zero off         the dedicated statement is not generated (0 remains a literal like any other, so a division by it may
                         still be drawn by chance)
    narrow_reuse on      (needs cast_narrow) at most once per program a dedicated int local R is assigned a byte/short/char cast
                         on one path and is itself the operand of a cast (mostly of the same kind) where its reaching definition
                         is a wider value: `R = a + b; if (c) { R = (byte) a; return R; } return (byte) R;`. Shapes: ret_arm (as
                         quoted, and mirrored), if (`R = wide; if (c) R = (K) e;` then the cast), ifelse (`if (c) R = (K) e; else
                         R = (K) R;` either way round), switch (cases assign (K) e or (K) R), loop (`R = (K) e; loop { .. (K) R ..;
                         R = R + x; }`). The cast of R goes into the accumulator, another local, R itself (int-to-byte vR, vR)
                         or a return. narrow_reuses(prog) measures it.
    narrow_reuse off     the dedicated construct is not generated
    hoist on             at most once per program two or three dedicated locals t1..tk (int or long) are computed in one block
                         from the same variable x by different operators / forms (x op literal, x op y, literal - x, -x, ~x, a
                         cast of x) and each is read exactly once in ONE later block that is entered through a branch - what
                         common subexpressions hoisted above a branch compile to:
                         `t1 = a + 1; t2 = a * 2; if (b > 0) { r = r ^ t1; a -= 7; r += t2; } return r + a;`.
                         The block of the reads: the arm or the else arm of an if, the body of a loop, a case or the default of a
                         switch, or the statements behind an if (join). x (a parameter or a plain local, sometimes given a
                         second definition under an if just before) is assigned again between two of the reads (half of the
                         time; one time in four that assignment itself reads one of the temporaries: `a = a - t2`), before the
                         first read, after the last one, in the first block behind the temporaries, or not at all; x is mostly
                         read again behind the construct, so that its definitions meet. The reads go into the accumulator or
                         another local. hoists(prog) measures it.
    hoist off            the dedicated construct is not generated
    """
    from hypothesis import strategies as st
    F = frozenset(features)

    small = st.integers(-8, 7)
    lit8 = st.integers(-128, 127)
    lit16 = st.integers(-32768, 32767)
    int32 = st.one_of(st.integers(-(1 << 31), (1 << 31) - 1), st.sampled_from(BOUND_I),
                      st.integers(-32768, 32767).map(lambda v: s32(v << 16)))
    int64 = st.one_of(st.integers(-(1 << 63), (1 << 63) - 1), st.sampled_from(BOUND_J),
                      st.integers(-32768, 32767).map(lambda v: s64(v << 48)),
                      st.integers(-(1 << 31), (1 << 31) - 1))

    def const_of(ty):
        if 'bigconst' in F:
            vals = st.one_of(small, small, lit8, lit16, int32 if ty == I else int64)
        else:
            vals = st.one_of(small, small, lit8, lit16)
        return vals.map(lambda v: ['c', ty, v])

    bin_ops = [op for op in BIN_OPS if OP_FEATURE[op] in F]
    un_ops = [op for op in ('neg', 'not') if op in F]
    fold_ops = [op for op in ('add', 'xor', 'sub', 'or', 'and', 'mul') if OP_FEATURE[op] in F]

    @st.composite
    def expr(draw, ty, vars_, depth):
        """vars_: {type: [indices]} of readable variables"""
        choices = []
        if vars_[ty]:
            choices += ['v', 'v']
        choices.append('c')
        if depth > 0:
            if bin_ops:
                choices += ['b', 'b', 'b']
            if un_ops:
                choices.append('u')
            if ty == I and 'cast_narrow' in F:
                choices.append('narrow')
            if ty == I and 'cast_l2i' in F and 'long' in F:
                choices.append('l2i')
            if ty == J and 'cast_i2l' in F:
                choices += ['i2l', 'i2l']
        k = draw(st.sampled_from(choices))
        if k == 'v':
            return ['v', ty, draw(st.sampled_from(vars_[ty]))]
        if k == 'c':
            return draw(const_of(ty))
        if k == 'b':
            op = draw(st.sampled_from(bin_ops))
            a = draw(expr(ty, vars_, depth - 1))
            if op in ('shl', 'shr', 'ushr'):
                b = draw(expr(I, vars_, min(depth - 1, 1)))
            else:
                b = draw(expr(ty, vars_, depth - 1))
            # literal operands are what exercises the /lit8, /lit16 and rsub forms
            form = draw(st.integers(0, 5))
            if form == 0 and ty == I:
                b = ['c', I, draw(st.one_of(small, lit8, lit16))]
            elif form in (1, 2) and ty == I and op == 'sub':
                a, b = ['c', I, draw(st.one_of(small, lit8, lit16, lit16))], (a if a[0] != 'c' else b)
            if a[0] == 'c' and b[0] == 'c':
                # compilers fold constant expressions; keep one side variable when possible
                if vars_[a[1]]:
                    a = ['v', a[1], draw(st.sampled_from(vars_[a[1]]))]
                else:
                    return ['c', ty, wrap(ty, 0 if op in ('div', 'rem') else a[2])]
            return ['b', ty, op, a, b]
        if k == 'u':
            a = draw(expr(ty, vars_, depth - 1))
            if a[0] == 'c':
                return a
            return ['u', ty, draw(st.sampled_from(un_ops)), a]
        if k == 'narrow':
            a = draw(expr(I, vars_, depth - 1))
            if a[0] == 'c':
                return a
            return ['k', I, draw(st.sampled_from(['i2b', 'i2s', 'i2c'])), a]
        if k == 'l2i':
            a = draw(expr(J, vars_, depth - 1))
            if a[0] == 'c':
                return ['c', I, s32(a[2])]
            return ['k', I, 'l2i', a]
        if k == 'i2l':
            a = draw(expr(I, vars_, depth - 1))
            if a[0] == 'c':
                return ['c', J, a[2]]
            return ['k', J, 'i2l', a]
        raise AssertionError(k)

    @st.composite
    def program(draw):
        crng_base = draw(st.integers(0, 1 << 30))
        crng = random.Random(crng_base)         # shape choices of the div_zero / narrow_reuse / hoist constructs, see pick()
        nparams = draw(st.integers(1, 3))
        tys = [I, I, I, J] if 'long' in F else [I]
        params = [draw(st.sampled_from(tys)) for _ in range(nparams)]
        ret = draw(st.sampled_from(tys))
        nloc = draw(st.integers(0, 3))
        locals_ = list(params) + [draw(st.sampled_from(tys)) for _ in range(nloc)]
        use_acc = bool(fold_ops)
        acc = len(locals_) if use_acc else None
        if use_acc:
            locals_.append(ret)
        counters = []
        hidden = []                    # dedicated locals (narrow joins / reuses, div_zero): read and written only by their construct
        nregs = []                     # those of the narrow joins / reuses
        zero_init = []                 # const-0 locals of div_zero that get their value at the top of the method
        state = {'budget': draw(st.integers(1, max_stmts)), 'loops': 0, 'nj': 0, 'dz': 0, 'nr': 0, 'ho': 0}
        nj_on = 'narrow_join' in F and 'cast_narrow' in F
        nr_on = 'narrow_reuse' in F and 'cast_narrow' in F
        dz_on = 'div_zero' in F and 'divrem' in F
        ho_on = 'hoist' in F
        nc_base = set(range(nparams)) | ({acc} if use_acc else set())     # never hold a compile-time constant

        def readable():
            return {I: [i for i, t in enumerate(locals_) if t == I and i not in hidden],
                    J: [i for i, t in enumerate(locals_) if t == J and i not in hidden]}

        def writable():
            return [i for i in range(len(locals_)) if i not in counters and i != acc and i not in hidden]

        def combine(ty, a, b):
            if a[0] == 'c' and b[0] == 'c':
                return a
            ops = [op for op in fold_ops] or bin_ops
            if not ops:
                return a
            op = draw(st.sampled_from(ops))
            if op in ('shl', 'shr', 'ushr') and b[1] != I:
                return a
            return ['b', ty, op, a, b]

        def nc_term(ty, nc):
            """an expression of type ty that reads a never-constant variable, or None"""
            same = sorted(v for v in nc if locals_[v] == ty)
            if same:
                return ['v', ty, draw(st.sampled_from(same))]
            other = sorted(v for v in nc if locals_[v] != ty)
            if other:
                if ty == J and 'cast_i2l' in F:
                    return ['k', J, 'i2l', ['v', I, draw(st.sampled_from(other))]]
                if ty == I and 'cast_l2i' in F:
                    return ['k', I, 'l2i', ['v', J, draw(st.sampled_from(other))]]
            return None

        def with_nc(ty, e, nc):
            if _vars_of(e) & nc:
                return e
            t = nc_term(ty, nc)
            if t is None:
                return e
            return t if e[0] == 'c' and not fold_ops else combine(ty, t, e)

        def assign(v, e, self_read, nc):
            ty = locals_[v]
            if e[0] == 'v' and e[2] == v:
                e = draw(const_of(ty))
            if v in nc_base and 'const_loop_cond' not in F:
                e = with_nc(ty, e, nc_base)
            if self_read and v not in _vars_of(e):
                e2 = combine(ty, ['v', ty, v], e)
                e = e2 if v in _vars_of(e2) else ['b', ty, 'add', ['v', ty, v], e] if 'arith' in F else e2
            return ['set', v, e]

        def cmp_(vars_, depth, nc):
            if not vars_[I]:
                ty = J
            elif vars_[J] and draw(st.integers(0, 3)) == 0:
                ty = J
            else:
                ty = I
            op = draw(st.sampled_from(['eq', 'ne', 'lt', 'ge', 'gt', 'le']))
            a = draw(expr(ty, vars_, depth))
            b = draw(st.one_of(st.just(['c', ty, 0]), expr(ty, vars_, min(depth, 1))))
            if a[0] == 'c' and b[0] == 'c':
                # a comparison of two constants is folded by compilers: keep one side variable
                a = ['v', ty, draw(st.sampled_from(vars_[ty]))]
            if nc is not None and not ((_vars_of(a) | _vars_of(b)) & nc):
                t = nc_term(ty, nc)
                if t is not None:
                    a = t if a[0] == 'c' else combine(ty, t, a)
            return ['cmp', op, a, b]

        def cond(vars_, depth, nest, nc):
            if 'compound' in F and nest > 0 and draw(st.integers(0, 2)) == 0:
                return [draw(st.sampled_from(['and', 'or'])), cond(vars_, depth, nest - 1, nc), cond(vars_, depth, nest - 1, nc)]
            return cmp_(vars_, depth, nc)

        def acc_update():
            e = draw(expr(ret, readable(), 1))
            return ['set', acc, combine(ret, ['v', ret, acc], e)] if e[0] != 'v' or e[2] != acc else \
                ['set', acc, combine(ret, ['v', ret, acc], draw(const_of(ret)))]

        def ret_stmt(depth):
            e = draw(expr(ret, readable(), depth))
            if use_acc and ('dead_branch' not in F or draw(st.booleans())) and acc not in _vars_of(e):
                e = combine(ret, ['v', ret, acc], e)
            return ['ret', e]

        def with_effect(blk):
            """make sure the (non-empty) block has an effect that every later return observes"""
            if not use_acc or not blk:
                return blk
            if 'dead_branch' in F and draw(st.booleans()):
                return blk
            hi = len(blk) if falls(blk) else len(blk) - 1
            k = draw(st.integers(0, hi))
            return blk[:k] + [acc_update()] + blk[k:]

        body = []
        # definite assignment: every local gets a value first (from the parameters / earlier locals)
        for i in range(nparams, nparams + nloc):
            vs = {I: [k for k in range(i) if locals_[k] == I], J: [k for k in range(i) if locals_[k] == J]}
            body.append(['set', i, draw(expr(locals_[i], vs, 2))])
        if use_acc:
            vs = {I: [k for k in range(acc) if locals_[k] == I], J: [k for k in range(acc) if locals_[k] == J]}
            e = draw(expr(ret, vs, 2))
            body.append(['set', acc, with_nc(ret, e, set(range(nparams)))])
        ninit = len(body)

        def filler(self_read, nc):
            v = draw(st.sampled_from(writable()))
            return assign(v, draw(expr(locals_[v], readable(), 1)), self_read, nc)

        def nj_kinds(loop_depth, self_read, nest_ok):
            """the join kinds of a narrow join that are legal here"""
            if not nj_on or state['nj'] >= 2 or self_read or not nest_ok:
                return []
            if not (use_acc and (ret == I or 'cast_i2l' in F)) and not [w for w in writable() if locals_[w] == I]:
                return []               # nothing could read the joined value
            vs = readable()
            if not vs[I] and not (vs[J] and 'cast_l2i' in F):
                return []
            ks = []
            if 'if' in F:
                ks.append('if')
                if 'else' in F:
                    ks += ['ifelse', 'ifelse']
            if ('packed' in F or 'sparse' in F) and loop_depth < 2:
                ks.append('switch')
            if ('while' in F or 'dowhile' in F) and state['loops'] < 2 and (loop_depth == 0 or 'nested' in F) and loop_depth < 2:
                ks.append('loop')
            return ks

        def narrow_join(jk, loop_depth, can_ret, nc, depth):
            """-> statements: [narrow assignment,] join statement, one or two reads of the joined local"""
            state['nj'] += 1
            if nregs and draw(st.booleans()):
                nv = nregs[-1]          # the register is used again (what a register allocator does with a dead local)
            else:
                nv = len(locals_)
                locals_.append(I)
                hidden.append(nv)
                nregs.append(nv)
            order = list(draw(st.permutations(['i2b', 'i2s', 'i2c'])))
            deep_ok = depth + 1 < 3 or 'deep' in F

            def operand():
                vs = readable()
                e = draw(expr(I, vs, 1))
                if e[0] == 'c':
                    if vs[I]:
                        e = ['v', I, draw(st.sampled_from(vs[I]))]
                    else:
                        e = ['k', I, 'l2i', ['v', J, draw(st.sampled_from(vs[J]))]]
                return e

            def narrow_set(kind, e=None):
                return ['set', nv, ['k', I, kind, e if e is not None else operand()]]

            def from_self(kind):
                e = combine(I, ['v', I, nv], operand())
                if e[0] != 'b' and bin_ops:
                    e = ['b', I, 'add' if 'arith' in F else bin_ops[0], ['v', I, nv], operand()]
                return narrow_set(kind, e)

            def arm(kind, sr=False):
                """sr: inside a do-while body with dowhile_kill off (every assignment reads its own target)"""
                blk = [from_self(kind) if sr else narrow_set(kind)]
                if draw(st.integers(0, 3)) == 0:
                    blk.insert(0, filler(sr, nc))
                return with_effect(blk)

            out = []
            if jk == 'ifelse':
                els = arm(order[1])
                if deep_ok and draw(st.integers(0, 2)) == 0:
                    els = with_effect([['if', cond(readable(), 1, 1, nc), arm(order[1]), arm(order[2])]])
                out.append(['if', cond(readable(), 1, 2, nc), arm(order[0]), els])
            elif jk == 'if':
                out.append(narrow_set(order[0]))
                out.append(['if', cond(readable(), 1, 2, nc), arm(order[1]), []])
                if draw(st.integers(0, 2)) == 0:
                    out.append(['if', cond(readable(), 1, 1, nc), arm(order[2]), []])
            elif jk == 'switch':
                kind = draw(st.sampled_from([x for x in ('packed', 'sparse') if x in F]))
                vs = readable()
                e = draw(expr(I, vs, 1))
                if e[0] == 'k' and e[2] in ('i2b', 'i2s', 'i2c'):
                    e = e[3]
                if e[0] == 'c':
                    e = operand()
                if e[0] == 'k' and e[2] in ('i2b', 'i2s', 'i2c'):
                    e = e[3]
                ncase = draw(st.integers(1, 3))
                if kind == 'packed':
                    first = draw(st.integers(0, 5))
                    keys = list(range(first, first + ncase))
                else:
                    keys = sorted(draw(st.lists(st.integers(0, 127), min_size=ncase, max_size=ncase, unique=True)))
                ks = [order[(j + 1) % 3] for j in range(ncase)]
                if ncase == 1 or draw(st.booleans()):
                    dflt = arm(order[0])             # every path assigns: `int v; switch (..) {.. default: v = ..}`
                else:
                    out.append(narrow_set(order[0]))
                    dflt = []
                out.append(['switch', e, [[[key], arm(k_), False] for key, k_ in zip(keys, ks)], dflt, kind])
            elif jk == 'loop':
                state['loops'] += 1
                out.append(narrow_set(order[0]))
                cv = len(locals_)
                locals_.append(I)
                counters.append(cv)
                lk = draw(st.sampled_from([x for x in ('while', 'dowhile') if x in F]))
                inner_nc = None if 'const_loop_cond' in F else (nc_base | {cv} | ((nc or set()) - nc_base))
                extra = cond(readable(), 1, 1, inner_nc) if ('compound' in F and draw(st.integers(0, 3)) == 0) else None
                body = [from_self(order[1])]
                if 'if' in F and deep_ok and draw(st.integers(0, 2)) == 0:
                    sr = lk == 'dowhile' and 'dowhile_kill' not in F
                    body.append(['if', cond(readable(), 1, 1, inner_nc), arm(order[2], sr), []])
                out.append(['loop', lk, cv, draw(st.integers(1, 5)), draw(st.sampled_from([1, 1, 2])), extra, with_effect(body)])
            # reads of the joined value
            term = ['v', I, nv]
            for n_use in range(draw(st.integers(1, 2))):
                opts = []
                if use_acc and (ret == I or 'cast_i2l' in F):
                    opts += ['acc', 'acc']
                wr = [w for w in writable() if locals_[w] == I]
                if wr:
                    opts += ['var']
                if can_ret and (ret == I or 'cast_i2l' in F):
                    opts.append('ret')
                u = draw(st.sampled_from(opts))
                t = term if ret == I or u == 'var' else ['k', J, 'i2l', term]
                if u == 'acc':
                    out.append(['set', acc, combine(ret, ['v', ret, acc], t)])
                elif u == 'var':
                    w = draw(st.sampled_from(wr))
                    e = term if draw(st.integers(0, 2)) == 0 else combine(I, term, draw(expr(I, readable(), 1)))
                    out.append(assign(w, e, False, nc))
                else:
                    with_acc = use_acc and ('dead_branch' not in F or draw(st.booleans()))     # as in ret_stmt()
                    out.append(['ret', combine(ret, ['v', ret, acc], t) if with_acc else t])
                    break
            return out

        def pick(options):
            """uniform choice. Deep inside a large example sampled_from / integers lean heavily towards the first element /
            small values (a fifth of all integers(0, 2**30) draws are 0), which starves the later alternatives of a construct:
            these choices come from a generator that is re-seeded, before every decision about the two constructs, with a
            checksum of a drawn seed and of everything generated so far (so still a function of the drawn values only)"""
            return options[crng.randrange(len(options))]

        def reseed(blk):
            crng.seed(zlib.crc32(repr((crng_base, state, locals_, body, blk)).encode()))

        def coin(n=2):
            return crng.randrange(n) == 0

        def lift(e):
            """the int / long expression e as a term of the return type, or None"""
            if e[1] == ret:
                return e
            if ret == J:
                return ['k', J, 'i2l', e] if 'cast_i2l' in F else None
            return ['k', I, 'l2i', e] if 'cast_l2i' in F else None

        def read_into(term, can_ret, nc):
            """one statement that reads `term` (an expression of the return type): the accumulator, or a return"""
            if can_ret and (not use_acc or coin(3)):
                with_acc = use_acc and ('dead_branch' not in F or coin())     # as in ret_stmt()
                return ['ret', combine(ret, ['v', ret, acc], term) if with_acc else term]
            if use_acc:
                return ['set', acc, combine(ret, ['v', ret, acc], term)]
            return None

        def div_zero(can_ret, nested_ret, self_read, nc, nest_ok):
            """-> statements around one division / remainder by zero (see programs())"""
            state['dz'] += 1
            vs = readable()
            ty = pick([t for t in (I, I, J) if vs[t]])
            op = pick(['div', 'rem'])
            out = []

            def dividend():
                e = draw(expr(ty, vs, 1))
                return e if _vars_of(e) else ['v', ty, pick(vs[ty])]

            if crng.randrange(5) < 2:
                z = len(locals_)           # a register that holds the constant 0
                locals_.append(ty)
                hidden.append(z)
                if self_read or coin():
                    zero_init.append(z)
                else:
                    out.append(['set', z, ['c', ty, 0]])
                zero = ['v', ty, z]
            else:
                zero = ['c', ty, 0]

            def hidden_local():
                t = len(locals_)
                locals_.append(ty)
                hidden.append(t)
                return t

            uses = ['normal', 'normal']
            if not self_read:
                uses += ['dead', 'dead']
                if 'if' in F and nest_ok and lift(['v', ty, 0]) is not None and (use_acc or nested_ret):
                    uses += ['arm', 'arm']
                    if nested_ret:
                        uses += ['after_exit', 'after_exit']
            use = pick(uses)
            if use == 'dead':
                t = hidden_local()
                if coin(3):
                    out.append(['set', t, dividend()])      # t = x; t = t / 0: the dividend is the target (2addr shape)
                    out.append(['set', t, ['b', ty, op, ['v', ty, t], zero]])
                else:
                    out.append(['set', t, ['b', ty, op, dividend(), zero]])
            elif use in ('arm', 'after_exit'):
                t = hidden_local()
                out.append(['set', t, ['b', ty, op, dividend(), zero]])
                if coin(4):
                    out.append(filler(False, nc))
                term = lift(['v', ty, t])
                other = [acc_update()] if use_acc else [filler(False, nc)]
                if use == 'arm':
                    reader = [read_into(term, nested_ret, nc)]
                    if 'else' in F and coin():
                        if nested_ret and coin(3):
                            other = other + [ret_stmt(1)]
                        arms = (reader, other) if coin() else (other, reader)
                    else:
                        arms = (reader, [])
                    out.append(['if', cond(readable(), 1, 2, nc), arms[0], arms[1]])
                else:
                    leave = ([acc_update()] if use_acc and coin() else []) + [ret_stmt(1)]
                    if 'else' in F and coin(3):
                        out.append(['if', cond(readable(), 1, 2, nc), other, leave])
                    else:
                        out.append(['if', cond(readable(), 1, 2, nc), leave, []])
                    out.append(read_into(term, can_ret, nc))
            else:
                wr = [w for w in writable() if locals_[w] == ty]
                opts = []
                if wr:
                    opts += ['var', 'self']
                if lift(['v', ty, 0]) is not None:
                    if use_acc:
                        opts += ['acc', 'acc']
                    if can_ret and not self_read:
                        opts += ['ret']
                k = pick(opts) if opts else None
                if k == 'var':
                    out.append(assign(pick(wr), ['b', ty, op, dividend(), zero], self_read, nc))
                elif k == 'self':
                    w = pick(wr)
                    out.append(assign(w, ['b', ty, op, ['v', ty, w], zero], self_read, nc))
                elif k == 'acc':
                    out.append(['set', acc, combine(ret, ['v', ret, acc], lift(['b', ty, op, dividend(), zero]))])
                elif k == 'ret':
                    e = lift(['b', ty, op, dividend(), zero])
                    with_acc = use_acc and ('dead_branch' not in F or coin())
                    out.append(['ret', combine(ret, ['v', ret, acc], e) if with_acc else e])
            return out

        def nr_kinds(loop_depth, self_read, nest_ok, nested_ret):
            """the shapes of a narrow reuse that are legal here"""
            if not nr_on or state['nr'] >= 1 or self_read or not nest_ok:
                return []
            if not (use_acc and (ret == I or 'cast_i2l' in F)) and not [w for w in writable() if locals_[w] == I]:
                return []               # nothing could read the value
            vs = readable()
            if not vs[I] and not (vs[J] and 'cast_l2i' in F):
                return []
            ks = []
            if 'if' in F:
                ks += ['if', 'if']
                if 'else' in F:
                    ks += ['ifelse', 'ifelse']
                if nested_ret and (ret == I or 'cast_i2l' in F):
                    ks += ['ret_arm', 'ret_arm', 'ret_arm']
            if ('packed' in F or 'sparse' in F) and loop_depth < 2:
                ks.append('switch')
            if ('while' in F or 'dowhile' in F) and state['loops'] < 2 and (loop_depth == 0 or 'nested' in F) and loop_depth < 2:
                ks.append('loop')
            return ks

        def narrow_reuse(jk, can_ret, nc, depth):
            """-> statements: a local that is a byte/short/char on one path and the operand of such a cast on another"""
            state['nr'] += 1
            if nregs and coin():
                nv = nregs[-1]
            else:
                nv = len(locals_)
                locals_.append(I)
                hidden.append(nv)
                nregs.append(nv)
            kind = pick(['i2b', 'i2s', 'i2c'])
            kind2 = kind if not coin(4) else pick(['i2b', 'i2s', 'i2c'])
            deep_ok = depth + 1 < 3 or 'deep' in F
            me = ['v', I, nv]
            ret_ok = ret == I or 'cast_i2l' in F

            def operand():
                vs = readable()
                e = draw(expr(I, vs, 1))
                while e[0] == 'k' and e[2] in NARROW_LETTER:
                    e = e[3]
                if e[0] == 'c':
                    if vs[I]:
                        e = ['v', I, pick(vs[I])]
                    else:
                        e = ['k', I, 'l2i', ['v', J, pick(vs[J])]]
                return e

            def wide():
                e = operand()
                if e[0] == 'v' and bin_ops and coin():
                    o = operand()
                    op = pick(bin_ops)
                    if op not in ('div', 'rem'):
                        e = ['b', I, op, e, o]
                return e

            def narrow_set(k_, e=None):
                return ['set', nv, ['k', I, k_, e if e is not None else operand()]]

            def read_me(can_ret_here):
                """one or two statements that read the local"""
                opts = []
                if use_acc and ret_ok:
                    opts += ['acc', 'acc']
                wr = [w for w in writable() if locals_[w] == I]
                if wr:
                    opts.append('var')
                if can_ret_here and ret_ok:
                    opts.append('ret')
                u = pick(opts)
                if u == 'acc':
                    return [['set', acc, combine(ret, ['v', ret, acc], lift(me))]]
                if u == 'var':
                    e = me if coin(3) else combine(I, me, draw(expr(I, readable(), 1)))
                    return [assign(pick(wr), e, False, nc)]
                with_acc = use_acc and ('dead_branch' not in F or coin())
                return [['ret', combine(ret, ['v', ret, acc], lift(me)) if with_acc else lift(me)]]

            def cast_use(k_, can_ret_here, in_body=False):
                """statements that apply the cast to the local: into the accumulator, another local, the local itself, a return"""
                cast = ['k', I, k_, me]
                opts = ['self'] if not in_body else []
                if use_acc and ret_ok:
                    opts += ['acc', 'acc']
                wr = [w for w in writable() if locals_[w] == I]
                if wr:
                    opts.append('var')
                if can_ret_here and ret_ok and not in_body:
                    opts.append('ret')
                u = pick(opts)
                if u == 'self':
                    return [['set', nv, cast]] + read_me(can_ret_here)
                if u == 'acc':
                    return [['set', acc, combine(ret, ['v', ret, acc], lift(cast))]]
                if u == 'var':
                    return [assign(pick(wr), cast, in_body, nc)]
                with_acc = use_acc and ('dead_branch' not in F or coin())
                return [['ret', combine(ret, ['v', ret, acc], lift(cast)) if with_acc else lift(cast)]]

            def arm(stmts):
                if coin(4):
                    stmts = [filler(False, nc)] + stmts
                return with_effect(stmts) if falls(stmts) else stmts

            out = []
            if jk == 'ret_arm':
                out.append(['set', nv, wide()])
                if not coin(3):
                    # R = wide; if (c) { R = (K) e; return R; } .. (K) R ..
                    out.append(['if', cond(readable(), 1, 2, nc), arm([narrow_set(kind)] + read_me(True)[:1]), []])
                    if falls(out[-1][2]):
                        out[-1][2].append(['ret', combine(ret, ['v', ret, acc], lift(me)) if use_acc else lift(me)])
                    out += cast_use(kind2, can_ret)
                else:
                    # the mirror image: R = wide; if (c) return (K) R; R = (K) e; .. R ..
                    c_ = ['k', I, kind2, me]
                    out.append(['if', cond(readable(), 1, 2, nc),
                                arm([['ret', combine(ret, ['v', ret, acc], lift(c_)) if use_acc else lift(c_)]]), []])
                    out.append(narrow_set(kind))
                    out += read_me(can_ret)
            elif jk == 'if':
                out.append(['set', nv, wide()])
                out.append(['if', cond(readable(), 1, 2, nc), arm([narrow_set(kind)]), []])
                out += cast_use(kind2, can_ret)
            elif jk == 'ifelse':
                out.append(['set', nv, wide()])
                a_, b_ = arm([narrow_set(kind)]), arm([['set', nv, ['k', I, kind2, me]]])
                if coin():
                    a_, b_ = b_, a_
                out.append(['if', cond(readable(), 1, 2, nc), a_, b_])
                out += read_me(can_ret)
            elif jk == 'switch':
                out.append(['set', nv, wide()])
                skind = pick([x for x in ('packed', 'sparse') if x in F])
                e = operand()
                ncase = pick([2, 3])
                if skind == 'packed':
                    first = pick(range(6))
                    keys = list(range(first, first + ncase))
                else:
                    keys = sorted(draw(st.lists(st.integers(0, 127), min_size=ncase, max_size=ncase, unique=True)))
                blocks = [arm([narrow_set(kind)]), arm([['set', nv, ['k', I, kind2, me]]])]
                if ncase == 3:
                    blocks.append(arm([narrow_set(kind)]) if coin() else arm([['set', nv, ['k', I, kind, me]]]))
                blocks = list(draw(st.permutations(blocks)))
                dflt = arm([narrow_set(kind)]) if coin(3) else []
                out.append(['switch', e, [[[key], blk_, False] for key, blk_ in zip(keys, blocks)], dflt, skind])
                out += cast_use(kind2, can_ret) if coin() else read_me(can_ret)
            elif jk == 'loop':
                state['loops'] += 1
                out.append(narrow_set(kind))
                cv = len(locals_)
                locals_.append(I)
                counters.append(cv)
                lk = pick([x for x in ('while', 'dowhile') if x in F])
                inner_nc = None if 'const_loop_cond' in F else (nc_base | {cv} | ((nc or set()) - nc_base))
                extra = cond(readable(), 1, 1, inner_nc) if ('compound' in F and coin(4)) else None
                body = cast_use(kind2, False, True)
                o = operand()
                wops = [x for x in bin_ops if x not in ('div', 'rem')]
                body.append(['set', nv, ['b', I, pick(wops), me, o]] if wops else narrow_set(kind2, me))
                out.append(['loop', lk, cv, pick([2, 3, 4, 5]), pick([1, 1, 2]), extra, with_effect(body)])
                if coin():
                    out += cast_use(kind2, can_ret)
            return [x for x in out if x is not None]

        def ho_usable(ty, x):
            """can a value of type ty be consumed: by the accumulator, or by a plain local of that type other than x"""
            return (use_acc and lift(['v', ty, 0]) is not None) or any(locals_[w] == ty and w != x for w in writable())

        def ho_forms(ty, x):
            """the ways a temporary is computed from x: (form, operator or cast, type of the temporary)"""
            fs = []
            for op in bin_ops:
                fs.append(('lit', op, ty))
                if op not in ('div', 'rem'):           # a division only by a literal other than 0: it cannot throw
                    fs.append(('var', op, ty))
                if op == 'sub':
                    fs.append(('rlit', op, ty))
            for op in un_ops:
                fs.append(('un', op, ty))
            if ty == I and 'cast_narrow' in F:
                fs.append(('cast', None, I))
            if ty == I and 'cast_i2l' in F and 'long' in F and ho_usable(J, x):
                fs.append(('cast', 'i2l', J))
            if ty == J and 'cast_l2i' in F and ho_usable(I, x):
                fs.append(('cast', 'l2i', I))
            return fs

        def ho_sources():
            """the variables the temporaries of a hoist may be computed from"""
            room = 10 - sum(_sizeof(t_) for t_ in locals_)       # the short forms address 16 registers; expressions need ~6
            return [x for x in writable() if 2 * _sizeof(locals_[x]) <= room and ho_usable(locals_[x], x)
                    and len(ho_forms(locals_[x], x)) >= 2]

        def hoist_kinds(loop_depth, self_read, nest_ok):
            """the blocks that may hold the reads of hoisted temporaries here"""
            if not ho_on or state['ho'] >= 1 or self_read or not nest_ok or not ho_sources():
                return []
            ks = []
            if 'if' in F:
                ks += ['arm', 'arm', 'arm', 'join']
                if 'else' in F:
                    ks += ['else', 'else']
            if ('packed' in F or 'sparse' in F) and loop_depth < 2:
                ks += ['case', 'case']
            if ('while' in F or 'dowhile' in F) and state['loops'] < 2 and (loop_depth == 0 or 'nested' in F) and loop_depth < 2:
                ks.append('loop')
            return ks

        def hoist(jk, nc):
            """-> statements: [a second definition of x under an if,] the temporaries, [x assigned again,] the statement whose
            arm / body / case holds the reads (join: followed by the reads), [a read of x]"""
            state['ho'] += 1
            xs = ho_sources()
            kinds_ = sorted({x < nparams for x in xs})
            is_param = pick(kinds_)
            x = pick([v for v in xs if (v < nparams) == is_param])
            ty = locals_[x]
            me = ['v', ty, x]
            wops = [op for op in bin_ops if op not in ('div', 'rem')]

            def operand(t_, shift=False):
                """a literal or a variable other than x (a shift distance is an int)"""
                if shift:
                    return ['c', I, 1 + crng.randrange(31 if t_ == I else 63)]
                vs = [v for v in readable()[t_] if v != x]
                if vs and coin():
                    return ['v', t_, pick(vs)]
                c = draw(const_of(t_))
                return c if c[2] != 0 else ['c', t_, pick([1, 2, 3, 5, -1, 7, 100])]

            def from_x(form, op, tty):
                if form == 'lit':
                    if op in ('shl', 'shr', 'ushr'):
                        return ['b', ty, op, me, operand(ty, True)]
                    c = draw(const_of(ty))
                    if c[2] == 0:
                        c = ['c', ty, pick([1, 2, 3, 5, -1, 7, 100])]
                    return ['b', ty, op, me, c]
                if form == 'rlit':
                    return ['b', ty, op, draw(const_of(ty)), me]
                if form == 'var':
                    if op in ('shl', 'shr', 'ushr'):
                        vs = [v for v in readable()[I] if v != x]
                        return ['b', ty, op, me, ['v', I, pick(vs)] if vs else operand(ty, True)]
                    vs = [v for v in readable()[ty] if v != x]
                    y = ['v', ty, pick(vs)] if vs else ['c', ty, pick([2, 3, 5, -1, 7, 100])]
                    return ['b', ty, op, y, me] if y[0] == 'v' and coin(3) else ['b', ty, op, me, y]
                if form == 'un':
                    return ['u', ty, op, me]
                return ['k', tty, op if op is not None else pick(['i2b', 'i2s', 'i2c']), me]

            k = pick([2, 2, 3]) if sum(_sizeof(t_) for t_ in locals_) + 3 * _sizeof(ty) <= 10 else 2
            forms = ho_forms(ty, x)
            crng.shuffle(forms)
            seen_, chosen = set(), []
            for f_ in forms:                       # different operators / forms
                if (f_[0] == 'cast' or f_[1] not in seen_) and len(chosen) < k:
                    chosen.append(f_)
                    seen_.add(f_[1])
            if len(chosen) < 2:
                chosen = forms[:2]
            temps = []
            b0 = []
            for form, op, tty in chosen:
                e = from_x(form, op, tty)
                if coin(5):
                    # a larger expression around it
                    o = operand(tty)
                    e2 = combine(tty, e, o)
                    if x in _vars_of(e2):
                        e = e2
                t = len(locals_)
                locals_.append(tty)
                hidden.append(t)
                temps.append((t, tty))
                b0.append(['set', t, e])
            crng.shuffle(temps)                    # the order of the reads is independent of the order of the assignments

            def use_stmt(t, tty, sr, nc_):
                opts = []
                if use_acc and lift(['v', tty, t]) is not None:
                    opts += ['acc', 'acc']
                wr = [w for w in writable() if locals_[w] == tty and w != x]
                if wr:
                    opts.append('var')
                if pick(opts) == 'acc':
                    return ['set', acc, combine(ret, ['v', ret, acc], lift(['v', tty, t]))]
                w = pick(wr)
                if (sr or coin()) and wops:
                    op = pick(wops)
                    e = ['b', tty, op, ['v', tty, w], ['v', tty, t]] if op not in ('shl', 'shr', 'ushr') or tty == I else ['v', tty, t]
                else:
                    e = combine(tty, ['v', tty, t], draw(expr(tty, readable(), 1)))
                    if t not in _vars_of(e):
                        e = ['v', tty, t]
                return assign(w, e, sr, nc_)

            def kill_stmt(sr, nc_, consume=None):
                """x is assigned again: from itself (and one of the temporaries), or something else altogether"""
                if consume is not None and wops:
                    op = pick([o for o in wops if o not in ('shl', 'shr', 'ushr')] or wops)
                    if op not in ('shl', 'shr', 'ushr') or ty == I:
                        return assign(x, ['b', ty, op, me, ['v', ty, consume]], sr, nc_)
                if (sr or not coin(3)) and wops:
                    op = pick(wops)
                    return assign(x, ['b', ty, op, me, operand(ty, op in ('shl', 'shr', 'ushr'))], sr, nc_)
                return assign(x, draw(expr(ty, readable(), 1)), sr, nc_)

            def reads(sr, nc_, where):
                """the block of the reads"""
                blk = [use_stmt(t, tty, sr, nc_) for t, tty in temps]
                if where == 'between':
                    j = 1 + crng.randrange(len(temps) - 1)
                    t, tty = temps[j - 1]
                    if tty == ty and coin(4):
                        ks = kill_stmt(sr, nc_, t)
                        if t in _vars_of(ks[2]):
                            blk[j - 1] = ks            # the assignment of x is itself the read: x = x - t
                        else:
                            blk.insert(j, ks)
                    else:
                        blk.insert(j, kill_stmt(sr, nc_))
                elif where == 'before':
                    blk.insert(0, kill_stmt(sr, nc_))
                elif where == 'after':
                    blk.append(kill_stmt(sr, nc_))
                if coin(4):
                    blk.insert(crng.randrange(len(blk) + 1), filler(sr, nc_))
                if use_acc and not any(s_[0] == 'set' and s_[1] == acc and acc in _vars_of(s_[2]) for s_ in blk):
                    blk = with_effect(blk)
                return blk

            def other():
                return with_effect([filler(False, nc)]) if use_acc else [filler(False, nc)]

            out = []
            if 'if' in F and coin(3):
                # x gets a second definition first: the temporaries read a variable whose definitions meet
                out.append(['if', cond(readable(), 1, 1, nc), with_effect([kill_stmt(False, nc)]), []])
            where = pick(['between'] * 5 + ['before', 'after', 'b0', 'none'])
            out += b0
            if where == 'b0':
                out.append(kill_stmt(False, nc))
            if jk in ('arm', 'else'):
                b1 = reads(False, nc, where)
                if jk == 'arm':
                    out.append(['if', cond(readable(), 1, 2, nc), b1, other() if 'else' in F and coin(3) else []])
                else:
                    out.append(['if', cond(readable(), 1, 2, nc), other(), b1])
            elif jk == 'join':
                out.append(['if', cond(readable(), 1, 2, nc), other(), other() if 'else' in F and coin(3) else []])
                out += reads(False, nc, where)
            elif jk == 'case':
                skind = pick([z for z in ('packed', 'sparse') if z in F])
                vs = readable()
                e = draw(expr(I, vs, 1))
                while e[0] == 'k' and e[2] in NARROW_LETTER:
                    e = e[3]                       # a byte/short/char selector would restrict the legal case labels
                if e[0] == 'c':
                    e = ['v', I, pick(vs[I])] if vs[I] else ['k', I, 'l2i', ['v', J, pick(vs[J])]] if 'cast_l2i' in F else None
                if e is None:
                    out.append(['if', cond(readable(), 1, 2, nc), reads(False, nc, where), []])
                else:
                    ncase = pick([1, 2, 2, 3])
                    if skind == 'packed':
                        first = pick(range(6))
                        keys = list(range(first, first + ncase))
                    else:
                        keys = sorted(crng.sample(range(0, 128), ncase))
                    slot = crng.randrange(ncase + 1)           # the last slot is the default block
                    blocks = [reads(False, nc, where) if n == slot else other() for n in range(ncase + 1)]
                    if slot != ncase and coin():
                        blocks[ncase] = []
                    out.append(['switch', e, [[[key], blk_, False] for key, blk_ in zip(keys, blocks)], blocks[ncase], skind])
            elif jk == 'loop':
                state['loops'] += 1
                cv = len(locals_)
                locals_.append(I)
                counters.append(cv)
                lk = pick([z for z in ('while', 'dowhile') if z in F])
                inner_nc = None if 'const_loop_cond' in F else (nc_base | {cv} | ((nc or set()) - nc_base))
                extra = cond(readable(), 1, 1, inner_nc) if ('compound' in F and coin(4)) else None
                sr = lk == 'dowhile' and 'dowhile_kill' not in F
                out.append(['loop', lk, cv, pick([1, 2, 3, 4]), pick([1, 1, 2]), extra, reads(sr, inner_nc, where)])
            if use_acc and lift(me) is not None and not coin(3):
                out.append(['set', acc, combine(ret, ['v', ret, acc], lift(me))])     # the definitions of x meet here
            return out

        def gen_block(loop_depth, in_loop, allow_ret, size, self_read, nc, in_if=False, in_case=False, depth=0):
            """self_read: inside a do-while body with dowhile_kill off. nc: the never-constant variables that conditions
            must read here (None outside loops or when const_loop_cond is on)"""
            blk = []
            n = draw(st.integers(1, size))
            for _ in range(n):
                if state['budget'] <= 0:
                    break
                state['budget'] -= 1
                kinds = ['set', 'set', 'set']
                nest_ok = depth < 3 or 'deep' in F
                if 'if' in F and nest_ok:
                    kinds += ['if', 'if']
                if ('while' in F or 'dowhile' in F) and state['loops'] < 2 and (loop_depth == 0 or 'nested' in F) \
                        and loop_depth < 2 and not self_read and nest_ok:
                    kinds += ['loop', 'loop']
                if ('packed' in F or 'sparse' in F) and loop_depth < 2 and nest_ok:
                    kinds.append('switch')
                if in_loop and 'break' in F and (not in_if or 'break_in_if' in F):
                    kinds += ['breakif', 'breakif']
                njk = nj_kinds(loop_depth, self_read, nest_ok)
                if njk:
                    kinds += ['njoin', 'njoin']
                # a return as a statement of this block / nested in an if of this block
                can_ret = allow_ret and loop_depth == 0 and not in_loop and (depth == 0 or 'early_return' in F)
                nested_ret = can_ret and 'early_return' in F and nest_ok and (not in_case or 'switch_inner_return' in F)
                nrk = nr_kinds(loop_depth, self_read, nest_ok, nested_ret)
                hok = hoist_kinds(loop_depth, self_read, nest_ok)
                k = draw(st.sampled_from(kinds))
                if (dz_on and state['dz'] < 1) or nrk or hok:
                    # the rates of these three constructs are set here, independently of the other statement kinds
                    reseed(blk)
                    r = crng.randrange(100)
                    if r < DZ_PERCENT and dz_on and state['dz'] < 1:
                        k = 'divzero'
                    elif DZ_PERCENT <= r < DZ_PERCENT + NR_PERCENT and nrk:
                        k = 'nreuse'
                    elif DZ_PERCENT + NR_PERCENT <= r < DZ_PERCENT + NR_PERCENT + HO_PERCENT and hok:
                        k = 'hoist'
                vs = readable()
                if k == 'njoin':
                    blk += narrow_join(draw(st.sampled_from(njk)), loop_depth, can_ret, nc, depth)
                    if not falls(blk):
                        break
                elif k == 'nreuse':
                    blk += narrow_reuse(pick(nrk), can_ret, nc, depth)
                    if not falls(blk):
                        break
                elif k == 'hoist':
                    blk += hoist(pick(hok), nc)
                elif k == 'divzero':
                    blk += [x for x in div_zero(can_ret, nested_ret, self_read, nc, nest_ok) if x is not None]
                    if not falls(blk):
                        break
                elif k == 'set':
                    v = draw(st.sampled_from(writable()))
                    blk.append(assign(v, draw(expr(locals_[v], vs, draw(st.integers(1, 3)))), self_read, nc))
                elif k == 'if':
                    c = cond(vs, 1, 2, nc)
                    inner_ret = allow_ret and (not in_case or 'switch_inner_return' in F)
                    then = gen_block(loop_depth, in_loop, inner_ret, 2, self_read, nc, True, in_case, depth + 1)
                    if not then:
                        then = [filler(self_read, nc)]
                    els = []
                    if 'else' in F and draw(st.booleans()):
                        els = gen_block(loop_depth, in_loop, inner_ret, 2, self_read, nc, True, in_case, depth + 1) or [filler(self_read, nc)]
                    if inner_ret and 'early_return' in F and draw(st.integers(0, 3)) == 0:
                        if falls(then):
                            then = then + [ret_stmt(1)]
                        if els and falls(els) and draw(st.booleans()):
                            els = els + [ret_stmt(1)]
                    blk.append(['if', c, with_effect(then), with_effect(els)])
                    if not falls([blk[-1]]):
                        break
                elif k == 'loop':
                    state['loops'] += 1
                    cv = len(locals_)
                    locals_.append(I)
                    counters.append(cv)
                    lk = draw(st.sampled_from([x for x in ('while', 'dowhile') if x in F]))
                    bound = draw(st.integers(1, 5))
                    step = draw(st.sampled_from([1, 1, 1, 2]))
                    inner_nc = None if 'const_loop_cond' in F else (nc_base | {cv} | ((nc or set()) - nc_base))
                    extra = cond(readable(), 1, 1, inner_nc) if ('compound' in F and draw(st.integers(0, 3)) == 0) else None
                    sr = self_read or (lk == 'dowhile' and 'dowhile_kill' not in F)
                    b = gen_block(loop_depth + 1, True, allow_ret and 'loop_return' in F and (not in_case or 'switch_inner_return' in F), 3, sr, inner_nc, False, in_case, depth + 1)
                    blk.append(['loop', lk, cv, bound, step, extra, with_effect(b) if b else ([acc_update()] if use_acc and 'dead_branch' not in F else b)])
                elif k == 'breakif':
                    blk.append(['breakif', cond(vs, 1, 1, nc)])
                elif k == 'switch':
                    kind = draw(st.sampled_from([x for x in ('packed', 'sparse') if x in F]))
                    e = draw(expr(I, vs, 1))
                    if e[0] == 'k' and e[2] in ('i2b', 'i2s', 'i2c'):
                        e = e[3]          # a byte/short/char selector would restrict the legal case labels
                    if e[0] == 'c':
                        if not vs[I]:
                            continue
                        e = ['v', I, draw(st.sampled_from(vs[I]))]
                    ncase = draw(st.integers(1, 4))
                    if kind == 'packed':
                        first = draw(st.one_of(st.integers(-3, 3), st.sampled_from([-(1 << 31), (1 << 31) - 8, 100, -100])))
                        span = draw(st.integers(ncase, ncase + 3))
                        pool = list(range(first, first + span))
                    else:
                        pool = sorted(set(draw(st.lists(st.one_of(st.integers(-20, 20), int32), min_size=ncase, max_size=ncase + 3, unique=True))))
                    perm = draw(st.permutations(pool))
                    keysets = [[] for _ in range(ncase)]
                    for j, key in enumerate(perm[:max(ncase, min(len(perm), ncase + 2))]):
                        keysets[j % ncase].append(key)
                    table_keys = sorted(k_ for ks_ in keysets for k_ in ks_)
                    if kind == 'packed':
                        table_keys = list(range(table_keys[0], table_keys[-1] + 1))
                    cases = []
                    for ks in keysets:
                        case_ret = allow_ret and (not in_case or 'switch_inner_return' in F)
                        cb = gen_block(loop_depth, False, case_ret, 2, self_read, nc, False, True, depth + 1)
                        if 'empty_case' in F and draw(st.integers(0, 5)) == 0:
                            cb = []               # `case K: break;`
                        elif not cb:
                            cb = [filler(self_read, nc)]
                        ft = 'fallthrough' in F and draw(st.integers(0, 4)) == 0
                        if case_ret and 'early_return' in F and cb and falls(cb) and draw(st.integers(0, 5)) == 0:
                            cb = cb + [ret_stmt(1)]
                        cases.append([sorted(ks), with_effect(cb), ft and falls(cb)])
                    if cases[-1][2]:
                        cases[-1][2] = False          # the last case has nothing to fall into (default is laid out first)
                    if 'fallthrough_any' not in F:
                        for ci in range(len(cases) - 1):
                            if cases[ci][2] and not _adjacent_fallthrough(cases[ci][0], cases[ci + 1][0], table_keys):
                                cases[ci][2] = False
                    dflt = gen_block(loop_depth, False, allow_ret and (not in_case or 'switch_inner_return' in F), 2, self_read, nc, False, True, depth + 1) if draw(st.booleans()) else []
                    blk.append(['switch', e, cases, with_effect(dflt), kind])
                    if not falls([blk[-1]]):
                        break
            return blk

        body += gen_block(0, False, True, max_stmts, False, None)
        if falls(body):
            if draw(st.integers(0, 3)) > 0 or 'dead_branch' not in F:
                # fold every assigned variable into the result so that little of the computation is dead
                stmts, _e, _c = [], [], []
                walk(body, stmts, _e, _c)
                live = sorted({s_[1] for s_, _d in stmts if s_[0] == 'set' and s_[1] not in counters and s_[1] not in hidden})
                acc_e = None
                for v in live:
                    t = ['v', locals_[v], v]
                    if locals_[v] != ret:
                        kf, kk = ('cast_l2i', 'l2i') if ret == I else ('cast_i2l', 'i2l')
                        if kf not in F:
                            continue
                        t = ['k', ret, kk, t]
                    acc_e = t if acc_e is None or not fold_ops else ['b', ret, draw(st.sampled_from(fold_ops)), acc_e, t]
                if acc_e is None:
                    acc_e = draw(expr(ret, readable(), 2))
                body.append(['ret', acc_e])
            else:
                body.append(ret_stmt(draw(st.integers(0, 3))))
        # loop counters are locals too: give them their initial value up front (definite assignment)
        init = [['set', cv, ['c', I, 0]] for cv in counters] + [['set', z, ['c', locals_[z], 0]] for z in zero_init]
        body = body[:ninit] + init + body[ninit:]
        if 'narrow_switch' not in F and _has_wide_case_label(body):
            body = _strip_narrow(body)
        if 'narrow_join' not in F and narrow_joins({'params': params, 'body': body}):
            body = _strip_narrow(body)
        return {'params': params, 'ret': ret, 'locals': locals_, 'body': body, 'acc': acc,
                'choices': draw(st.integers(0, (1 << 30))), 'lower': sorted(F & set(LOWER_FEATURES))}

    return program()


# ----------------------------------------------------------------------------------------------------------
# Batch shrinking support: all one-step reductions of a program
# ----------------------------------------------------------------------------------------------------------
def _sub_exprs_same_type(e):
    out = []
    if e[0] == 'b':
        for x in (e[3], e[4]):
            if x[1] == e[1]:
                out.append(x)
    elif e[0] in ('u', 'k'):
        if e[3][1] == e[1]:
            out.append(e[3])
    return out


def _expr_reductions(e):
    """smaller expressions of the same type"""
    out = list(_sub_exprs_same_type(e))
    if e[0] == 'c':
        for v in (0, 1, -1):
            if abs(v) < abs(e[2]):
                out.append(['c', e[1], v])
    if e[0] == 'b':
        for r in _expr_reductions(e[3]):
            out.append(['b', e[1], e[2], r, e[4]])
        for r in _expr_reductions(e[4]):
            out.append(['b', e[1], e[2], e[3], r])
    elif e[0] in ('u', 'k'):
        for r in _expr_reductions(e[3]):
            out.append([e[0], e[1], e[2], r])
    return out


def _cond_reductions(c):
    out = []
    if c[0] == 'cmp':
        for r in _expr_reductions(c[2]):
            out.append(['cmp', c[1], r, c[3]])
        for r in _expr_reductions(c[3]):
            out.append(['cmp', c[1], c[2], r])
    else:
        out += [c[1], c[2]]
        for r in _cond_reductions(c[1]):
            out.append([c[0], r, c[2]])
        for r in _cond_reductions(c[2]):
            out.append([c[0], c[1], r])
    return out


def _block_reductions(blk, in_loop):
    """list of smaller blocks"""
    out = []
    for i, s in enumerate(blk):
        rest_before, rest_after = blk[:i], blk[i + 1:]
        # delete the statement
        out.append(rest_before + rest_after)
        k = s[0]
        if k == 'set':
            for r in _expr_reductions(s[2]):
                out.append(rest_before + [['set', s[1], r]] + rest_after)
        elif k == 'ret':
            for r in _expr_reductions(s[1]):
                out.append(rest_before + [['ret', r]] + rest_after)
        elif k == 'if':
            out.append(rest_before + s[2] + rest_after)
            if s[3]:
                out.append(rest_before + s[3] + rest_after)
                out.append(rest_before + [['if', s[1], s[2], []]] + rest_after)
            for r in _cond_reductions(s[1]):
                out.append(rest_before + [['if', r, s[2], s[3]]] + rest_after)
            for r in _block_reductions(s[2], in_loop):
                out.append(rest_before + [['if', s[1], r, s[3]]] + rest_after)
            for r in _block_reductions(s[3], in_loop):
                out.append(rest_before + [['if', s[1], s[2], r]] + rest_after)
        elif k == 'loop':
            if not _has_break(s[6]):
                out.append(rest_before + s[6] + rest_after)
            if s[5] is not None:
                out.append(rest_before + [s[:5] + [None] + s[6:]] + rest_after)
                for r in _cond_reductions(s[5]):
                    out.append(rest_before + [s[:5] + [r] + s[6:]] + rest_after)
            if s[3] > 1:
                out.append(rest_before + [s[:3] + [s[3] - 1] + s[4:]] + rest_after)
            if s[4] > 1:
                out.append(rest_before + [s[:4] + [1] + s[5:]] + rest_after)
            for r in _block_reductions(s[6], True):
                out.append(rest_before + [s[:6] + [r]] + rest_after)
        elif k == 'breakif':
            for r in _cond_reductions(s[1]):
                out.append(rest_before + [['breakif', r]] + rest_after)
        elif k == 'switch':
            cases = s[2]
            if not in_loop or True:
                out.append(rest_before + s[3] + rest_after)
            for j, (keys, cb, ft) in enumerate(cases):
                if len(cases) > 1:
                    nc = cases[:j] + cases[j + 1:]
                    if nc[-1][2]:
                        nc = nc[:-1] + [[nc[-1][0], nc[-1][1], False]]
                    out.append(rest_before + [['switch', s[1], nc, s[3], s[4]]] + rest_after)
                if len(keys) > 1:
                    for kk in keys:
                        out.append(rest_before + [['switch', s[1], cases[:j] + [[[x for x in keys if x != kk], cb, ft]] + cases[j + 1:], s[3], s[4]]] + rest_after)
                if ft:
                    out.append(rest_before + [['switch', s[1], cases[:j] + [[keys, cb, False]] + cases[j + 1:], s[3], s[4]]] + rest_after)
                for r in _block_reductions(cb, False):
                    if r or True:
                        out.append(rest_before + [['switch', s[1], cases[:j] + [[keys, r, ft]] + cases[j + 1:], s[3], s[4]]] + rest_after)
            for r in _block_reductions(s[3], False):
                out.append(rest_before + [['switch', s[1], cases, r, s[4]]] + rest_after)
            for r in _expr_reductions(s[1]):
                if r[0] != 'c':
                    out.append(rest_before + [['switch', r, cases, s[3], s[4]]] + rest_after)
    return out


def _has_break(blk):
    for s in blk:
        if s[0] == 'breakif':
            return True
        if s[0] == 'if' and (_has_break(s[2]) or _has_break(s[3])):
            return True
        if s[0] == 'switch' and (any(_has_break(c[1]) for c in s[2]) or _has_break(s[3])):
            return True
    return False


def _break_outside_loop(blk, in_loop=False):
    for s in blk:
        k = s[0]
        if k == 'breakif' and not in_loop:
            return True
        if k == 'if' and (_break_outside_loop(s[2], in_loop) or _break_outside_loop(s[3], in_loop)):
            return True
        if k == 'loop' and _break_outside_loop(s[6], True):
            return True
        if k == 'switch' and (any(_break_outside_loop(c[1], False) for c in s[2]) or _break_outside_loop(s[3], False)):
            return True
    return False


def well_formed(prog):
    """definite assignment + reachability + no `break` outside a loop + the program returns on every path"""
    body = prog['body']
    if falls(body) or _break_outside_loop(body):
        return False
    np_ = len(prog['params'])

    def reach_ok(blk):
        for i, s in enumerate(blk):
            if not _falls_stmt(s) and i + 1 < len(blk):
                return False
            if s[0] == 'if' and not (reach_ok(s[2]) and reach_ok(s[3])):
                return False
            if s[0] == 'loop' and not reach_ok(s[6]):
                return False
            if s[0] == 'switch':
                if not reach_ok(s[3]) or not all(reach_ok(c[1]) for c in s[2]):
                    return False
        return True
    if not reach_ok(body):
        return False
    stmts, exprs, conds = [], [], []
    walk(body, stmts, exprs, conds)
    for e in exprs:
        if e[0] == 'b' and e[3][0] == 'c' and e[4][0] == 'c':
            return False
        if e[0] in ('u', 'k') and e[3][0] == 'c':
            return False
    for c in conds:
        if c[0] == 'cmp' and c[2][0] == 'c' and c[3][0] == 'c':
            return False
    for st_, _d in stmts:
        if st_[0] == 'if' and not st_[2]:
            return False
        if st_[0] == 'set' and st_[2][0] == 'v' and st_[2][2] == st_[1]:
            return False
        if st_[0] == 'switch' and st_[1][0] == 'k' and st_[1][2] != 'l2i':
            return False
        if st_[0] == 'switch' and st_[1][0] == 'c':
            return False
    # definite assignment (JLS 16, under-approximated: nothing assigned in a loop body counts after the loop)
    every = frozenset(range(len(prog['locals'])))

    class NotAssigned(Exception):
        pass

    def need_expr(e, a):
        if not _vars_of(e) <= a:
            raise NotAssigned()

    def need_cond(c, a):
        if not _cond_vars(c) <= a:
            raise NotAssigned()

    def da(blk, a):
        """-> the variables assigned when the block completes normally (all of them when it cannot)"""
        for s in blk:
            k = s[0]
            if k == 'set':
                need_expr(s[2], a)
                a = a | {s[1]}
            elif k == 'ret':
                need_expr(s[1], a)
                a = every
            elif k == 'if':
                need_cond(s[1], a)
                a = da(s[2], a) & da(s[3], a)
            elif k == 'loop':
                if s[2] not in a:
                    raise NotAssigned()        # the counter gets its first value up front
                if s[5] is not None:
                    need_cond(s[5], a)
                da(s[6], a)
            elif k == 'breakif':
                need_cond(s[1], a)
            elif k == 'switch':
                need_expr(s[1], a)
                out, prev = every, None
                for (_keys, cb, ft) in s[2]:
                    o = da(cb, a if prev is None else a & prev)
                    if ft:
                        prev = o
                    else:
                        prev = None
                        out = out & o
                a = out & da(s[3], a if prev is None else a & prev)
        return a
    try:
        da(body, frozenset(range(np_)))
    except NotAssigned:
        return False
    return True


def shrink_candidates(prog):
    out = []
    seen = set()
    for body in _block_reductions(prog['body'], False):
        p = dict(prog)
        p['body'] = body
        key = repr(body)
        if key in seen:
            continue
        seen.add(key)
        if well_formed(p):
            out.append(p)
    # a different lowering of the same AST is not "smaller"; keep choices
    return out


def size_of(prog):
    return len(repr(prog['body']))


# ----------------------------------------------------------------------------------------------------------
# DEX assembly (one class per program, always inside a package)
# ----------------------------------------------------------------------------------------------------------
PACKAGE = 'vf/gen'


def class_name(i, prefix='T'):
    return 'L%s/%s%d;' % (PACKAGE, prefix, i)


def build_dex(progs_, compiled=None, prefix='T', method='m'):
    """-> DEX bytes with class L vf/gen/<prefix><i>; holding `public static <ret> m(<params>)` for program i"""
    from vf.gen import dexgen
    classes = []
    for i, p in enumerate(progs_):
        c = compiled[i] if compiled is not None else compile_program(p)
        m = dexgen.Method(method, p['ret'], p['params'], 0x1 | 0x8, dexgen.Code(c.regs, c.ins, 0, c.insns))
        classes.append(dexgen.Class(class_name(i, prefix), access=0x1, dmethods=[m]))
    return dexgen.DexFile(classes).build()
