"""Hypothesis strategies that produce random, *well-formed* dexgen class models (no androguard import).

Everything here is typed from the DEX format specification (SimpleName alphabet, TypeDescriptor grammar,
access-flag tables, direct/virtual method partition, code_item register accounting). The output is a
vf.gen.dexgen.DexFile whose build() gives DEX bytes; the model is the oracle of the checks that use it.

API summary
-----------
Strategies
    simple_names(min_size=1, max_size=6)      DEX SimpleName: ASCII letters/digits, '$', '-', '_', non-ASCII BMP letters
                                              (U+00A1..U+1FFF, U+2010..U+2027, U+2030..U+D7FF, U+E000..U+FFEF) and
                                              supplementary characters (U+10000..U+10FFFF)
    class_descriptors(max_name=6, packages=None)   'L' [pkg '/']* SimpleName ';'  (default package, nested packages,
                                              Outer$Inner); packages = list of tuples of package segments to choose from
    type_descriptors(class_pool)              primitive | class from pool | array (1..3 dims) of those; never 'V'
                                              (type_list(class_pool) is the underlying candidate list)
    class_flags() -> int                      legal class_def access flag sets (public/final/abstract/interface/
                                              annotation/enum/synthetic)
    field_flags(static, interface=False, enum_ok=False) -> int
    method_flags(kind, abstract_ok=False) -> int   kind in 'static' 'private' 'virtual' ('<init>'/'<clinit>' flags are
                                              fixed: visibility|CONSTRUCTOR and STATIC|CONSTRUCTOR)
    insn_bytes(regs, ret, max_insns=6)        random valid instruction stream (nop, move, move/from16, const/4, const/16,
                                              const, add-int..ushr-int, */2addr, */lit8, neg-int, not-int) using only
                                              registers < regs and ending in the return sequence that fits `ret`
                                              (return-void | const/4 v0,0; return | return-object | const-wide/16; return-wide)
    codes(ret, params, static, tries=False, exc_types=(), max_insns=6)   -> dexgen.Code with consistent regs/ins/outs
                                              (ins = parameter words + this; regs >= ins; outs 0..5; with tries=True
                                              sometimes one try covering the body with typed and/or catch-all handlers)
    dex_models(min_classes=0, max_classes=8, max_fields=4, max_methods=4, static_values=False, annotations=False,
               tries=False, extra_refs=True, versions=('035', '037', '038', '039'), max_name=6)
                                              -> dexgen.DexFile (classes + extra_refs); call .build() yourself.
                                              static_values / annotations / tries switch on the optional sections
                                              (encoded_array; annotation item/set/directory; try/handler tables)
Helpers (pure functions)
    words(t)                                  register words of a type (2 for J and D)
    ins_size(params, static)                  incoming argument words (+1 for `this`)
    spaced_descriptor(ret, params)            '(A B C)R'  (androguard's notation)   jvm_descriptor -> '(ABC)R'
    field_sort_key(f), method_sort_key(m)     order of members of ONE class in field_ids/method_ids (= written order)
    sorted_sfields(cls)                       static fields in written order (static_values[k] belongs to [k])
    is_direct(m)                              static, private or constructor
    encode_insns(regs, ret, raw)              the deterministic encoder behind insn_bytes (raw = [(sel, a, b, lit)])
    pin_hypothesis()                          call once at import of a check: switches off Hypothesis' harvesting of
                                              constants from local source files (generation then depends on the seed only)
    ACC_* constants, PRIMS, OBJECT, STRING, EXTERNAL_CLASSES, EXTERNAL_INTERFACES, RETURN_OP

Cost: ~10-15 ms of Hypothesis generation per model with 0..8 classes (choices are packed into few draws: one
fixed-size binary draw per class/field/method dispensed by _Bits; do not replace it with st.integers over a large
range, which Hypothesis draws with a strong bias towards small values).

Guarantees of dex_models(): distinct class names; superclass graph acyclic (a class only extends/implements
earlier classes or external types); interfaces only have static fields and abstract public virtual methods;
(name,type) of fields and (name,ret,params) of methods distinct within a class (across static/instance and
direct/virtual); direct methods are exactly the static/private/constructor ones; abstract and native methods
have no code, all others have code; code registers >= ins, every register operand < registers;
static_values (when enabled) are a prefix of the static fields in written order with values of the field's type;
extra_refs add unrelated strings/types/fields/methods (also on the generated classes, which forces index
diffs > 1 in class_data).
"""
from hypothesis import strategies as st
from vf.gen import dexgen as g

ACC_PUBLIC, ACC_PRIVATE, ACC_PROTECTED, ACC_STATIC, ACC_FINAL = 0x1, 0x2, 0x4, 0x8, 0x10
ACC_SYNCHRONIZED, ACC_VOLATILE, ACC_BRIDGE, ACC_TRANSIENT, ACC_VARARGS = 0x20, 0x40, 0x40, 0x80, 0x80
ACC_NATIVE, ACC_INTERFACE, ACC_ABSTRACT, ACC_STRICT, ACC_SYNTHETIC = 0x100, 0x200, 0x400, 0x800, 0x1000
ACC_ANNOTATION, ACC_ENUM, ACC_CONSTRUCTOR, ACC_DECLARED_SYNCHRONIZED = 0x2000, 0x4000, 0x10000, 0x20000

PRIMS = 'ZBSCIJFD'
OBJECT = 'Ljava/lang/Object;'
STRING = 'Ljava/lang/String;'
EXTERNAL_CLASSES = [OBJECT, STRING, 'Ljava/lang/Runnable;', 'Ljava/util/List;', 'Landroid/app/Activity;',
                    'Ljava/lang/Throwable;', 'LExt;']
EXTERNAL_INTERFACES = ['Ljava/lang/Runnable;', 'Ljava/io/Serializable;', 'Ljava/lang/Comparable;', 'LExtI;']
# opcode of the return instruction by shorty class
RETURN_OP = {'V': 0x0e, 'J': 0x10, 'D': 0x10, 'L': 0x11, '[': 0x11}


# ------------------------------------------------------------------------------------------ helpers
def words(t):
    return 2 if t in ('J', 'D') else 1


def ins_size(params, static):
    return sum(words(p) for p in params) + (0 if static else 1)


def spaced_descriptor(ret, params):
    return '(' + ' '.join(params) + ')' + ret


def jvm_descriptor(ret, params):
    return '(' + ''.join(params) + ')' + ret


def field_sort_key(f):
    # field_ids are sorted by (class type idx, name string idx, type idx); strings sort by UTF-16 code units and
    # type ids sort by their descriptor's string idx, so inside one class:
    return (g.units(f.name), g.units(f.type))


def method_sort_key(m):
    # method_ids: (class, name string idx, proto idx); proto_ids: (return type idx, parameter type idx list)
    return (g.units(m.name), g.units(m.ret), [g.units(p) for p in m.params])


def sorted_sfields(cls):
    return sorted(cls.sfields, key=field_sort_key)


def is_direct(m):
    return bool(m.access & (ACC_STATIC | ACC_PRIVATE | ACC_CONSTRUCTOR))


def pin_hypothesis():
    """Make generation a function of the seed only. Hypothesis (>= 6.13x) harvests integer/str/bytes constants from
    every *local* module it finds in sys.modules -- here that includes androguard's source and every vf module -- and
    mixes them into draws; the pool grows as modules get imported, so the generated cases depend on import timing and on
    the source text of the code under test. Returning an empty pool removes that dependency. Harmless no-op if the
    internals are laid out differently in another Hypothesis version."""
    try:
        from hypothesis.internal.conjecture import providers
        from sortedcontainers import SortedSet
        from hypothesis.internal.floats import float_to_int
        empty = providers.Constants(integers=SortedSet(), floats=SortedSet(key=float_to_int), bytes=SortedSet(),
                                    strings=SortedSet())
        providers._get_local_constants = lambda: empty
    except Exception:           # pragma: no cover - different Hypothesis layout: keep its default behaviour
        pass


# ------------------------------------------------------------------------------------------ names
_ASCII_LETTERS = 'abcdefghijklmnopqrstuvwxyzABCDEFGHIJKLMNOPQRSTUVWXYZ'
_ASCII_NAME = _ASCII_LETTERS + '0123456789$_-'
# SimpleNameChar beyond ASCII (DEX spec, without the additions of DEX 040): U+00A1..U+1FFF, U+2010..U+2027,
# U+2030..U+D7FF, U+E000..U+FFEF, U+10000..U+10FFFF
_NOT_NAME = ''.join(chr(c) for c in list(range(0x2000, 0x2010)) + list(range(0x2028, 0x2030)) + list(range(0xfff0, 0x10000)))
_wide_char = st.characters(min_codepoint=0xa1, max_codepoint=0x10ffff, exclude_categories=('Cs',),
                           exclude_characters=_NOT_NAME)
_BOOST = '¡éÿĀαЖא߿ࠀ῿‐‧‰あ中퟿￯\U00010000\U00010400\U0001f600\U0010ffff$-_'


def _cat(*parts):
    return st.tuples(*parts).map(''.join)


def simple_names(min_size=1, max_size=6):
    """DEX SimpleName strings (each alternative is one or two native text draws, so generation stays cheap)"""
    h = max(1, max_size // 2)
    return st.one_of(
        st.text(alphabet=_ASCII_NAME, min_size=min_size, max_size=max_size),
        st.text(alphabet=_wide_char, min_size=min_size, max_size=max_size),
        st.text(alphabet=_BOOST, min_size=min_size, max_size=max_size),
        _cat(st.text(alphabet=_ASCII_NAME, min_size=min_size, max_size=h), st.text(alphabet=_BOOST, min_size=1, max_size=h)),
        _cat(st.text(alphabet=_wide_char, min_size=min_size, max_size=h), st.text(alphabet=_ASCII_NAME, min_size=1, max_size=h)),
    )


def _ascii_names(max_size=4):
    return st.text(alphabet=_ASCII_LETTERS + '0123456789$_', min_size=1, max_size=max_size)


def _names(max_size):
    # mostly short ASCII (so that prefixes/collisions between names are common), sometimes the full alphabet
    return st.one_of(_ascii_names(min(3, max_size)), _ascii_names(max_size), simple_names(1, max_size))


@st.composite
def class_descriptors(draw, max_name=6, packages=None):
    if packages is None:
        pk = draw(st.lists(_names(max_name), min_size=0, max_size=3))
    else:
        pk = list(draw(st.sampled_from(packages)))
    name = draw(_names(max_name))
    if draw(st.integers(0, 5)) == 0:
        name = name + '$' + draw(_names(max_name))
    return 'L' + '/'.join(pk + [name]) + ';'


def type_list(class_pool):
    """candidate field/parameter types (never 'V'): primitives, pool classes, arrays of 1..3 dimensions"""
    base = list(PRIMS) * 2 + list(class_pool)
    return base * 4 + ['[' * k + b for k in (1, 2, 3) for b in list(PRIMS) + list(class_pool)]


def type_descriptors(class_pool):
    """field / parameter types: never 'V'"""
    return st.sampled_from(type_list(class_pool))


# ------------------------------------------------------------------------------------------ flags
class _Bits:
    """one integer draw dispensed as several small uniform choices (keeps the number of Hypothesis draws low;
    the all-zero draw selects the first alternative everywhere, which is what shrinking converges to)"""

    def __init__(self, draw, bits=48):
        # fixed-size binary, not st.integers: large integer ranges are drawn with a strong bias to small values
        n = (bits + 7) // 8
        self.v = int.from_bytes(draw(st.binary(min_size=n, max_size=n)), 'little')

    def take(self, n):
        r = self.v % n
        self.v //= n
        return r

    def pick(self, seq):
        return seq[self.take(len(seq))]

    def one_in(self, n):
        return self.take(n) == n - 1


def _class_flags(draw, r=None):
    r = r or _Bits(draw)
    f = r.pick([ACC_PUBLIC, 0, ACC_PUBLIC])
    kind = r.pick(['plain', 'plain', 'final', 'abstract', 'interface', 'plain', 'annotation', 'enum'])
    if kind == 'final':
        f |= ACC_FINAL
    elif kind == 'abstract':
        f |= ACC_ABSTRACT
    elif kind == 'interface':
        f |= ACC_INTERFACE | ACC_ABSTRACT
    elif kind == 'annotation':
        f |= ACC_INTERFACE | ACC_ABSTRACT | ACC_ANNOTATION
    elif kind == 'enum':
        f |= ACC_ENUM | r.pick([ACC_FINAL, 0])
    if r.one_in(8):
        f |= ACC_SYNTHETIC
    return f


_VIS = [ACC_PUBLIC, 0, ACC_PRIVATE, ACC_PROTECTED]


def _field_flags(draw, static, interface=False, enum_ok=False, r=None):
    if interface:
        return ACC_PUBLIC | ACC_STATIC | ACC_FINAL
    r = r or _Bits(draw)
    f = r.pick(_VIS)
    if static:
        f |= ACC_STATIC
    f |= r.pick([0, ACC_FINAL, 0, ACC_VOLATILE])
    if not static and r.one_in(6):
        f |= ACC_TRANSIENT
    if r.one_in(10):
        f |= ACC_SYNTHETIC
    if enum_ok and static and r.take(2):
        f = (f & ~ACC_VOLATILE) | ACC_ENUM | ACC_FINAL
    return f


def _method_flags(draw, kind, abstract_ok=False, r=None):
    """kind: 'static' | 'private' | 'virtual'"""
    r = r or _Bits(draw)
    if kind == 'static':
        f = r.pick(_VIS) | ACC_STATIC
    elif kind == 'private':
        f = ACC_PRIVATE
    else:
        f = r.pick([ACC_PUBLIC, 0, ACC_PUBLIC, ACC_PROTECTED])
    body = r.pick(['code'] * 5 + ['native'] + (['abstract'] * 3 if kind == 'virtual' and abstract_ok else []))
    if body == 'abstract':
        f |= ACC_ABSTRACT
        if r.one_in(6):
            f |= ACC_VARARGS
        return f
    if body == 'native':
        f |= ACC_NATIVE
        if r.one_in(4):
            f |= ACC_SYNCHRONIZED
    else:
        if r.one_in(8):
            f |= ACC_DECLARED_SYNCHRONIZED
        if r.one_in(10):
            f |= ACC_STRICT
    if r.one_in(4):
        f |= ACC_FINAL
    for bit in (ACC_VARARGS, ACC_SYNTHETIC) + ((ACC_BRIDGE,) if kind == 'virtual' else ()):
        if r.one_in(10):
            f |= bit
    return f


class_flags = st.composite(_class_flags)
field_flags = st.composite(_field_flags)
method_flags = st.composite(_method_flags)


# ------------------------------------------------------------------------------------------ code
def _ret_class(ret):
    return ret if ret in ('V', 'J', 'D') else ('L' if ret[0] in 'L[' else 'I')


def min_regs_for_return(ret):
    return {'V': 0, 'J': 2, 'D': 2}.get(_ret_class(ret), 1)


def encode_insns(regs, ret, raw):
    """raw: list of (selector, a, b, lit) integer tuples -> valid instruction bytes that only touch registers < regs.
    Formats from the Dalvik bytecode specification: 10x `00|op`, 12x `B|A|op`, 11n `B|A|op`, 21s `AA|op BBBB`,
    31i `AA|op BBBBlo BBBBhi`, 23x `AA|op CC|BB`, 22b `AA|op CC|BB`, 11x `AA|op`, 22x `AA|op BBBB`."""
    out = bytearray()
    r4 = min(regs, 16)
    r8 = min(regs, 256)
    for (sel, a, b, lit) in raw:
        if regs == 0:
            out += b'\x00\x00'                                            # nop
            continue
        k = sel % 10
        if k == 0:
            out += b'\x00\x00'                                            # nop
        elif k == 1:
            out += bytes([0x01, (b % r4) << 4 | (a % r4)])                # move vA, vB
        elif k == 2:
            out += bytes([0x12, (lit & 0xf) << 4 | (a % r4)])             # const/4 vA, #+B
        elif k == 3:
            out += bytes([0x13, a % r8]) + (lit & 0xffff).to_bytes(2, 'little')      # const/16 vAA, #+BBBB
        elif k == 4:
            out += bytes([0x14, a % r8]) + (lit & 0xffffffff).to_bytes(4, 'little')  # const vAA, #+BBBBBBBB
        elif k == 5:
            out += bytes([0x90 + lit % 11, a % r8, b % r8, (a + b + lit) % r8])      # add-int..ushr-int vAA, vBB, vCC
        elif k == 6:
            out += bytes([0xb0 + lit % 11, (b % r4) << 4 | (a % r4)])     # add-int/2addr.. vA, vB
        elif k == 7:
            out += bytes([0xd8 + lit % 11, a % r8, b % r8, (lit >> 8) & 0xff])       # add-int/lit8.. vAA, vBB, #+CC
        elif k == 8:
            out += bytes([0x02, a % r8]) + (b % regs).to_bytes(2, 'little')          # move/from16 vAA, vBBBB
        else:
            out += bytes([0x7b + lit % 2, (b % r4) << 4 | (a % r4)])      # neg-int / not-int vA, vB
    rc = _ret_class(ret)
    if rc == 'V':
        out += b'\x0e\x00'                                                # return-void
    elif rc in ('J', 'D'):
        out += bytes([0x16, 0x00, 0x00, 0x00, 0x10, 0x00])                # const-wide/16 v0, #0 ; return-wide v0
    elif rc == 'L':
        out += bytes([0x12, 0x00, 0x11, 0x00])                            # const/4 v0, #0 ; return-object v0
    else:
        out += bytes([0x12, 0x00, 0x0f, 0x00])                            # const/4 v0, #0 ; return v0
    return bytes(out)


def _raw_insns(blob):
    """8 random bytes per instruction -> (selector, a, b, lit)"""
    return [(blob[i], blob[i + 1] | blob[i + 2] << 8, blob[i + 3], int.from_bytes(blob[i + 4:i + 8], 'little'))
            for i in range(0, len(blob) - 7, 8)]


def insn_bytes(regs, ret, max_insns=6):
    return st.binary(max_size=8 * max_insns).map(lambda blob: encode_insns(regs, ret, _raw_insns(blob)))


def _codes(draw, ret, params, static, tries=False, exc_types=(), max_insns=6, r=None):
    ins = ins_size(params, static)
    r = r or _Bits(draw)
    locs = r.pick([0, 1, 0, 1, 2, 3, 4, 5, 15, 16, 17, 255, 256, 300])
    regs = max(ins + locs, min_regs_for_return(ret))
    outs = r.take(6)
    raw = _raw_insns(draw(st.binary(max_size=8 * max_insns)))
    insns = encode_insns(regs, ret, raw)
    tr, hd = [], []
    if tries and r.one_in(3):
        n_units = len(insns) // 2
        rlen = {'V': 1, 'J': 3, 'D': 3}.get(_ret_class(ret), 2)
        ret_addr = n_units - rlen                      # address of the first instruction of the return sequence
        if ret_addr >= 1:
            # instruction start addresses inside [0, ret_addr]
            excs = list(exc_types) or ['Ljava/lang/Exception;']
            pairs = [(r.pick(excs), ret_addr) for _ in range(r.take(3))]
            # distinct exception types within one handler
            seen, upairs = set(), []
            for p in pairs:
                if p[0] not in seen:
                    seen.add(p[0])
                    upairs.append(p)
            call = ret_addr if (not upairs or r.take(2)) else None
            hd = [(upairs, call)]
            tr = [(0, ret_addr, 0)]
    return g.Code(regs, ins, outs, insns, tr, hd)


codes = st.composite(_codes)


# ------------------------------------------------------------------------------------------ values / annotations
def _value_for(t, strings):
    if t == 'Z':
        return st.booleans().map(lambda v: g.EV('boolean', v))
    if t == 'B':
        return st.integers(-128, 127).map(lambda v: g.EV('byte', v))
    if t == 'S':
        return st.integers(-0x8000, 0x7fff).map(lambda v: g.EV('short', v))
    if t == 'C':
        return st.integers(0, 0xffff).map(lambda v: g.EV('char', v))
    if t == 'I':
        return st.integers(-0x80000000, 0x7fffffff).map(lambda v: g.EV('int', v))
    if t == 'J':
        return st.integers(-1 << 63, (1 << 63) - 1).map(lambda v: g.EV('long', v))
    if t == 'F':
        return st.integers(0, 0xffffffff).map(lambda v: g.EV('float', v))
    if t == 'D':
        return st.integers(0, (1 << 64) - 1).map(lambda v: g.EV('double', v))
    if t == STRING:
        return st.one_of(st.just(g.EV('null')), strings.map(lambda v: g.EV('string', v)))
    return st.just(g.EV('null'))


_pool_strings = st.one_of(st.text(alphabet=_ASCII_LETTERS + ' .', max_size=8),
                          st.text(alphabet=st.characters(min_codepoint=0, max_codepoint=0xffff, exclude_categories=('Cs',)),
                                  max_size=6),
                          st.sampled_from(['', '\x00', 'a\x00b', '\U0001f600', 'café', 'ࠀ']))


def _annotations(draw, class_pool):
    n = draw(st.integers(1, 2))
    out, seen = [], set()
    for _ in range(n):
        t = draw(st.sampled_from(['Ldalvik/annotation/Signature;', 'Ljava/lang/Deprecated;', 'LAnn;'] + list(class_pool)[:2]))
        if t in seen:
            continue
        seen.add(t)
        els, names = [], set()
        for _k in range(draw(st.integers(0, 2))):
            nm = draw(_ascii_names(3))
            if nm in names:
                continue
            names.add(nm)
            ev = draw(st.one_of(st.integers(-0x80000000, 0x7fffffff).map(lambda v: g.EV('int', v)),
                                _pool_strings.map(lambda v: g.EV('string', v)),
                                st.sampled_from(list(class_pool) or [OBJECT]).map(lambda v: g.EV('type', v)),
                                st.booleans().map(lambda v: g.EV('boolean', v))))
            els.append((nm, ev))
        out.append(g.Annotation(t, els, draw(st.integers(0, 2))))
    return out


# ------------------------------------------------------------------------------------------ classes
def _class(draw, name, earlier, all_names, opts):
    """earlier: [(name, flags)] of classes generated before this one (legal supers/interfaces)"""
    r = _Bits(draw, 96)
    flags = _class_flags(draw, r)
    is_itf = bool(flags & ACC_INTERFACE)
    is_enum = bool(flags & ACC_ENUM)
    may_abstract = bool(flags & ACC_ABSTRACT)
    int_classes = [n for (n, f) in earlier if not f & (ACC_INTERFACE | ACC_FINAL)]
    int_itfs = [n for (n, f) in earlier if f & ACC_INTERFACE]
    if is_itf:
        sup = OBJECT
    else:
        sup = r.pick([OBJECT, OBJECT] + [e for e in EXTERNAL_CLASSES if e != name] + int_classes * 3)
    itf_pool = EXTERNAL_INTERFACES + int_itfs * 3
    itfs = []
    for _ in range(r.pick([0, 0, 1, 1, 2, 3])):
        i = r.pick(itf_pool)
        if i != name and i not in itfs:
            itfs.append(i)
    source = draw(opts['sources'])
    class_pool = opts['class_pool']
    tl = opts['type_list']
    rets = ['V'] * (len(tl) // 2) + tl

    if r.one_in(7):
        # class without class_data
        return g.Class(name, flags, sup, itfs, source)

    # small per-class name pool: overloads and same-name members are common
    npool = draw(opts['name_pools'])

    # fields
    sfields, ifields, fseen = [], [], set()
    for _ in range(r.take(opts['max_fields'] + 1)):
        rf = _Bits(draw, 64)
        fn, ft = rf.pick(npool), rf.pick(tl)
        if (fn, ft) in fseen:
            continue
        fseen.add((fn, ft))
        static = True if is_itf else bool(rf.take(2))
        fl = _field_flags(draw, static, interface=is_itf, enum_ok=is_enum, r=rf)
        (sfields if static else ifields).append(g.Field(fn, ft, fl))

    # methods
    dmethods, vmethods, mseen = [], [], set()
    exc = [n for n in class_pool if n != name][:3] + ['Ljava/lang/Exception;']

    def add(mn, ret, params, fl, rm):
        key = (mn, ret, tuple(params))
        if key in mseen:
            return
        mseen.add(key)
        code = None
        if not fl & (ACC_ABSTRACT | ACC_NATIVE):
            code = _codes(draw, ret, params, bool(fl & ACC_STATIC), tries=opts['tries'], exc_types=exc, r=rm)
        m = g.Method(mn, ret, params, fl, code)
        (dmethods if is_direct(m) else vmethods).append(m)

    for _ in range(r.take(opts['max_methods'] + 1)):
        rm = _Bits(draw, 160)
        if is_itf:
            kind = rm.pick(['virtual', 'virtual', 'virtual', 'clinit'])
        else:
            kind = rm.pick(['virtual', 'static', 'virtual', 'virtual', 'static', 'private', 'init', 'init', 'clinit'])
        params = tuple(rm.pick(tl) for _ in range(rm.pick([0, 1, 1, 2, 2, 3, 4])))
        if kind == 'clinit':
            add('<clinit>', 'V', (), ACC_STATIC | ACC_CONSTRUCTOR, rm)
        elif kind == 'init':
            add('<init>', 'V', params, rm.pick(_VIS) | ACC_CONSTRUCTOR, rm)
        elif is_itf:
            add(rm.pick(npool), rm.pick(rets), params, ACC_PUBLIC | ACC_ABSTRACT, rm)
        else:
            add(rm.pick(npool), rm.pick(rets), params, _method_flags(draw, kind, abstract_ok=may_abstract, r=rm), rm)

    static_values = None
    if opts['static_values'] and sfields and draw(st.booleans()):
        ordered = sorted(sfields, key=field_sort_key)
        k = draw(st.integers(0, len(ordered)))
        static_values = [draw(_value_for(f.type, _pool_strings)) for f in ordered[:k]]
    anns = []
    if opts['annotations'] and draw(st.integers(0, 2)) == 0:
        anns = _annotations(draw, class_pool)
        if sfields + ifields and draw(st.integers(0, 2)) == 0:
            draw(st.sampled_from(sfields + ifields)).annotations = _annotations(draw, class_pool)
        if dmethods + vmethods and draw(st.integers(0, 2)) == 0:
            draw(st.sampled_from(dmethods + vmethods)).annotations = _annotations(draw, class_pool)
    return g.Class(name, flags, sup, itfs, source, sfields, ifields, dmethods, vmethods, static_values, anns)


def _extra_refs(draw, classes, max_name):
    """unrelated pool entries; members referenced on the generated classes create index gaps between the
    members a class defines"""
    refs = []
    names = [c.name for c in classes]
    class_pool = names + [OBJECT, STRING, 'Lzz/Other;']
    types = type_descriptors(class_pool)
    for _ in range(draw(st.integers(0, 6))):
        k = draw(st.sampled_from('ssttffffmmmm'))
        if k == 's':
            refs.append(('s', draw(_pool_strings)))
        elif k == 't':
            refs.append(('t', draw(types)))
        else:
            owner = draw(st.sampled_from(class_pool))
            # names close to the existing member names of that class (so the gap falls between defined members)
            pool = ['a', 'm', 'zz']
            for c in classes:
                if c.name == owner:
                    pool += [x.name for x in c.sfields + c.ifields + c.dmethods + c.vmethods if not x.name.startswith('<')]
            nm = draw(st.one_of(st.sampled_from(pool), st.sampled_from(pool).map(lambda s: s + '0'), _names(max_name)))
            if k == 'f':
                refs.append(('f', owner, nm, draw(types)))
            else:
                refs.append(('m', owner, nm, draw(st.one_of(st.just('V'), types)),
                             draw(st.lists(types, max_size=3).map(tuple))))
    return refs


@st.composite
def dex_models(draw, min_classes=0, max_classes=8, max_fields=4, max_methods=4, static_values=False,
               annotations=False, tries=False, extra_refs=True, versions=('035', '037', '038', '039'), max_name=6):
    opts = dict(max_fields=max_fields, max_methods=max_methods, static_values=static_values,
                annotations=annotations, tries=tries, max_name=max_name)
    n = draw(st.integers(min_classes, max_classes))
    packages = draw(st.lists(st.lists(_names(max_name), min_size=0, max_size=3).map(tuple), min_size=1, max_size=3))
    if draw(st.booleans()):
        packages.append(())          # default package
    names = []
    for nm in draw(st.lists(class_descriptors(max_name, packages), min_size=n, max_size=n)):
        while nm in names:                      # distinct class names without a (slow) unique-list filter
            nm = nm[:-1] + str(len(names)) + ';'
        names.append(nm)
    opts['class_pool'] = list(names) + [OBJECT, STRING, 'Lo/Ext;']
    opts['type_list'] = type_list(opts['class_pool'])
    opts['name_pools'] = st.lists(_names(max_name), min_size=1, max_size=4).map(lambda l: sorted(set(l)))
    opts['sources'] = st.one_of(st.none(), st.none(), st.sampled_from(['A.java', 'SourceFile', '']),
                                _names(max_name).map(lambda s: s + '.java'))
    classes, earlier = [], []
    for nm in names:
        c = _class(draw, nm, earlier, names, opts)
        classes.append(c)
        earlier.append((c.name, c.access))
    refs = _extra_refs(draw, classes, max_name) if extra_refs else []
    # a reference to a member that a class defines is legal but adds nothing; a *static-vs-instance duplicate* cannot
    # arise because refs only add ids, never class_data entries.
    return g.DexFile(classes, refs, draw(st.sampled_from(list(versions))))
