"""Dalvik assembler + Hypothesis strategies (no androguard import). Built on vf.gen.dalvik_spec.

API summary
-----------
Items of a program (a plain Python list, in emission order):

  Ins(op, **fields)            one instruction. `op` is an opcode number or a mnemonic ('if-eqz').
                               Fields carry the names of the format table in dalvik_spec.FORMATS
                               (A, B, AA, BB, CC, BBBB, CCCC, BBBBBBBB, G, C..F, HHHH, ...); missing fields
                               are 0; signed fields (literals, offsets) take signed values.
                               The branch/payload offset field may be a *label name* (str) instead of an int;
                               `target=` is an alias for "the offset field of this opcode":
                                   Ins('if-eqz', AA=3, target='loop')   Ins('goto/16', target=-4)
                               Register lists: Ins('invoke-static', A=2, C=1, D=5, BBBB=7)  (35c: vC,vD,..,vG)
                                               Ins('invoke-virtual/range', AA=3, CCCC=10, BBBB=7)
  Goto(target, width=None)     goto with selectable width: None = smallest of goto / goto/16 / goto/32 that
                               reaches the label (offset 0 is not encodable in goto and goto/16, so a
                               self-loop becomes goto/32); 8, 16 or 32 force the form.
  Label(name)                  binds `name` to the offset of the next emitted item (after its alignment nop).
  PackedSwitchPayload(first_key, targets, align=True, base=None)
  SparseSwitchPayload(keys, targets, align=True, base=None)
                               targets: ints (raw, relative to the switch instruction, in code units) or label
                               names. Label targets are resolved relative to `base` (a label placed on the
                               switch instruction) or, when base is None, relative to the first
                               packed-/sparse-switch instruction whose offset field names a label bound to
                               this payload. keys are emitted as given (the spec wants them sorted ascending).
  FillArrayPayload(width, data, size=None, align=True)
                               data: bytes (size defaults to len(data) // width) or a list of ints that are
                               packed little-endian with `width` bytes each. A padding byte 00 is appended when
                               the data has an odd byte count. `size` can be forced (to build lying headers).
  Raw(data, name='raw')        verbatim bytes (even length), e.g. deliberately broken items.
  align=True inserts one `nop` (0000) before the payload when it would start on an odd code unit (the spec
  requires payloads to be 4-byte aligned); align=False emits it wherever it falls.

assemble(items) -> Assembled(code, items, labels)
  code   : bytes of the insns array
  items  : [Emitted(offset, raw, name, kind, index, op)] in order, tiling `code` exactly.
           offset: BYTE offset in code (Emitted.unit = offset // 2); raw: the item's bytes; name: mnemonic or
           'packed-switch-payload' / 'sparse-switch-payload' / 'fill-array-data-payload' / Raw.name;
           kind: 'ins' | 'pad' (alignment nop = a real `nop` instruction) | 'payload' | 'raw';
           index: position of the source item in the input list (pads carry the index of their payload);
           op: opcode number, payload ident, or None for raw.
  labels : {name: offset in 16-bit code units}
  Raises AsmError for unknown/duplicate labels and offsets that do not fit their field.
  Two-pass: sizes never depend on label values except for Goto(width=None), which is relaxed to a fixpoint.

Hypothesis strategies (all randomness lives here):
  field_values(field)                     boundary-biased values for one dalvik_spec.Field
  instruction(op, wellformed=True)        Ins with random operands for one opcode. wellformed: must-be-zero
                                          bits 0, 35c-style count A in 0..5 (45cc: 1..5), goto / goto/16 offset != 0
  any_instruction(ops=VALID_OPCODES, wellformed=True)
  straightline_program(min_size=1, max_size=20)   list of Ins without control flow (no goto/if/switch/
                                          fill-array-data/return/throw): falls through from first to last
  packed_switch_payload(max_size=40), sparse_switch_payload(max_size=40), fill_array_payload(max_size=60)
                                          payload items with raw int targets / random data (width 1/2/4/8)
  program_with_payloads(max_items=25, max_payloads=4, ops=None, boost=None, ...)
                                          list of items: random instructions (raw branch offsets), nops and
                                          payloads, each payload labelled and referenced by a matching
                                          fill-array-data / packed-switch / sparse-switch instruction; payloads
                                          are aligned or (sometimes) deliberately unaligned. boost = opcodes to
                                          over-represent (about one instruction in eight).
  Per-opcode strategies are cached (functools.lru_cache): build them once, Hypothesis draws stay cheap.
  program_to_json(items) / program_from_json(js): JSON-able form of a program for replay files.
"""
import functools
import struct
from collections import namedtuple

from vf.gen import dalvik_spec as ds

Assembled = namedtuple('Assembled', 'code items labels')


class Emitted(namedtuple('Emitted', 'offset raw name kind index op')):
    __slots__ = ()

    @property
    def unit(self):
        return self.offset // 2

    @property
    def length(self):
        return len(self.raw)


class AsmError(Exception):
    pass


def _opnum(op):
    if isinstance(op, str):
        if op not in ds.BY_NAME:
            raise AsmError('unknown mnemonic %r' % (op,))
        return ds.BY_NAME[op]
    if op in ds.UNUSED or not 0 <= op <= 255:
        raise AsmError('unused/invalid opcode %r' % (op,))
    return op


class Ins:
    """One instruction; see the module docstring."""

    def __init__(self, op, **fields):
        self.op = _opnum(op)
        if 'target' in fields:
            of = ds.offset_field(self.op)
            if of is None:
                raise AsmError('%s has no offset field' % ds.OPCODES[self.op].name)
            fields[of] = fields.pop('target')
        self.fields = fields

    @property
    def name(self):
        return ds.OPCODES[self.op].name

    @property
    def units(self):
        return ds.units_of(self.op)

    def label_ref(self):
        of = ds.offset_field(self.op)
        if of is not None and isinstance(self.fields.get(of), str):
            return self.fields[of]
        return None

    def __repr__(self):
        return 'Ins(%r%s)' % (self.name, ''.join(', %s=%r' % kv for kv in sorted(self.fields.items())))

    def to_json(self):
        return {'ins': self.name, 'fields': dict(self.fields)}


class Goto:
    def __init__(self, target, width=None):
        if width not in (None, 8, 16, 32):
            raise AsmError('goto width must be None, 8, 16 or 32')
        self.target, self.width = target, width

    def __repr__(self):
        return 'Goto(%r, width=%r)' % (self.target, self.width)

    def to_json(self):
        return {'goto': self.target, 'width': self.width}


class Label:
    def __init__(self, name):
        self.name = name

    def __repr__(self):
        return 'Label(%r)' % (self.name,)

    def to_json(self):
        return {'label': self.name}


class PackedSwitchPayload:
    name = 'packed-switch-payload'
    ident = ds.PAYLOAD_PACKED

    def __init__(self, first_key, targets, align=True, base=None):
        self.first_key, self.targets, self.align, self.base = first_key, list(targets), align, base

    @property
    def units(self):
        return ds.packed_payload_units(len(self.targets))

    def encode(self, resolve):
        return struct.pack('<HHi', self.ident, len(self.targets), self.first_key) + \
            b''.join(struct.pack('<i', resolve(t)) for t in self.targets)

    def __repr__(self):
        return 'PackedSwitchPayload(%r, %r, align=%r)' % (self.first_key, self.targets, self.align)

    def to_json(self):
        return {'packed': self.first_key, 'targets': self.targets, 'align': self.align, 'base': self.base}


class SparseSwitchPayload:
    name = 'sparse-switch-payload'
    ident = ds.PAYLOAD_SPARSE

    def __init__(self, keys, targets, align=True, base=None):
        self.keys, self.targets, self.align, self.base = list(keys), list(targets), align, base
        if len(self.keys) != len(self.targets):
            raise AsmError('sparse-switch: %d keys, %d targets' % (len(self.keys), len(self.targets)))

    @property
    def units(self):
        return ds.sparse_payload_units(len(self.keys))

    def encode(self, resolve):
        return struct.pack('<HH', self.ident, len(self.keys)) + \
            b''.join(struct.pack('<i', k) for k in self.keys) + \
            b''.join(struct.pack('<i', resolve(t)) for t in self.targets)

    def __repr__(self):
        return 'SparseSwitchPayload(%r, %r, align=%r)' % (self.keys, self.targets, self.align)

    def to_json(self):
        return {'sparse': self.keys, 'targets': self.targets, 'align': self.align, 'base': self.base}


class FillArrayPayload:
    name = 'fill-array-data-payload'
    ident = ds.PAYLOAD_FILL
    base = None
    targets = ()

    def __init__(self, width, data, size=None, align=True):
        if not isinstance(data, (bytes, bytearray)):
            data = b''.join((v & ((1 << (8 * width)) - 1)).to_bytes(width, 'little') for v in data)
        self.width, self.data, self.align = width, bytes(data), align
        if size is None:
            if width == 0 or len(self.data) % width:
                raise AsmError('fill-array-data: %d data bytes are not a multiple of width %d' % (len(self.data), width))
            size = len(self.data) // width
        self.size = size

    @property
    def units(self):
        # the emitted length follows the data actually present (== the spec formula when size is honest)
        return 4 + (len(self.data) + 1) // 2

    def encode(self, resolve):
        pad = b'\x00' if len(self.data) % 2 else b''
        return struct.pack('<HHI', self.ident, self.width, self.size) + self.data + pad

    def __repr__(self):
        return 'FillArrayPayload(%r, %r, size=%r, align=%r)' % (self.width, self.data, self.size, self.align)

    def to_json(self):
        return {'fill': self.width, 'data': self.data.hex(), 'size': self.size, 'align': self.align}


class Raw:
    def __init__(self, data, name='raw'):
        if len(data) % 2:
            raise AsmError('Raw data must have an even length')
        self.data, self.name = bytes(data), name

    @property
    def units(self):
        return len(self.data) // 2

    def __repr__(self):
        return 'Raw(%r)' % (self.data,)

    def to_json(self):
        return {'raw': self.data.hex()}


PAYLOAD_TYPES = (PackedSwitchPayload, SparseSwitchPayload, FillArrayPayload)
_GOTO = {8: (0x28, 'AA', 1), 16: (0x29, 'AAAA', 2), 32: (0x2a, 'AAAAAAAA', 3)}


def _goto_need(delta):
    if delta != 0 and -128 <= delta <= 127:
        return 8
    if delta != 0 and -32768 <= delta <= 32767:
        return 16
    return 32


def _layout(items, gw):
    """One layout pass with the goto widths in gw -> (positions, pads, labels, total_units)."""
    pos = {}
    pads = set()
    labels = {}
    pending = []
    off = 0
    for i, it in enumerate(items):
        if isinstance(it, Label):
            if it.name in labels or it.name in pending:
                raise AsmError('duplicate label %r' % (it.name,))
            pending.append(it.name)
            continue
        if isinstance(it, PAYLOAD_TYPES) and it.align and off % 2:
            pads.add(i)
            off += 1
        for n in pending:
            labels[n] = off
        pending = []
        pos[i] = off
        if isinstance(it, Goto):
            off += _GOTO[gw[i]][2]
        elif isinstance(it, (Ins, Raw) + PAYLOAD_TYPES):
            off += it.units
        else:
            raise AsmError('not an assembler item: %r' % (it,))
    for n in pending:
        labels[n] = off
    return pos, pads, labels, off


def assemble(items):
    """Assemble a list of items; see the module docstring."""
    items = list(items)
    gw = {i: (it.width or 8) for i, it in enumerate(items) if isinstance(it, Goto)}
    while True:
        pos, pads, labels, total = _layout(items, gw)
        changed = False
        for i, w in gw.items():
            it = items[i]
            if it.width is None:
                if isinstance(it.target, str):
                    if it.target not in labels:
                        raise AsmError('unknown label %r' % (it.target,))
                    delta = labels[it.target] - pos[i]
                else:
                    delta = it.target
                need = _goto_need(delta)
                if need > w:
                    gw[i] = need
                    changed = True
        if not changed:
            break

    def lab(name):
        if name not in labels:
            raise AsmError('unknown label %r' % (name,))
        return labels[name]

    out = []
    code = bytearray()

    def emit(raw, name, kind, index, op):
        out.append(Emitted(len(code), bytes(raw), name, kind, index, op))
        code.extend(raw)

    for i, it in enumerate(items):
        if isinstance(it, Label):
            continue
        if i in pads:
            emit(b'\x00\x00', 'nop', 'pad', i, 0x00)
        assert len(code) == 2 * pos[i]
        if isinstance(it, Ins):
            fields = dict(it.fields)
            ref = it.label_ref()
            if ref is not None:
                fields[ds.offset_field(it.op)] = lab(ref) - pos[i]
            try:
                raw = ds.encode(it.op, **fields)
            except ds.SpecError as e:
                raise AsmError(str(e))
            emit(raw, it.name, 'ins', i, it.op)
        elif isinstance(it, Goto):
            op, fld, _ = _GOTO[gw[i]]
            delta = lab(it.target) - pos[i] if isinstance(it.target, str) else it.target
            if delta == 0 and gw[i] != 32:
                raise AsmError('goto with offset 0 needs goto/32')
            try:
                raw = ds.encode(op, **{fld: delta})
            except ds.SpecError as e:
                raise AsmError(str(e))
            emit(raw, ds.OPCODES[op].name, 'ins', i, op)
        elif isinstance(it, PAYLOAD_TYPES):
            base = None
            if any(isinstance(t, str) for t in it.targets):
                if it.base is not None:
                    base = lab(it.base)
                else:
                    for j, sw in enumerate(items):
                        if isinstance(sw, Ins) and ds.is_switch(sw.op) and sw.label_ref() is not None \
                                and lab(sw.label_ref()) == pos[i]:
                            base = pos[j]
                            break
                    if base is None:
                        raise AsmError('payload at unit %d has label targets but no switch instruction refers to it' % pos[i])

            def resolve(t, base=base):
                v = lab(t) - base if isinstance(t, str) else t
                if not -(1 << 31) <= v < (1 << 31):
                    raise AsmError('switch target %r out of range' % (t,))
                return v
            emit(it.encode(resolve), it.name, 'payload', i, it.ident)
        else:
            emit(it.data, it.name, 'raw', i, None)
    assert len(code) == 2 * total
    return Assembled(bytes(code), out, labels)


def program_to_json(items):
    """JSON-able description of a program (for replay files)."""
    return [it.to_json() for it in items]


def program_from_json(js):
    out = []
    for d in js:
        if 'ins' in d:
            out.append(Ins(d['ins'], **d['fields']))
        elif 'goto' in d:
            out.append(Goto(d['goto'], d['width']))
        elif 'label' in d:
            out.append(Label(d['label']))
        elif 'packed' in d:
            out.append(PackedSwitchPayload(d['packed'], d['targets'], d['align'], d.get('base')))
        elif 'sparse' in d:
            out.append(SparseSwitchPayload(d['sparse'], d['targets'], d['align'], d.get('base')))
        elif 'fill' in d:
            data = d['data']
            out.append(FillArrayPayload(d['fill'], bytes.fromhex(data) if isinstance(data, str) else data,
                                        d['size'], d['align']))
        elif 'raw' in d:
            data = d['raw']
            out.append(Raw(bytes.fromhex(data) if isinstance(data, str) else data))
        else:
            raise AsmError('bad item %r' % (d,))
    return out


# ---------------------------------------------------------------------------------------------------
# Hypothesis strategies
# ---------------------------------------------------------------------------------------------------
def _st():
    from hypothesis import strategies as st
    return st


@functools.lru_cache(maxsize=None)
def field_values(field):
    """Boundary-biased integers in the range of a dalvik_spec.Field."""
    st = _st()
    lo, hi = ds.field_range(field)
    cands = {lo, lo + 1, -1, 0, 1, hi - 1, hi, 0x7, 0x8, 0xf, 0x10, 0x7f, 0x80, 0xff, 0x100, 0x7fff, 0x8000, 0xffff,
             0x10000, 0x7fffffff, 0x80000000, 0xffffffff, -0x8, -0x9, -0x80, -0x81, -0x8000, -0x8001,
             -0x80000000, -0x80000001}
    bounds = sorted(v for v in cands if lo <= v <= hi)
    return st.one_of(st.sampled_from(bounds), st.integers(lo, hi))


def instruction(op, wellformed=True):
    """Strategy for Ins of one opcode with random operand fields."""
    return _instruction(_opnum(op), bool(wellformed))


@functools.lru_cache(maxsize=None)
def _instruction(op, wellformed):
    st = _st()
    f = ds.fmt_of(op)
    parts = {}
    for fld in f.fields[1:]:
        if fld.role == 'zero':
            if wellformed:
                continue
            parts[fld.name] = field_values(fld)
        elif fld.role == 'cnt' and fld.width == 4 and wellformed:
            parts[fld.name] = st.integers(1 if f.fmt == '45cc' else 0, 5)
        elif fld.role == 'off' and wellformed and f.fmt in ('10t', '20t'):
            parts[fld.name] = field_values(fld).filter(lambda v: v != 0)
        else:
            parts[fld.name] = field_values(fld)
    return st.fixed_dictionaries(parts).map(lambda d: Ins(op, **d))


def any_instruction(ops=None, wellformed=True):
    st = _st()
    ops = list(ds.VALID_OPCODES if ops is None else ops)
    # one_of over cached per-opcode strategies (repeats in `ops` act as weights); much cheaper than flatmap
    return st.one_of([instruction(o, wellformed) for o in ops])


STRAIGHT_OPCODES = tuple(o for o in ds.VALID_OPCODES
                         if ds.can_continue(o) and not ds.is_branch(o) and not ds.has_payload(o))


def straightline_program(min_size=1, max_size=20, ops=None):
    """List of Ins that falls through from the first to the last instruction (no control flow)."""
    st = _st()
    return st.lists(any_instruction(STRAIGHT_OPCODES if ops is None else ops), min_size=min_size, max_size=max_size)


def _i32():
    st = _st()
    return st.one_of(st.sampled_from([0, 1, -1, 0x7fffffff, -0x80000000, 0x100, 0x200, 0x300]),
                     st.integers(-(1 << 31), (1 << 31) - 1))


def packed_switch_payload(max_size=40, align=None):
    st = _st()
    al = st.booleans() if align is None else st.just(align)
    return st.builds(lambda k, t, a: PackedSwitchPayload(k, t, align=a), _i32(),
                     st.lists(_i32(), max_size=max_size), al)


def sparse_switch_payload(max_size=40, align=None):
    st = _st()
    al = st.booleans() if align is None else st.just(align)
    keys = st.lists(st.integers(-(1 << 31), (1 << 31) - 1), max_size=max_size, unique=True).map(sorted)
    return keys.flatmap(lambda ks: st.builds(
        lambda t, a: SparseSwitchPayload(ks, t, align=a),
        st.lists(_i32(), min_size=len(ks), max_size=len(ks)), al))


def fill_array_payload(max_size=60, align=None):
    st = _st()
    al = st.booleans() if align is None else st.just(align)
    return st.sampled_from([1, 2, 4, 8]).flatmap(lambda w: st.builds(
        lambda n, fill, a: FillArrayPayload(w, fill[:n * w] + bytes(max(0, n * w - len(fill))), align=a),
        st.integers(0, max_size), st.binary(max_size=max_size * w), al))


def any_payload(max_packed=40, max_sparse=40, max_fill=60, align=None):
    st = _st()
    return st.one_of(packed_switch_payload(max_packed, align), sparse_switch_payload(max_sparse, align),
                     fill_array_payload(max_fill, align))


_PAYLOAD_OP = {PackedSwitchPayload: 0x2b, SparseSwitchPayload: 0x2c, FillArrayPayload: 0x26}


def program_with_payloads(max_items=25, max_payloads=4, ops=None, max_packed=40, max_sparse=40, max_fill=60, boost=None):
    """Valid code for a linear sweep: instructions with random operands (branch offsets are raw numbers and
    need not hit instruction starts), nops, and payloads, each payload labelled 'P<k>' and referenced by a
    matching 31t instruction placed at a random position. `boost`: opcodes to over-represent."""
    st = _st()
    elems = [any_instruction(ops)] * 6 + [st.just(Ins('nop'))]
    if boost:                   # opcodes to over-represent (about 1 instruction in 8)
        elems.append(any_instruction(boost))
    body = st.lists(st.integers(0, len(elems) - 1).flatmap(lambda i: elems[i]), max_size=max_items)
    pls = st.lists(any_payload(max_packed, max_sparse, max_fill), max_size=max_payloads)

    def build(data):
        body_, pls_, seeds = data
        items = list(body_)
        for k, (p, (s1, s2, reg)) in enumerate(zip(pls_, seeds)):
            name = 'P%d' % k
            at = s1 % (len(items) + 1)
            items[at:at] = [Label(name), p]
            at = s2 % (len(items) + 1)
            # never split a Label from its payload
            while at > 0 and isinstance(items[at - 1], Label):
                at -= 1
            items.insert(at, Ins(_PAYLOAD_OP[type(p)], AA=reg, target=name))
        return items
    seeds = st.lists(st.tuples(st.integers(0, 1 << 16), st.integers(0, 1 << 16), st.integers(0, 255)),
                     min_size=max_payloads, max_size=max_payloads)
    return st.tuples(body, pls, seeds).map(build)
