"""Rooted digraph generators for the decompiler graph properties (C18, C19).  No androguard imports.

A graph is a dict  {'n': int, 'edges': [[a, b, kind], ...], 'family': str}  with entry node 0.
kind: 0 = normal edge, 1 = catch (exception) edge, 2 = both a normal and a catch edge a->b.
The list order is the insertion order (it determines the successor order seen by a DFS).
"""
from hypothesis import strategies as st

KIND = st.sampled_from([0, 0, 0, 0, 0, 1, 1, 2])


# -- exhaustive enumeration -------------------------------------------------------------

def pairs(n, self_loops=True):
    return [(a, b) for a in range(n) for b in range(n) if self_loops or a != b]


def graph_from_mask(n, mask, prs, kinds=None, descending=False):
    """The digraph whose edge set is the subset `mask` of prs.  kinds: per selected edge (same order)
    or None for all-normal.  descending: insert the edges in reverse order."""
    sel = [prs[i] for i in range(len(prs)) if mask >> i & 1]
    if kinds is None:
        kinds = [0] * len(sel)
    edges = [[a, b, k] for (a, b), k in zip(sel, kinds)]
    if descending:
        edges.reverse()
    return {'n': n, 'edges': edges, 'family': 'exhaustive%d' % n}


def kinds_from_int(m, v, base=2):
    """m digits of v in the given base: base 2 -> kinds {0,1}, base 3 -> {0,1,2}."""
    out = []
    for _ in range(m):
        out.append(v % base)
        v //= base
    return out


# -- Hypothesis families ----------------------------------------------------------------

def _size(max_n, lo=2):
    small = st.integers(lo, min(max_n, 10))
    mid = st.integers(lo, min(max_n, 45))
    big = st.integers(lo, max_n)
    return st.one_of(small, small, mid, mid, big)


def _edge(n):
    return st.tuples(st.integers(0, n - 1), st.integers(0, n - 1), KIND)


@st.composite
def _spanning(draw, n):
    """An edge p->i with p < i for every i >= 1: makes every node reachable from 0."""
    return [(draw(st.integers(0, i - 1)), i, draw(KIND)) for i in range(1, n)]


@st.composite
def sparse(draw, max_n):
    n = draw(_size(max_n))
    edges = draw(_spanning(n)) + draw(st.lists(_edge(n), max_size=2 * n))
    return n, edges


@st.composite
def dag_back(draw, max_n):
    """forward edges i<j only, then a few back edges j->i (i <= j): reducible or not, nested loops."""
    n = draw(_size(max_n))
    fwd = draw(st.lists(st.tuples(st.integers(0, n - 1), st.integers(0, n - 1), KIND), max_size=2 * n))
    edges = draw(_spanning(n)) + [(min(a, b), max(a, b), k) for a, b, k in fwd if a != b]
    back = draw(st.lists(st.tuples(st.integers(0, n - 1), st.integers(0, n - 1), KIND), max_size=max(1, n // 3)))
    edges += [(max(a, b), min(a, b), k) for a, b, k in back]
    return n, edges


@st.composite
def irreducible(draw, max_n):
    """chain of gadgets  h -> a, h -> b, a <-> b  (a loop with two entries), glued by random edges."""
    g = draw(st.integers(1, max(1, min(max_n // 3, 30))))
    edges = []
    n = 1
    prev_out = [0]
    for _ in range(g):
        h = draw(st.sampled_from(prev_out))
        a, b = n, n + 1
        n += 2
        edges += [(h, a, draw(KIND)), (h, b, draw(KIND)), (a, b, draw(KIND)), (b, a, draw(KIND))]
        if draw(st.booleans()):                 # a three-node variant: a -> c -> b
            c = n
            n += 1
            edges += [(a, c, draw(KIND)), (c, b, draw(KIND))]
            prev_out = [a, b, c]
        else:
            prev_out = [a, b]
    edges += draw(st.lists(_edge(n), max_size=n))
    return n, edges


@st.composite
def ladder(draw, max_n):
    """two rails L0..Lk, R0..Rk with rungs in either direction and occasional long back edges: long
    semidominator chains for Lengauer-Tarjan's path compression."""
    k = draw(st.integers(1, max(1, (max_n - 1) // 2)))
    if k > 12 and draw(st.booleans()):
        k = draw(st.integers(1, 12))
    n = 1 + 2 * k

    def L(i):
        return 1 + 2 * i

    def R(i):
        return 2 + 2 * i
    edges = [(0, L(0), draw(KIND)), (0, R(0), draw(KIND))]
    rung = draw(st.lists(st.integers(0, 3), min_size=k, max_size=k))
    for i in range(k):
        if i + 1 < k:
            edges += [(L(i), L(i + 1), 0), (R(i), R(i + 1), draw(KIND))]
        if rung[i] & 1:
            edges.append((L(i), R(i), draw(KIND)))
        if rung[i] & 2:
            edges.append((R(i), L(i), 0))
    edges += draw(st.lists(_edge(n), max_size=max(2, k // 2)))
    return n, edges


@st.composite
def dense(draw, max_n):
    n = draw(st.integers(2, min(max_n, 24)))
    rows = draw(st.lists(st.integers(0, (1 << n) - 1), min_size=n, max_size=n))
    thin = draw(st.integers(0, 2))
    edges = draw(_spanning(n))
    for a in range(n):
        row = rows[a]
        for _ in range(thin):
            row &= rows[(a + 1 + _) % n]
        for b in range(n):
            if row >> b & 1:
                edges.append((a, b, 0 if (a + b) % 5 else 1))
    return n, edges


FAMILIES = {'sparse': sparse, 'dag+back': dag_back, 'irreducible': irreducible, 'ladder': ladder, 'dense': dense}


@st.composite
def digraph(draw, max_n=300, unreachable=False):
    """A rooted digraph from one of the families.  All nodes are reachable from node 0 unless
    `unreachable` is set, in which case (for about half of the draws) a few extra nodes are appended that
    have edges among themselves and into the reachable part, but no edge from it."""
    fam = draw(st.sampled_from(sorted(FAMILIES)))
    n, edges = draw(FAMILIES[fam](max_n))
    if draw(st.booleans()):
        edges = draw(st.permutations(edges)) if len(edges) <= 40 else list(reversed(edges))
    name = fam
    if unreachable and draw(st.booleans()):
        extra = draw(st.integers(1, 6))
        m = n + extra
        more = draw(st.lists(st.tuples(st.integers(n, m - 1), st.integers(0, m - 1), KIND), max_size=3 * extra))
        edges = list(edges) + more
        n = m
        name = fam + '+unreachable'
    return {'n': n, 'edges': [[a, b, k] for a, b, k in edges], 'family': name}
