"""C06 — DEX strings decode to exactly the UTF-16 text their MUTF-8 bytes encode.

Strings are generated as lists of UTF-16 code units (so that U+0000, surrogate pairs, lone and reversed surrogates
are first-class), encoded by the writer's own MUTF-8 encoder (vf.gen.dexgen.mutf8) and placed in generated DEX files
as pool-only strings, const-string / const-string/jumbo operands, static String values and source-file names.
Every string is NUL-terminated (well-formed input; the unterminated case belongs to C35).
Oracle: what androguard returns, converted to UTF-16 code units (utf-16-le with surrogatepass, so a supplementary
character and its surrogate pair compare equal), equals the generated units.
"""
import os
import traceback
from hypothesis import strategies as st
from vf.core.runner import hyp_collect
from vf.gen import dexgen as g
from vf.gen import dexstrat as ds

ds.pin_hypothesis()
SHRINK = not os.environ.get('VERIF_NOSHRINK')     # development switch (sensitivity runs): skip the shrink phase
PROPERTY = 'C06'
LEVEL = 'exploration'
RULE = ('strings = lists of UTF-16 code units drawn from boosted classes (U+0000, ASCII, 2-byte, 3-byte, surrogate pair, '
        'lone high, lone low, reversed pair); MUTF-8 byte lengths small or exactly at the 128-byte chunk boundaries of '
        'read_null_terminated_string (126..130, 254..258, 382..386, 1000+); 1..8 strings per generated DEX placed as '
        'pool-only / const-string / const-string/jumbo / static String value / source file; in half of the files the '
        'string_data section is the last section so that one string ends exactly at EOF. one case = one (string, '
        'placement); non-trivial = contains NUL, a non-ASCII unit or a surrogate, or MUTF-8 length >= 127; '
        'distinct = (units, placement)')
ASSUMPTIONS = ['a case that burns more than 20 CPU-seconds (normal: milliseconds) is reported as a violation (bucket hang)',
               'vf/gen/dexgen.py mutf8() is the reference MUTF-8 encoder (typed from the DEX specification: U+0000 as C0 80, '
               'every UTF-16 code unit >= 0x800 incl. each surrogate as its own 3-byte sequence)',
               'UTF-16 code units of a returned Python str are taken with utf-16-le + surrogatepass (a non-BMP character '
               'counts as its surrogate pair)',
               'string_data_items are written contiguously in string_ids order, so DEX.get_strings() is compared positionally']
EXHAUSTIVE = False

BOUNDARY_LENGTHS = [126, 127, 128, 129, 130, 254, 255, 256, 257, 258, 382, 383, 384, 385, 386,
                    1000, 1023, 1024, 1025, 1151, 1152, 1153, 1300]


# ------------------------------------------------------------------------------------------ string generator
def _pieces(blob):
    """3 random bytes -> one piece (1 or 2 UTF-16 code units) of a boosted class"""
    out = []
    for i in range(0, len(blob) - 2, 3):
        k = blob[i] % 10
        v = blob[i + 1] | blob[i + 2] << 8
        if k == 0:
            out.append([0])
        elif k in (1, 2):
            out.append([1 + v % 0x7f])                                   # ASCII 01..7f
        elif k == 3:
            out.append([0x80 + v % (0x800 - 0x80)])                      # 2-byte
        elif k == 4:
            u = 0x800 + v % (0x10000 - 0x800)
            if 0xd800 <= u <= 0xdfff:
                u = (0x7ff, 0x800, 0xd7ff, 0xe000, 0xffff, 0xfffe, 0xfeff, 0x20ac)[v % 8]
            out.append([u])                                              # 3-byte, not a surrogate
        elif k == 5:
            out.append([(0x7ff, 0x800, 0xd7ff, 0xe000, 0xffff, 0x7f, 0x80, 0xfeff)[v % 8]])   # encoding boundaries
        elif k == 6:
            out.append([0xd800 + (v & 0x3ff), 0xdc00 + ((v >> 6) & 0x3ff)])   # surrogate pair (non-BMP character)
        elif k == 7:
            out.append([0xd800 + (v & 0x3ff)])                           # lone high
        elif k == 8:
            out.append([0xdc00 + (v & 0x3ff)])                           # lone low
        else:
            out.append([0xdc00 + (v & 0x3ff), 0xd800 + ((v >> 6) & 0x3ff)])   # reversed pair
    return out


def _fit(pieces, target, pad_at, pad_unit):
    """list of pieces -> units whose MUTF-8 encoding is exactly `target` bytes (ASCII padding inserted at pad_at)"""
    kept, n = [], 0
    for p in pieces:
        ln = len(g.mutf8(p))
        if n + ln > target:
            continue
        kept.append(p)
        n += ln
    pos = pad_at % (len(kept) + 1)
    kept.insert(pos, [pad_unit] * (target - n))
    us = [u for p in kept for u in p]
    assert len(g.mutf8(us)) == target
    return us


_small = st.binary(max_size=3 * 12).map(lambda b: [u for p in _pieces(b) for u in p])
_sized = st.tuples(st.sampled_from(BOUNDARY_LENGTHS), st.binary(min_size=0, max_size=3 * 420), st.integers(0, 500),
                   st.integers(0x20, 0x7e)).map(lambda t: _fit(_pieces(t[1]), t[0], t[2], t[3]))
_nearsized = st.tuples(st.integers(100, 300), st.binary(min_size=0, max_size=3 * 100), st.integers(0, 100),
                       st.integers(0x20, 0x7e)).map(lambda t: _fit(_pieces(t[1]), t[0], t[2], t[3]))
unit_strings = st.one_of(_small, _small, _small, _sized, _sized, _nearsized)
PLACEMENTS = ['pool', 'pool', 'const', 'const', 'jumbo', 'static', 'static', 'source']

dex_cases = st.tuples(st.lists(st.tuples(unit_strings, st.sampled_from(PLACEMENTS)), min_size=1, max_size=8),
                      st.booleans(), st.sampled_from(['035', '038', '039']))


# ------------------------------------------------------------------------------------------ model -> DEX + expectation
def build_case(items, strings_last, version='035'):
    """items: [(units, placement)] -> (dex bytes, expectation dict)"""
    consts, statics, pool, source = [], [], [], None
    for us, pl in items:
        s = g.from_units(us)
        assert g.units(s) == list(us)
        if pl == 'source' and source is not None:
            pl = 'pool'
        if pl == 'pool':
            pool.append(s)
        elif pl in ('const', 'jumbo'):
            consts.append((0x1a if pl == 'const' else 0x1b, s))
        elif pl == 'static':
            statics.append(s)
        else:
            source = s

    def insns(ix):
        b = bytearray()
        for op, s in consts:
            i = ix.s(s)
            b += bytes([op, 0x00]) + (i.to_bytes(2, 'little') if op == 0x1a else i.to_bytes(4, 'little'))
        return bytes(b + b'\x0e\x00')

    sfields = [g.Field('f%02d' % k, 'Ljava/lang/String;', 0x19) for k in range(len(statics))]
    dm = [g.Method('m', 'V', (), 0x9, g.Code(1, 0, 0, insns, refs=[('s', s) for _, s in consts]))] if consts else []
    cls = g.Class('LC06;', 0x1, 'Ljava/lang/Object;', [], source, sfields=sfields, dmethods=dm,
                  static_values=[g.EV('string', s) for s in statics] if statics else None)
    order = None
    if strings_last:
        order = [k for k in g.DEFAULT_ORDER if k != 'string_data'] + ['string_data']
    buf = last_eof = None
    for n in range(0, 12):
        # when string_data is the last section, add a filler string so that no alignment padding follows the last string
        filler = [] if not strings_last else [('s', '\x7f' * n)]
        df = g.DexFile([cls], extra_refs=[('s', s) for s in pool] + filler, version=version)
        buf = df.build(section_order=order)
        if not strings_last:
            last_eof = False
            break
        li = len(df.strings) - 1
        item = g.uleb(len(g.units(df.strings[li]))) + g.mutf8(g.units(df.strings[li])) + b'\0'
        if df.offsets[('string_data', li)] + len(item) == len(buf) and buf.endswith(item):
            last_eof = True
            break
    else:
        raise AssertionError('could not place a string at the end of the file')
    assert [f.name for f in df.member_order[0]['sfields']] == [f.name for f in sfields]
    exp = {'strings': [g.units(s) for s in df.strings],
           'consts': [[op, g.units(s)] for op, s in consts],
           'statics': [['f%02d' % k, g.units(s)] for k, s in enumerate(statics)],
           'source': None if source is None else g.units(source),
           'last_at_eof': bool(last_eof)}
    return buf, exp


def feature(us):
    """coarse class of a string, for buckets and labels"""
    b = g.mutf8(us)
    lone = False
    pair = False
    i = 0
    while i < len(us):
        u = us[i]
        if 0xd800 <= u <= 0xdbff and i + 1 < len(us) and 0xdc00 <= us[i + 1] <= 0xdfff:
            pair = True
            i += 2
            continue
        if 0xd800 <= u <= 0xdfff:
            lone = True
        i += 1
    if lone:
        return 'lone-surrogate'
    if pair:
        return 'surrogate-pair'
    if 0 in us:
        return 'nul'
    if len(b) >= 127:
        return 'len>=127'
    if any(u > 0x7f for u in us):
        return 'non-ascii'
    return 'ascii'


GROUP = {'get_strings': 'pool', 'CM.get_string': 'pool', 'CM.get_raw_string': 'pool', 'get_cm_string': 'pool',
         'Instruction21c.get_raw_string': 'operand', 'Instruction21c.get_string': 'operand',
         'Instruction31c.get_raw_string': 'operand', 'Instruction31c.get_string': 'operand'}


def nontrivial(us):
    return any(u == 0 or u > 0x7f for u in us) or len(g.mutf8(us)) >= 127


def _units_of(s):
    if not isinstance(s, str):
        return None
    return g.units(s)


# ------------------------------------------------------------------------------------------ oracle
MAX_FULL_REPORTS = 12
_SMALLEST = {}


def _worth_reporting(ctx, bucket, dex_len):
    """full ctx.fail report for the first MAX_FULL_REPORTS cases of a bucket in a shard and for every case that is
    smaller than anything reported so far (so a shrunk case is always recorded); otherwise only count the occurrence"""
    key = (id(ctx), bucket)
    best = _SMALLEST.get(key)
    if getattr(ctx, '_shrink_bucket', None) is not None or ctx.fail_counts[bucket] < MAX_FULL_REPORTS or best is None \
            or dex_len < best:
        if best is None or dex_len < best:
            _SMALLEST[key] = dex_len
        return True
    ctx.fail_counts[bucket] += 1
    return False


class _OncePerCase:
    """ctx proxy used inside one evaluate() call: each bucket is reported at most once per case (a broken parser fails
    dozens of comparisons of the same clause on one file; one report per clause and case is enough and much cheaper)"""

    def __init__(self, ctx):
        self._ctx, self._seen = ctx, set()

    def fail(self, bucket, case, msg=''):
        if bucket in self._seen:
            return
        self._seen.add(bucket)
        if _worth_reporting(self._ctx, bucket, len(case['dex'])):
            self._ctx.fail(bucket, case, msg)

    def check(self, cond, bucket, case, msg=''):
        if not cond:
            self.fail(bucket, case() if callable(case) else case, msg)
        return cond


def evaluate(ctx, buf, exp, count=False):
    from vf.checks.c05 import cpu_limit, Hang, too_many_hangs
    if too_many_hangs(ctx):
        return
    try:
        with cpu_limit():
            _evaluate(ctx, buf, exp, count)
    except Hang:
        ctx.fail('hang', {'dex': buf, 'expected': exp}, 'parsing/querying this %d-byte well-formed file did not finish within '
                 '20 CPU-seconds (normal: milliseconds)' % len(buf))


def _evaluate(ctx, buf, exp, count=False):
    from androguard.core import dex
    case = {'dex': buf, 'expected': exp}
    real_ctx, ctx = ctx, _OncePerCase(ctx)

    def guarded(where, fn, *a):
        try:
            return True, fn(*a)
        except Exception as e:
            ctx.fail('exception:%s:%s' % (type(e).__name__, where), case, traceback.format_exc())
            return False, None

    def cmp(api, got, want, what):
        gu = _units_of(got)
        if gu != list(want):
            ft = feature(want)
            coarse = 'surrogate' if 'surrogate' in ft else 'nul' if ft == 'nul' else 'other'
            ctx.fail('%s:%s' % (GROUP.get(api, api), coarse), case,
                     '%s of %s: got units %r, MUTF-8 bytes %s encode %r' % (api, what, gu if gu is None else gu[:40],
                                                                          g.mutf8(want)[:60].hex(), list(want)[:40]))

    strings = exp['strings']
    if count:
        last = len(strings) - 1
        seen = set()

        def one(us, pl, extra=()):
            key = (tuple(us), pl)
            if key in seen:
                return
            seen.add(key)
            ln = len(g.mutf8(us))
            labels = ['placement:' + pl, 'class:' + feature(us),
                      'len:%s' % ('<126' if ln < 126 else '126-130' if ln <= 130 else '131-253' if ln < 254 else
                                  '254-258' if ln <= 258 else '259-999' if ln < 1000 else '1000+')] + list(extra)
            real_ctx.case(nontrivial=nontrivial(us), key=key, labels=labels,
                     sample={'units': list(us)[:24], 'mutf8_len': ln, 'placement': pl})
        for op, us in exp['consts']:
            one(us, 'const-string' if op == 0x1a else 'const-string/jumbo')
        for _, us in exp['statics']:
            one(us, 'static-value')
        if exp['source'] is not None:
            one(exp['source'], 'source-file')
        placed = {tuple(u) for _, u in exp['consts']} | {tuple(u) for _, u in exp['statics']}
        for i, us in enumerate(strings):
            if tuple(us) not in placed and nontrivial(us) or (i == last and exp['last_at_eof']):
                one(us, 'pool', ['last-string-at-eof'] if (i == last and exp['last_at_eof']) else [])

    ok, d = guarded('DEX', dex.DEX, buf)
    if not ok:
        return
    cm = d.get_class_manager()

    ok, got = guarded('get_strings', lambda: list(d.get_strings()))
    if ok and ctx.check(len(got) == len(strings), 'get_strings:count', case,
                        'get_strings() has %d entries, the pool has %d' % (len(got), len(strings))):
        for i, (s, us) in enumerate(zip(got, strings)):
            cmp('get_strings', s, us, 'string #%d' % i)
    for i, us in enumerate(strings):
        for api, fn in (('CM.get_string', cm.get_string), ('CM.get_raw_string', cm.get_raw_string),
                        ('get_cm_string', d.get_cm_string)):
            ok, s = guarded(api, fn, i)
            if ok:
                cmp(api, s, us, 'string #%d' % i)
    ok, items = guarded('get_string_data_item', lambda: list(d.get_string_data_item() or []))
    if ok and len(items) == len(strings):
        for i, (it, us) in enumerate(zip(items, strings)):
            ok, n = guarded('get_utf16_size', it.get_utf16_size)
            if ok:
                ctx.check(n == len(us), 'pool:utf16_size', case, 'string #%d: utf16_size %r, expected %d' % (i, n, len(us)))
            ok, raw = guarded('get_data', it.get_data)
            if ok:
                ctx.check(bytes(raw) == g.mutf8(us) + b'\0', 'pool:data_bytes', case,
                          'string #%d: data bytes %s, file has %s' % (i, bytes(raw)[:40].hex(), g.mutf8(us)[:40].hex()))

    ok, classes = guarded('get_classes', lambda: list(d.get_classes()))
    if not ok or not ctx.check(len(classes) == 1, 'classes', case, 'expected one class, got %d' % len(classes)):
        return
    k = classes[0]
    if exp['source'] is not None:
        ok, s = guarded('source', lambda: cm.get_string(k.get_source_file_idx()))
        if ok:
            cmp('source_file', s, exp['source'], 'source file name')
    if exp['statics']:
        ok, fl = guarded('get_fields', lambda: list(k.get_fields()))
        if ok and ctx.check(len(fl) == len(exp['statics']), 'statics:count', case, 'static field count %d' % len(fl)):
            for f, (name, us) in zip(fl, exp['statics']):
                ok, v = guarded('static_value', lambda: (f.get_name(), f.get_init_value()))
                if not ok:
                    continue
                if not ctx.check(v[0] == name and v[1] is not None, 'statics:binding', case,
                                 'field %r has init value %r (expected field %r with a value)' % (v[0], v[1], name)):
                    continue
                ok, s = guarded('static_value.get_value', v[1].get_value)
                if ok:
                    cmp('static_value', s, us, 'static value of ' + name)
    if exp['consts']:
        ok, ml = guarded('get_methods', lambda: list(k.get_methods()))
        if ok and ctx.check(len(ml) == 1 and ml[0].get_code() is not None, 'consts:method', case, 'method with code expected'):
            ok, ins = guarded('get_instructions', lambda: list(ml[0].get_code().get_bc().get_instructions()))
            if ok and ctx.check(len(ins) == len(exp['consts']) + 1, 'consts:count', case,
                                '%d instructions decoded, %d written' % (len(ins), len(exp['consts']) + 1)):
                for i, (op, us) in zip(ins, exp['consts']):
                    ok, gop = guarded('get_op_value', i.get_op_value)
                    if not ok or not ctx.check(gop == op, 'consts:opcode', case, 'opcode %r, expected 0x%x' % (gop, op)):
                        continue
                    name = 'Instruction21c' if op == 0x1a else 'Instruction31c'
                    ok, s = guarded(name + '.get_raw_string', i.get_raw_string)
                    if ok:
                        cmp(name + '.get_raw_string', s, us, 'operand')
                    ok, s = guarded(name + '.get_string', i.get_string)
                    if ok:
                        cmp(name + '.get_string', s, us, 'operand')


def check_case(ctx, v):
    items, strings_last, version = v
    buf, exp = build_case(items, strings_last, version)
    evaluate(ctx, buf, exp, count=True)


# ------------------------------------------------------------------------------------------ fixed cases
def fixed_cases():
    A = ord('a')
    out = []
    base = [[], [0], [0, 0], [A, 0, A], [0xd800], [0xdc00], [0xdbff, 0xdfff], [0xdc00, 0xd800], [0xd800, A], [A, 0xdfff],
            [0xd800, 0xd800, 0xdc00], [0xd83d, 0xde00], [0x7f, 0x80, 0x7ff, 0x800, 0xffff], [0xfeff, A], [0xed, 0xa0, 0x80]]
    for pl in ('pool', 'const', 'jumbo', 'static', 'source'):
        for us in base:
            out.append(([(us, pl)], False, '035'))
            out.append(([(us, pl)], True, '035'))
    # every length 120..135 and 250..260, ASCII and ending in / starting with a multi-byte character
    for ln in list(range(120, 136)) + list(range(250, 261)) + list(range(380, 388)):
        for kind in range(4):
            if kind == 0:
                us = [A] * ln
            elif kind == 1:
                us = [A] * (ln - 3) + [0x20ac]          # 3-byte sequence ends the string
            elif kind == 2:
                us = [A] * 125 + [0xd83d, 0xde00] + [A] * (ln - 131) if ln >= 131 else [A] * (ln - 2) + [0]
            else:
                us = [A] * 126 + [0x20ac] + [A] * (ln - 129) if ln >= 129 else [0] + [A] * (ln - 2)
            assert len(g.mutf8(us)) == ln
            out.append(([(us, 'pool'), ([ord('b')] * 3, 'const')], False, '035'))
            out.append(([(us, 'const'), ([0xffff, 0xffff], 'pool')], True, '035'))
            # the long string itself is the last string of the file
            out.append(([([0xffff] + us[:-3] if kind != 1 else [0xffff] + us[3:], 'static')], True, '035'))
    return out


# ------------------------------------------------------------------------------------------ harness glue
def shards(tier, seed):
    n = 15 if tier == 'quick' else 45
    return [('fixed', 0), ('fixed', 1)] + [('hyp', k) for k in range(n)]


def run_shard(ctx, shard):
    if shard[0] == 'fixed':
        cases = fixed_cases()
        for v in cases[shard[1]::2]:
            check_case(ctx, v)
        return
    n = 260 if ctx.tier == 'quick' else 2500
    hyp_collect(ctx, dex_cases, check_case, n, salt=shard[1], shrink_examples=200, shrink=SHRINK)


def replay(ctx, case):
    evaluate(ctx, case['dex'], case['expected'])
