"""C04 — encoded constant values keep their declared width and signedness.

Generated DEX files (vf.gen.dexgen, written from the DEX format specification) carry
  * static fields of every primitive/reference type with a `static_values` encoded_array,
  * class / field / method annotations whose elements cover every encoded_value type, nested arrays and
    nested annotations,
with every legal value_arg width (minimal and wider), values at the sign boundaries, and float/double items
interleaved (their value is *not* asserted - the statement is silent - but a mis-sized read of any item corrupts
the values that follow, which are asserted).

Oracle (model -> bytes -> androguard -> compare with model):
  EncodedField.get_init_value().get_value() and AnnotationElement.get_value().get_value():
     byte/short/int/long  -> the signed number,  char -> the unsigned code unit, boolean -> True/False, null -> None,
     string -> text, type -> descriptor, field/enum -> [class, type, name] (FieldIdItem.get_list, the resolved item),
     method -> [class, name, [(params), ret]] (MethodIdItem.get_list; blanks inside the parameter list ignored),
     array -> EncodedArray compared element-wise, annotation -> EncodedAnnotation (type, element names, values).
  DvClass.get_source() / get_source_ext(): the initialiser text of B/S/C/I/J/Z static fields parses to the same number.
"""
import re
import traceback
from hypothesis import strategies as st
from vf.core.runner import hyp_collect
from vf.gen import dexgen as G

PROPERTY = 'C04'
LEVEL = 'exploration'
RULE = ('DEX files built by the independent writer: 1-3 classes, each with 0-10 static fields (B S C I J Z F D String '
        'Class Object int[]) bound to a static_values array (trailing defaults trimmed at random), instance fields, and '
        'class/field/method annotation sets whose elements draw from every encoded_value type incl. arrays/annotations '
        'nested up to depth 3; integral values from sign boundaries (-1, MIN, MAX, 0x80.., 0x7f.., 0) and random, each '
        'in a width from minimal to the type maximum; index-valued items (string/type/field/method/enum) with pools of '
        '0/140/300 extra entries so that indices need 1 or 2 bytes and are written in 1..4; float/double interleaved. '
        'A deterministic sweep shard enumerates every (integral kind, legal width, boundary value). '
        'non-trivial = file containing a negative value, a non-minimal width or nesting depth >= 1; distinct = file bytes')
ASSUMPTIONS = ['vf/gen/dexgen.py writes encoded_value/encoded_array/encoded_annotation/annotation directory items as the '
               'DEX format specification defines them (value_type | (size-1)<<5, little-endian, sign-/zero-extension)',
               'float/double/method_type values are generated but not asserted (statement is silent)',
               'field/enum values are compared with FieldIdItem.get_list() = [class, type, name] and method values with '
               'MethodIdItem.get_list() = [class, name, [params, return]], the shapes androguard documents for a resolved item']
EXHAUSTIVE = False

VT = G.VALUE_TYPES
INTEGRAL = ('byte', 'short', 'int', 'long')
INDEXED = ('string', 'type', 'field', 'method', 'enum')
UNASSERTED = ('float', 'double', 'method_type')
SRC_TYPES = {'B': 'byte', 'S': 'short', 'C': 'char', 'I': 'int', 'J': 'long', 'Z': 'boolean'}

# (field descriptor, value kind) pairs legal for static_values: the element type must match the field type
FIELD_KINDS = [('B', 'byte'), ('S', 'short'), ('C', 'char'), ('I', 'int'), ('J', 'long'), ('Z', 'boolean'),
               ('F', 'float'), ('D', 'double'), ('Ljava/lang/String;', 'string'), ('Ljava/lang/String;', 'null'),
               ('Ljava/lang/Class;', 'type'), ('Ljava/lang/Object;', 'null'), ('[I', 'null')]

STRINGS = ['', 'a', 'hello world', 'value', 'Zz top', 'zzz-last', 'été', '中文', 'x' * 40, '~tilde']
TYPES = ['I', 'V', '[I', 'Ljava/lang/String;', '[[Lcom/x/T0;', 'Lcom/x/E;', 'Lz/Z;', '[Lz/Z;', 'Z', 'Ljava/lang/Object;']
FIELDS = [('Lcom/x/E;', 'RED', 'Lcom/x/E;'), ('Lcom/x/E;', 'GREEN', 'Lcom/x/E;'), ('Lz/Z;', 'zf', 'I'),
          ('Lz/Z;', 'zg', '[Lz/Z;'), ('La/A;', 'first', 'J'), ('Lcom/x/T0;', 'self', 'Lcom/x/T0;')]
METHODS = [('Lcom/x/E;', 'values', ('[Lcom/x/E;', ())), ('Lz/Z;', 'zm', ('V', ('I', 'J'))),
           ('Lz/Z;', '<init>', ('V', ())), ('La/A;', 'am', ('Ljava/lang/String;', ('Ljava/lang/String;', '[I', 'Z'))),
           ('Lcom/x/T0;', 'zm', ('I', ('I',)))]
ELEMENT_NAMES = ['value', 'a', 'b', 'names', 'zz', 'v1', 'when', 'CAPS', 'él']
ANN_TYPES = ['Lcom/x/A%d;' % i for i in range(6)] + ['Lz/ZAnn;']


def _signed_boundaries(maxw):
    """-1, 0, and for every byte count k: MIN_k, MAX_k (0x80.., 0x7f.. sign patterns), their neighbours, and the
    first values that need k+1 bytes (0x80.. and 0xff.. taken as positive numbers, MIN_k - 1)."""
    vals = {0, 1, -1, -2, 2}
    for k in range(1, maxw + 1):
        lo, hi = -(1 << (8 * k - 1)), (1 << (8 * k - 1)) - 1
        vals |= {lo, hi, lo + 1, hi - 1}
        if k < maxw:
            vals |= {lo - 1, hi + 1, (1 << (8 * k)) - 1, 1 << (8 * k)}
    return sorted(vals)


BOUNDARIES = {k: _signed_boundaries(G.MAXW[k]) for k in INTEGRAL}
BOUNDARIES['char'] = [0, 1, 0x7f, 0x80, 0xff, 0x100, 0x7fff, 0x8000, 0xfffe, 0xffff]


# ---------------------------------------------------------------------------------------------
# spec (plain data drawn by Hypothesis / enumerated by the sweep)  ->  dexgen model  ->  bytes + expectation
#   value spec: (kind, payload, extra)   extra = bytes added to the minimal width (clamped to the type maximum)
#       payload: int | bool | None | index into STRINGS/TYPES/FIELDS/METHODS | [value spec] | annotation spec
#   annotation spec: (type_no, visibility, [(name_no, value spec)])
#   class spec: dict(sf=[(fieldkind_no, value spec)], trim=int, nif=int, cann=[ann], fann=[[ann]], mann=[[ann]])
#   file spec: dict(classes=[class spec], big=int)

class _Builder:
    def __init__(self):
        self.pending = []      # (EV, extra) whose width depends on pool indices
        self.neg = self.wider = 0
        self.depth = 0
        self.kinds = []

    def ev(self, vs, depth=0):
        kind, payload, extra = vs
        self.kinds.append(kind)
        self.depth = max(self.depth, depth)
        if kind in INTEGRAL or kind == 'char':
            mw = G.min_width(kind, payload)
            w = min(G.MAXW[kind], mw + extra)
            if payload < 0:
                self.neg += 1
            if w > mw:
                self.wider += 1
            return G.EV(kind, payload, w)
        if kind in ('float', 'double'):
            full = G.MAXW[kind]
            w = full - min(extra, full - 1)            # bytes kept; the dropped low-order bytes must be zero
            bits = payload & ((1 << (8 * full)) - 1)
            bits &= ~((1 << (8 * (full - w))) - 1)
            return G.EV(kind, bits, w)
        if kind == 'boolean':
            return G.EV(kind, bool(payload))
        if kind == 'null':
            return G.EV(kind)
        if kind in INDEXED:
            pool = {'string': STRINGS, 'type': TYPES, 'field': FIELDS, 'enum': FIELDS, 'method': METHODS}[kind]
            e = G.EV(kind, pool[payload % len(pool)], None)
            self.pending.append((e, extra))
            return e
        if kind == 'array':
            return G.EV(kind, [self.ev(x, depth + 1) for x in payload])
        if kind == 'annotation':
            return G.EV(kind, self.ann(payload, depth + 1))
        raise AssertionError(kind)

    def ann(self, aspec, depth=0):
        tno, vis, els = aspec
        seen, out = set(), []
        for (nno, vs) in els:
            name = ELEMENT_NAMES[nno % len(ELEMENT_NAMES)]
            if name in seen:
                continue
            seen.add(name)
            out.append((name, self.ev(vs, depth)))
        return G.Annotation(ANN_TYPES[tno % len(ANN_TYPES)], out, vis)

    def annset(self, aspecs):
        seen, out = set(), []
        for a in aspecs:
            t = ANN_TYPES[a[0] % len(ANN_TYPES)]
            if t in seen:
                continue
            seen.add(t)
            out.append(self.ann(a))
        return out


def _evx(df, e):
    """expectation (JSON-able) of one EV after pools are known"""
    k = e.kind
    if k == 'array':
        return {'k': k, 'v': [_evx(df, x) for x in e.value]}
    if k == 'annotation':
        return {'k': k, 'v': _annx(df, e.value)}
    if k == 'method':
        c, n, (r, ps) = e.value
        return {'k': k, 'w': e.width, 'v': [c, n, r, list(ps)], 'idx': df.ix.m(c, n, r, ps)}
    if k in ('field', 'enum'):
        return {'k': k, 'w': e.width, 'v': list(e.value), 'idx': df.ix.f(*e.value)}
    if k == 'string':
        return {'k': k, 'w': e.width, 'v': e.value, 'idx': df.ix.s(e.value)}
    if k == 'type':
        return {'k': k, 'w': e.width, 'v': e.value, 'idx': df.ix.t(e.value)}
    return {'k': k, 'w': e.width, 'v': e.value}


def _annx(df, a):
    els = sorted(a.elements, key=lambda ne: df.ix.s(ne[0]))
    return {'type': a.type, 'type_idx': df.ix.t(a.type), 'vis': a.visibility,
            'els': [[n, df.ix.s(n), _evx(df, e)] for n, e in els]}


def _setx(df, anns):
    return [_annx(df, a) for a in sorted(anns, key=lambda a: df.ix.t(a.type))]


def _stats(exp):
    """what the written file really contains (trimmed static values excluded)"""
    st_ = {'neg': 0, 'wider': 0, 'depth': 0, 'kinds': [], 'idx_wide': 0}

    def val(x, depth):
        k = x['k']
        st_['kinds'].append(k)
        st_['depth'] = max(st_['depth'], depth)
        if k == 'array':
            for e in x['v']:
                val(e, depth + 1)
        elif k == 'annotation':
            ann(x['v'], depth + 1)
        elif k in INTEGRAL or k == 'char':
            st_['neg'] += x['v'] < 0
            st_['wider'] += x['w'] > G.min_width(k, x['v'])
        elif k in INDEXED:
            st_['wider'] += x['w'] > G.min_width(k, x['idx'])
            st_['idx_wide'] += x['idx'] >= 256

    def ann(a, depth):
        for _n, _i, e in a['els']:
            val(e, depth)
    for ec in exp['classes']:
        for f in ec['sfields']:
            if f['ev'] is not None:
                val(f['ev'], 0)
        for a in ec['cann']:
            ann(a, 0)
        for m in ec['fann'] + ec['mann']:
            for a in m['anns']:
                ann(a, 0)
    return st_


def build(spec):
    """file spec -> (dex bytes, expectation dict, stats dict)"""
    b = _Builder()
    classes, per_class = [], []
    for ci, cs in enumerate(spec['classes']):
        cname = 'Lcom/x/T%d;' % ci
        sfields, vals = [], []
        for k, (fk, vs) in enumerate(cs['sf']):
            ftype, kind = FIELD_KINDS[fk % len(FIELD_KINDS)]
            assert vs[0] == kind, (vs, kind)
            sfields.append(G.Field('s%d' % k, ftype, 0x0009))           # public static
            vals.append(b.ev(vs))
        ifields = [G.Field('i%d' % k, ('I', 'B', 'J')[k % 3], 0x0001) for k in range(cs.get('nif', 0))]
        for fl, sets in ((sfields + ifields, cs.get('fann', [])),):
            for f, aspecs in zip(fl, sets):
                f.annotations = b.annset(aspecs)
        methods = []
        for k, aspecs in enumerate(cs.get('mann', [])):
            m = G.Method('n%d' % k, 'V', ('I',) * k, 0x0101)            # public native, no code
            m.annotations = b.annset(aspecs)
            methods.append(m)
        c = G.Class(cname, 1, sfields=sfields, ifields=ifields, dmethods=[], vmethods=methods,
                    static_values=list(vals) if sfields else None, annotations=b.annset(cs.get('cann', [])))
        classes.append(c)
        per_class.append((sfields, vals, cs.get('trim', 0)))
    big = spec.get('big', 0)
    extra = []
    for i in range(big):
        extra += [('s', 'pool%03d' % i), ('t', 'Lp/Q%03d;' % i), ('f', 'Lp/Q000;', 'g%03d' % i, 'I'),
                  ('m', 'Lp/Q000;', 'h%03d' % i, 'V', ())]
    df = G.DexFile(classes, extra_refs=extra)
    df._collect()                                   # pools -> indices (field order of the static_values array)
    exp_classes = []
    for c, (sfields, vals, trim) in zip(classes, per_class):
        order = sorted(range(len(sfields)), key=lambda i: df.ix.f(c.name, sfields[i].name, sfields[i].type))
        nvals = max(0, len(order) - trim)
        if sfields:
            c.static_values = [vals[i] for i in order[:nvals]]
        exp_classes.append((c, order, nvals, sfields, vals))
    df._collect()                                   # trimmed values no longer contribute pool items; build() recomputes the same pools
    ix = df.ix
    idx_wide = 0
    for e, ex in b.pending:
        k = e.kind
        if k == 'string' and e.value not in ix.sidx or k == 'type' and e.value not in ix.tidx:
            continue                                # belongs to a trimmed static value
        idx = (ix.s(e.value) if k == 'string' else ix.t(e.value) if k == 'type' else
               ix.f(*e.value) if k in ('field', 'enum') else ix.m(e.value[0], e.value[1], e.value[2][0], e.value[2][1]))
        mw = G.min_width(k, idx)
        e.width = min(4, mw + ex)
        if e.width > mw:
            b.wider += 1
        if idx >= 256:
            idx_wide += 1
    data = df.build()
    assert df.ix.sidx == ix.sidx and df.ix.fidx == ix.fidx and df.ix.midx == ix.midx and df.ix.tidx == ix.tidx
    exp = {'classes': []}
    for ci, (c, order, nvals, sfields, vals) in enumerate(exp_classes):
        written = df.member_order[ci]['sfields']
        assert [f.name for f in written] == [sfields[i].name for i in order]
        ec = {'name': c.name,
              'sfields': [{'name': sfields[i].name, 'type': sfields[i].type,
                           'ev': _evx(df, vals[i]) if pos < nvals else None} for pos, i in enumerate(order)],
              'ifields': [f.name for f in c.ifields],
              'cann': _setx(df, c.annotations),
              'fann': sorted(({'idx': df.ix.f(c.name, f.name, f.type), 'name': f.name, 'anns': _setx(df, f.annotations)}
                              for f in c.sfields + c.ifields if f.annotations), key=lambda d: d['idx']),
              'mann': sorted(({'idx': df.ix.m(c.name, m.name, m.ret, m.params), 'name': m.name,
                               'anns': _setx(df, m.annotations)} for m in c.vmethods if m.annotations),
                             key=lambda d: d['idx'])}
        exp['classes'].append(ec)
    stats = _stats(exp)
    stats['big'] = big
    return data, exp, stats


# ---------------------------------------------------------------------------------------------
# observation: androguard objects -> plain data (only androguard accessors are called here)

def _obs_value(cm, ev):
    t = ev.get_value_type()
    v = ev.get_value()
    o = {'t': t, 'arg': ev.get_value_arg()}
    cls = type(v).__name__
    if cls == 'EncodedArray':
        o['array'] = {'size': v.get_size(), 'values': [_obs_value(cm, x) for x in v.get_values()]}
    elif cls == 'EncodedAnnotation':
        o['annotation'] = _obs_enc_annotation(cm, v)
    else:
        o['v'] = v
    return o


def _obs_enc_annotation(cm, ea):
    return {'type_idx': ea.get_type_idx(), 'type': cm.get_type(ea.get_type_idx()), 'size': ea.get_size(),
            'els': [[el.get_name_idx(), cm.get_string(el.get_name_idx()), _obs_value(cm, el.get_value())]
                    for el in ea.get_elements()]}


def _obs_set(cm, set_item):
    if set_item is None:
        return None
    out = []
    for off_item in set_item.get_annotation_off_item():
        item = off_item.get_annotation_item()
        if item is None:
            out.append(None)
            continue
        a = _obs_enc_annotation(cm, item.get_annotation())
        a['vis'] = item.get_visibility()
        out.append(a)
    return out


def observe(d):
    cm = d.get_class_manager()
    out = {}
    for c in d.get_classes():
        oc = {'fields': {}, 'cann': None, 'fann': [], 'mann': []}
        for f in c.get_fields():
            iv = f.get_init_value()
            oc['fields'][f.get_name()] = {'type': f.get_descriptor(), 'access': f.get_access_flags(),
                                          'init': None if iv is None else _obs_value(cm, iv)}
        off = c.get_annotations_off()
        if off:
            adi = cm.get_annotations_directory_item(off)
            if adi is not None:
                if adi.get_class_annotations_off():
                    oc['cann'] = _obs_set(cm, adi.get_annotation_set_item())
                for fa in adi.get_field_annotations():
                    oc['fann'].append({'idx': fa.get_field_idx(),
                                       'anns': _obs_set(cm, cm.get_annotation_set_item(fa.get_annotations_off()))})
                for ma in adi.get_method_annotations():
                    oc['mann'].append({'idx': ma.get_method_idx(),
                                       'anns': _obs_set(cm, cm.get_annotation_set_item(ma.get_annotations_off()))})
        out[c.get_name()] = oc
    return out


# ---------------------------------------------------------------------------------------------
# comparison (pure)

def _sign(v):
    return 'neg' if v < 0 else 'nonneg'


def _cmp_value(x, o, where, fails):
    """x: expectation, o: observation; appends (bucket, message)"""
    k = x['k']
    if o is None:
        fails.append(('missing:%s' % k, '%s: no value reported, expected %r' % (where, x)))
        return
    if o['t'] != VT[k]:
        fails.append(('type:%s' % k, '%s: value_type 0x%02x reported, 0x%02x (%s) encoded' % (where, o['t'], VT[k], k)))
        return
    if k in UNASSERTED:
        return
    if k == 'array':
        a = o.get('array')
        if a is None or a['size'] != len(x['v']) or len(a['values']) != len(x['v']):
            fails.append(('array:shape', '%s: array of %d elements reported as %r' % (where, len(x['v']), a if a is None else a['size'])))
            return
        for i, (xe, oe) in enumerate(zip(x['v'], a['values'])):
            _cmp_value(xe, oe, '%s[%d]' % (where, i), fails)
        return
    if k == 'annotation':
        _cmp_annotation(x['v'], o.get('annotation'), where, fails, nested=True)
        return
    got = o.get('v', '<structured>')
    if k in INTEGRAL or k == 'char':
        mw = G.min_width(k, x['v'])
        wc = 'minimal' if x['w'] == mw else 'wider'
        ok = isinstance(got, int) and not isinstance(got, bool) and got == x['v']
        if not ok:
            fails.append(('value:%s:%s' % (k, _sign(x['v'])),
                          '%s: %s %d encoded in %d byte(s) (%s width) reported as %r' % (where, k, x['v'], x['w'], wc, got)))
    elif k == 'boolean':
        if got is not x['v']:
            fails.append(('value:boolean', '%s: boolean %r reported as %r' % (where, x['v'], got)))
    elif k == 'null':
        if got is not None:
            fails.append(('value:null', '%s: null reported as %r' % (where, got)))
    elif k in ('string', 'type'):
        if not (isinstance(got, str) and got == x['v']):
            fails.append(('value:%s' % k, '%s: %s #%d %r (width %d) reported as %r' % (where, k, x['idx'], x['v'], x['w'], got)))
    elif k in ('field', 'enum'):
        c, n, t = x['v']
        if not (isinstance(got, (list, tuple)) and list(got) == [c, t, n]):
            fails.append(('value:%s' % k, '%s: %s #%d %r (width %d) reported as %r, expected [class, type, name]'
                          % (where, k, x['idx'], x['v'], x['w'], got)))
    elif k == 'method':
        c, n, r, ps = x['v']
        ok = (isinstance(got, (list, tuple)) and len(got) == 3 and got[0] == c and got[1] == n
              and isinstance(got[2], (list, tuple)) and len(got[2]) == 2 and isinstance(got[2][0], str)
              and got[2][0].replace(' ', '') == '(' + ''.join(ps) + ')' and got[2][1] == r)
        if not ok:
            fails.append(('value:method', '%s: method #%d %r (width %d) reported as %r' % (where, x['idx'], x['v'], x['w'], got)))
    else:
        raise AssertionError(k)


def _cmp_annotation(x, o, where, fails, nested=False):
    if o is None:
        fails.append(('annotation:missing', '%s: annotation %s not reported' % (where, x['type'])))
        return
    if o['type_idx'] != x['type_idx'] or o['type'] != x['type']:
        fails.append(('annotation:type', '%s: annotation type #%d %s reported as #%r %r' % (where, x['type_idx'], x['type'], o['type_idx'], o['type'])))
        return
    # (the visibility byte of an annotation_item is generated with all three values but not asserted: the
    #  statement is about element values)
    if o['size'] != len(x['els']) or len(o['els']) != len(x['els']):
        fails.append(('annotation:shape', '%s: %d elements reported as %r' % (where, len(x['els']), o['size'])))
        return
    for (xn, xi, xv), (oi, on, ov) in zip(x['els'], o['els']):
        w = '%s@%s.%s' % (where, x['type'], xn)
        if oi != xi or on != xn:
            fails.append(('annotation:element-name', '%s: element name #%d %r reported as #%r %r' % (w, xi, xn, oi, on)))
            continue
        _cmp_value(xv, ov, w, fails)


def _cmp_set(xs, os_, where, fails):
    if not xs:
        return
    if os_ is None or len(os_) != len(xs):
        fails.append(('annotation:set', '%s: set of %d annotations reported as %r' % (where, len(xs), None if os_ is None else len(os_))))
        return
    for xa, oa in zip(xs, os_):
        _cmp_annotation(xa, oa, where, fails)


def _cmp_members(xl, ol, where, fails):
    if [e['idx'] for e in xl] != [e['idx'] for e in ol]:
        fails.append(('annotation:directory', '%s: annotated member indices %r reported as %r'
                      % (where, [e['idx'] for e in xl], [e['idx'] for e in ol])))
        return
    for xe, oe in zip(xl, ol):
        _cmp_set(xe['anns'], oe['anns'], '%s %s' % (where, xe['name']), fails)


def compare(exp, obs):
    fails = []
    for ec in exp['classes']:
        oc = obs.get(ec['name'])
        if oc is None:
            fails.append(('class:missing', 'class %s not reported' % ec['name']))
            continue
        for xf in ec['sfields']:
            of = oc['fields'].get(xf['name'])
            w = 'static %s->%s %s' % (ec['name'], xf['name'], xf['type'])
            if of is None or of['type'] != xf['type']:
                fails.append(('field:missing', '%s: field not reported (%r)' % (w, of)))
                continue
            if xf['ev'] is None:
                continue        # trimmed default value: the statement does not say what is reported
            if of['init'] is None:
                fails.append(('static:unbound', '%s: no initial value reported, %r encoded' % (w, xf['ev'])))
                continue
            _cmp_value(xf['ev'], of['init'], w, fails)
        _cmp_set(ec['cann'], oc['cann'], 'class-annotation %s' % ec['name'], fails)
        _cmp_members(ec['fann'], oc['fann'], 'field-annotation %s' % ec['name'], fails)
        _cmp_members(ec['mann'], oc['mann'], 'method-annotation %s' % ec['name'], fails)
    return fails


_NUM = re.compile(r'^[+-]?(0[xX][0-9a-fA-F]+|\d+)[lL]?$')


def parse_initialiser(text, ftype=None):
    """-> int, or None when the text is not a number / boolean / character literal. A boolean word is the value of a
    boolean field only, and a boolean field is initialised by a boolean word only (`int x = True` / `boolean z = 0`
    are not "the same value in the field initialiser")."""
    t = text.strip()
    if t in ('true', 'True', 'false', 'False'):
        if ftype not in (None, 'Z'):
            return None
        return 1 if t in ('true', 'True') else 0
    if ftype == 'Z':
        return None
    if _NUM.match(t):
        return int(t.rstrip('lL'), 0)
    if len(t) == 3 and t[0] == t[2] == "'":
        return ord(t[1])
    return None


def _cmp_source(ec, src, ext_fields, fails):
    for xf in ec['sfields']:
        k = SRC_TYPES.get(xf['type'])
        if k is None or xf['ev'] is None:
            continue
        want = int(xf['ev']['v'])
        w = '%s->%s %s' % (ec['name'], xf['name'], xf['type'])
        sgn = _sign(want)
        m = re.search(r'(?m)^.*\b%s = (.*);$' % re.escape(xf['name']), src)
        if m is None:
            fails.append(('source:no-initialiser', '%s: no initialiser for %d in get_source()' % (w, want)))
        else:
            got = parse_initialiser(m.group(1), xf['type'])
            if got is None or got != want:
                fails.append(('source:%s' % sgn, '%s: get_source() prints %r, encoded value is %d' % (w, m.group(0).strip(), want)))
        if ext_fields is not None:
            txt = ext_fields.get(xf['name'])
            got = None
            if txt is not None:
                mm = re.match(r'^\s*=\s*(.*)$', txt)
                got = parse_initialiser(mm.group(1), xf['type']) if mm else None
            if got is None or got != want:
                fails.append(('source_ext:%s' % sgn, '%s: get_source_ext() FIELD_VALUE %r, encoded value is %d' % (w, txt, want)))


def _ext_fields(ext):
    """get_source_ext() -> {field name: FIELD_VALUE text}"""
    out = {}
    for tag, items in ext:
        if tag != 'FIELD':
            continue
        name = value = None
        for it in items:
            if it[0] == 'NAME_FIELD':
                name = it[1]
            elif it[0] == 'FIELD_VALUE':
                value = it[1]
        if name is not None:
            out[name] = value
    return out


def check_dex(ctx, data, exp, case=None):
    from androguard.core import dex
    from androguard.core.analysis.analysis import Analysis
    from androguard.decompiler.decompile import DvClass
    if case is None:
        case = {'dex': data, 'exp': exp}
    try:
        d = dex.DEX(data)
        obs = observe(d)
    except Exception:
        ctx.fail('exception:parse', case, traceback.format_exc())
        return
    for bucket, msg in compare(exp, obs):
        ctx.fail(bucket, case, msg)
    want_src = [ec for ec in exp['classes'] if any(f['ev'] is not None and f['type'] in SRC_TYPES for f in ec['sfields'])]
    if not want_src:
        return
    try:
        dx = Analysis(d)
        srcs = {}
        for ec in want_src:
            dc = DvClass(d.get_class(ec['name']), dx)
            dc.process()
            srcs[ec['name']] = (dc.get_source(), dc.get_source_ext(), dc.get_ast())
    except Exception:
        ctx.fail('exception:decompile', case, traceback.format_exc())
        return
    fails = []
    for ec in want_src:
        src, ext, _ast = srcs[ec['name']]
        _cmp_source(ec, src, _ext_fields(ext), fails)
    for bucket, msg in fails:
        ctx.fail(bucket, case, msg)


def check_spec(ctx, spec):
    data, exp, stt = build(spec)
    labels = ['kind:' + k for k in sorted(set(stt['kinds']))]
    labels += [l for l, c in (('has-negative', stt['neg']), ('has-wider-width', stt['wider']),
                              ('depth>=1', stt['depth'] >= 1), ('depth>=2', stt['depth'] >= 2),
                              ('big-pools', stt['big']), ('index>=256', stt['idx_wide'])) if c]
    ctx.case(nontrivial=bool(stt['neg'] or stt['wider'] or stt['depth'] >= 1), key=data, labels=labels,
             sample={'classes': len(exp['classes']), 'values': len(stt['kinds']), 'negative': stt['neg'],
                     'wider': stt['wider'], 'depth': stt['depth'], 'dex_size': len(data),
                     'first_static': (exp['classes'][0]['sfields'] or [None])[0]})
    ctx.count('values', len(stt['kinds']))
    check_dex(ctx, data, exp)


# ---------------------------------------------------------------------------------------------
# generator. Hypothesis draws a small parameter tuple (seed + size knobs, so that shrinking reduces the sizes);
# the seed is expanded deterministically into a file spec (building the nested structure draw-by-draw inside
# Hypothesis costs ~0.5 s per file, two orders of magnitude more than building + parsing + decompiling it).

LEAF_KINDS = ['byte', 'short', 'char', 'int', 'long', 'float', 'double', 'boolean', 'null',
              'string', 'type', 'field', 'method', 'enum']


def gen_leaf(r, kind):
    if kind in INTEGRAL or kind == 'char':
        c = r.random()
        maxw = G.MAXW[kind]
        if c < 0.45:
            v = r.choice(BOUNDARIES[kind])
        elif kind == 'char':
            v = r.getrandbits(r.choice([7, 8, 9, 15, 16]))
        else:
            nb = 8 * r.randint(1, maxw)
            v = r.getrandbits(nb) - (1 << (nb - 1))            # uniform in the signed range of 1..maxw bytes
        return (kind, v, r.choice([0, 0, 1, 1, 2, 3, 5, 7]))
    if kind == 'float':
        return (kind, r.getrandbits(32), r.choice([0, 0, 1, 2, 3]))
    if kind == 'double':
        return (kind, r.getrandbits(64), r.choice([0, 0, 1, 3, 6, 7]))
    if kind == 'boolean':
        return (kind, r.random() < 0.5, 0)
    if kind == 'null':
        return (kind, None, 0)
    if kind in INDEXED:
        return (kind, r.randrange(10), r.choice([0, 0, 1, 2, 3]))
    raise AssertionError(kind)


def gen_value(r, depth):
    if depth > 0 and r.random() < 0.3:
        if r.random() < 0.5:
            return ('array', [gen_value(r, depth - 1) for _ in range(r.randint(0, 4))], 0)
        return ('annotation', gen_ann(r, depth - 1), 0)
    return gen_leaf(r, r.choice(LEAF_KINDS))


def gen_ann(r, depth):
    names = r.sample(range(len(ELEMENT_NAMES)), r.randint(0, 5))
    return (r.randrange(len(ANN_TYPES)), r.randint(0, 2), [(n, gen_value(r, depth)) for n in names])


def gen_annset(r, depth, maxn):
    types = r.sample(range(len(ANN_TYPES)), r.randint(1, maxn)) if maxn > 0 else []
    return [(t,) + gen_ann(r, depth)[1:] for t in types]


def gen_spec(params):
    seed, ncls, nsf, nann, depth, big = params
    import random
    r = random.Random(seed)
    classes = []
    for _ in range(ncls):
        sf = []
        for _k in range(r.randint(0, nsf)):
            fk = r.randrange(len(FIELD_KINDS))
            sf.append((fk, gen_leaf(r, FIELD_KINDS[fk][1])))
        classes.append({
            'sf': sf, 'trim': r.choice([0, 0, 0, 1, 2, 20]), 'nif': r.randint(0, 2),
            'cann': gen_annset(r, depth, nann) if nann and r.random() < 0.7 else [],
            'fann': [gen_annset(r, depth, nann) if r.random() < 0.5 else [] for _k in range(r.randint(0, 3))] if nann else [],
            'mann': [gen_annset(r, depth, nann) for _k in range(r.randint(0, 2))] if nann else [],
        })
    return {'classes': classes, 'big': big}


def params_strategy():
    return st.tuples(st.integers(0, (1 << 32) - 1), st.integers(1, 3), st.integers(0, 10), st.integers(0, 3),
                     st.integers(0, 3), st.sampled_from([0, 0, 0, 140, 300]))


def check_params(ctx, params):
    check_spec(ctx, gen_spec(params))


# ---------------------------------------------------------------------------------------------
# deterministic sweep: every (integral kind, legal width, boundary value)

def sweep_specs():
    triples = []
    for kind in ('byte', 'short', 'char', 'int', 'long'):
        for v in BOUNDARIES[kind]:
            mw = G.min_width(kind, v)
            for w in range(mw, G.MAXW[kind] + 1):
                triples.append((kind, v, w - mw))
    fk_of = {k: i for i, (_t, k) in enumerate(FIELD_KINDS) if k in SRC_TYPES.values()}
    f_fk = [i for i, (_t, k) in enumerate(FIELD_KINDS) if k == 'float'][0]
    d_fk = [i for i, (_t, k) in enumerate(FIELD_KINDS) if k == 'double'][0]
    specs = []
    per = 6
    for n in range(0, len(triples), per):
        chunk = triples[n:n + per]
        sf, els = [], []
        for j, tr in enumerate(chunk):
            sf.append((fk_of[tr[0]], tr))
            fl = ('float', 0x3fc00000 + n + j, j % 4) if j % 2 == 0 else ('double', 0xc008000000000000 + ((n + j) << 40), (j * 3) % 8)
            sf.append((f_fk if fl[0] == 'float' else d_fk, fl))
            els.append(tr)
            els.append(fl)
        # the same values as annotation elements (<= 9 names: use two annotations + an array)
        anns = [(0, 1, [(i, v) for i, v in enumerate(els[:9])]),
                (1, 2, [(0, ('array', els, 0)), (1, ('annotation', (2, 0, [(i, v) for i, v in enumerate(els[9:])]), 0))])]
        specs.append({'classes': [{'sf': sf, 'trim': 0, 'nif': 1, 'cann': anns, 'fann': [], 'mann': []}], 'big': 0})
    return specs


def shards(tier, seed):
    n = 15 if tier == 'quick' else 47
    return [('sweep',)] + [('hyp', k) for k in range(n)]


def run_shard(ctx, shard):
    if shard[0] == 'sweep':
        for spec in sweep_specs():
            check_spec(ctx, spec)
        # booleans / null / every index kind in every width, nested
        for extra in range(4):
            for big in (0, 300):
                els = [(i, (k, 6, extra)) for i, k in enumerate(INDEXED)] + [(5, ('boolean', True, 0)), (6, ('boolean', False, 0)),
                                                                            (7, ('null', None, 0))]
                spec = {'classes': [{'sf': [(8, ('string', 5, extra)), (10, ('type', 6, extra)), (5, ('boolean', True, 0)),
                                            (5, ('boolean', False, 0)), (11, ('null', None, 0))],
                                     'trim': 0, 'nif': 0, 'cann': [(0, 1, els), (1, 0, [(0, ('array', [e for _i, e in els], 0))])],
                                     'fann': [[(2, 1, els)]], 'mann': [[(3, 2, els)]]}], 'big': big}
                check_spec(ctx, spec)
        return
    n = 250 if ctx.tier == 'quick' else 1500
    hyp_collect(ctx, params_strategy(), check_params, n, salt=shard[1], shrink_examples=150)


def replay(ctx, case):
    check_dex(ctx, case['dex'], case['exp'])
