"""C01 — Dalvik instruction decoding is faithful for every operand encoding.

Domain: every first code unit (256 opcodes x 256 high bytes), each with deterministic fillers for the
remaining code units (all-zero, all-ones, every per-field boundary pattern of the format) and Hypothesis-
drawn random fillers. Entry point dex.get_instruction(cm, op, buf) with a stub ClassManager (real
DalvikPacker, synthetic pool lookups); a sample also goes through a one-instruction LinearSweepAlgorithm run.
Secondary domain: the 14 ODEX opcodes through get_optimized_instruction (length, round trip, 5rc range).

Oracle: vf.gen.dalvik_spec (tables typed from the Dalvik specification): length, raw round trip, mnemonic,
operand list in syntax order (registers, sign-extended literals, 21h shifted, signed offsets, pool index with
the kind of pool the specification names), get_literals / get_ref_off / get_ref_kind; unused opcodes raise
InvalidInstruction. Where the specification gives an encoding no meaning (35c-style lists with A > 5,
invoke-polymorphic with A == 0, non-zero must-be-zero byte of 10x/20t/30t/32x) only "rejected with
InvalidInstruction, or correct length + exact round trip" is asserted.
"""
import struct
import traceback

from hypothesis import strategies as st

from vf.core.runner import hyp_collect
from vf.gen import dalvik_spec as ds

PROPERTY = 'C01'
LEVEL = 'exploration'
RULE = ('first code unit enumerated exhaustively (256 opcodes x 256 high bytes); remaining code units: all-zero, '
        'all-ones, every per-field boundary pattern (0, 1, signed max, signed min, all-ones-1, all-ones; other fields '
        'all-zero / all-ones) and random fillers derived from Hypothesis draws (on average 4 per first unit quick, 64 thorough); '
        '14 ODEX opcodes with boundary/random operands. non-trivial = valid opcode with some operand field non-zero; '
        'distinct = (opcode, instruction bytes)')
ASSUMPTIONS = [
    'opcode/format tables in vf/gen/dalvik_spec.py typed from the Dalvik bytecode + instruction-formats specification; '
    'the length table tiles all 125 538 code items of the shipped DEX files (python -m vf.gen.dalvik_spec)',
    'table entries that never met shipped data: move/16, move-wide/16, move-object/16, goto/32, sget/sput-byte/short, '
    'sput-char, not-long, rem-double(/2addr), invoke-polymorphic(/range), invoke-custom(/range), const-method-handle, '
    'const-method-type',
    'must-be-zero high byte (10x/20t/30t/32x) non-zero, 35c/45cc register count > 5, 45cc count 0: only '
    'rejection or length + round trip is asserted (specification gives no meaning)',
    'ODEX jumbo formats 41c/40sc/52c/5rc (length 4/4/5/5 units, layout op16|index32|AAAA[|BBBB or CCCC]) are taken from '
    'the historical (Android 4.0) instruction-format document; only length, round trip and the 5rc/3rms/3rmi register '
    'range {vCCCC .. vCCCC+count-1} are asserted for them',
    'get_operands() exposes a pool index as (Kind + Operand.KIND, index, text); Kind names STRING/TYPE/FIELD/METH/'
    'PROTO/CALL_SITE/METHOD_HANDLE are matched to the specification pool by name',
]


def EXHAUSTIVE(tier):
    return True      # the first code unit; fillers are boundary + sampled


NSHARDS = 16
TRAIL = b'\xa5\x5a'          # bytes after the instruction (the sweep always passes the rest of the code)

# spec pool -> name of androguard's Kind enum member (public API of androguard.core.dex.dex_types)
KIND_NAME = {ds.REF_STRING: 'STRING', ds.REF_TYPE: 'TYPE', ds.REF_FIELD: 'FIELD', ds.REF_METHOD: 'METH',
             ds.REF_PROTO: 'PROTO', ds.REF_CALL_SITE: 'CALL_SITE', ds.REF_METHOD_HANDLE: 'METHOD_HANDLE'}


class _Meth:
    def __init__(self, i):
        self.i = i

    def get_class_name(self):
        return 'LM%d;' % self.i

    def get_name(self):
        return 'm%d' % self.i

    def get_descriptor(self):
        return '(I)V'

    def get_list(self):
        return [self.get_class_name(), self.get_name(), self.get_descriptor()]


def make_cm(odex=False):
    """Stub ClassManager: the real DalvikPacker + synthetic, index-revealing pool lookups."""
    from androguard.core import dex

    class StubCM:
        def __init__(self):
            self.packer = dex.DalvikPacker(0x12345678)
            self.odex = odex

        def get_odex_format(self):
            return self.odex

        def get_string(self, i):
            return 'str%d' % i

        get_raw_string = get_string

        def get_type(self, i):
            return 'Ltype%d;' % i

        def get_field(self, i):
            return ['LF%d;' % i, 'I', 'f%d' % i]

        def get_method_ref(self, i):
            return _Meth(i)

        def get_method(self, i):
            return _Meth(i).get_list()

        def get_proto(self, i):
            return ['(I)', 'V']
    return StubCM()


def resolved_text(kind, i):
    """What the stub pools make of index i for the four resolvable pools (else None = not compared)."""
    if kind == ds.REF_STRING:
        return 'str%d' % i
    if kind == ds.REF_TYPE:
        return 'Ltype%d;' % i
    if kind == ds.REF_FIELD:
        return 'LF%d;->f%d I' % (i, i)
    if kind == ds.REF_METHOD:
        return 'LM%d;->m%d(I)V' % (i, i)
    return None


def _call(ctx, where, fmt, case, fn):
    """Call an accessor of a decoded, valid instruction: any exception is a violation."""
    try:
        return True, fn()
    except Exception:
        ctx.fail('exception:%s:%s' % (where, fmt), case, traceback.format_exc(limit=4))
        return False, None


def check_decode(ctx, op, buf, sweep=False):
    """buf: first code unit + following bytes (at least the instruction, plus trailing junk)."""
    from androguard.core import dex
    from androguard.core.dex.dex_types import Kind, Operand
    cm = make_cm()
    case = {'mode': 'decode', 'op': op, 'buf': bytes(buf)}
    o = ds.OPCODES[op]
    assert buf[0] == op

    if op in ds.UNUSED:
        ctx.case(nontrivial=False, key=(op, bytes(buf)), labels='unused')
        try:
            ins = dex.get_instruction(cm, op, bytearray(buf))
        except dex.InvalidInstruction:
            return
        except Exception:
            ctx.fail('unused:exception', case, traceback.format_exc(limit=4))
            return
        ctx.fail('unused:accepted', case, 'unused opcode %#04x decoded as %r' % (op, type(ins).__name__))
        return

    f = ds.FORMATS[o.fmt]
    n = 2 * f.units
    raw_in = bytes(buf[:n])
    _, fields = ds.decode_fields(raw_in)
    expected_ops = ds.operands(op, fields)
    zz = fields.get('ZZ', 0)
    meaningful = expected_ops is not None and zz == 0
    nontrivial = any(v for k, v in fields.items())
    labels = ['fmt:' + f.fmt, 'meaningful' if meaningful else ('zz-nonzero' if zz else 'count-out-of-spec')]
    ctx.case(nontrivial=nontrivial, key=(op, raw_in), labels=labels,
             sample={'op': '%#04x %s' % (op, o.name), 'bytes': raw_in.hex(), 'fields': fields})

    try:
        ins = dex.get_instruction(cm, op, bytearray(buf))
    except dex.InvalidInstruction as e:
        if meaningful:
            ctx.fail('rejected:' + f.fmt, case, 'valid %s rejected: %s' % (o.name, e))
        else:
            ctx.label('rejected-out-of-spec')
        return
    except Exception:
        ctx.fail('exception:decode:' + f.fmt, case, traceback.format_exc(limit=4))
        return

    ok, ln = _call(ctx, 'get_length', f.fmt, case, ins.get_length)
    if ok:
        ctx.check(ln == n, 'length:' + f.fmt, case, '%s: get_length()=%r, format %s has %d bytes' % (o.name, ln, f.fmt, n))
    ok, raw = _call(ctx, 'get_raw', f.fmt, case, ins.get_raw)
    if ok:
        ctx.check(bytes(raw) == raw_in, 'raw:' + f.fmt, case,
                  '%s: get_raw()=%s, input %s' % (o.name, bytes(raw).hex(), raw_in.hex()))
    if not meaningful:
        return
    ok, name = _call(ctx, 'get_name', f.fmt, case, ins.get_name)
    if ok:
        ctx.check(name == o.name, 'name', case, 'opcode %#04x: get_name()=%r, specification %r' % (op, name, o.name))
    ok, opv = _call(ctx, 'get_op_value', f.fmt, case, ins.get_op_value)
    if ok:
        ctx.check(opv == op, 'op_value:' + f.fmt, case, 'get_op_value()=%r for opcode %#04x' % (opv, op))

    # --- operands --------------------------------------------------------------------------------
    ok, got = _call(ctx, 'get_operands', f.fmt, case, ins.get_operands)
    if ok:
        if not isinstance(got, list):
            ctx.fail('operands:none:' + f.fmt, case, '%s: get_operands() returned %r; expected %r' % (o.name, got, expected_ops))
        else:
            exp = []
            problems = []
            for e in expected_ops:
                if e[0] == 'reg':
                    exp.append((int(Operand.REGISTER), e[1]))
                elif e[0] == 'lit':
                    exp.append((int(Operand.LITERAL), e[1]))
                elif e[0] == 'off':
                    exp.append((int(Operand.OFFSET), e[1]))
                else:
                    k = getattr(Kind, KIND_NAME[e[1]], None)
                    if k is None:
                        problems.append('androguard has no Kind for the %s pool' % e[1])
                        exp.append((None, e[2]))
                    else:
                        exp.append((int(k) + int(Operand.KIND), e[2]))
            got2 = []
            for t in got:
                try:
                    got2.append((int(t[0]), t[1]))
                except Exception:
                    got2.append(('?', repr(t)))
            if got2 != exp:
                def is_kind(x):
                    return x[0] is None or (isinstance(x[0], int) and x[0] >= 0x100)
                # same shape, same registers/literals/indices, only the reported pool kind differs
                idx_only = len(got2) == len(exp) and all(
                    a == b or (is_kind(a) and is_kind(b) and a[1] == b[1]) for a, b in zip(got2, exp))
                ctx.fail(('kind:' if idx_only else 'operands:') + f.fmt + (':' + o.name if idx_only else ''), case,
                         '%s %s: get_operands()=%r, specification order/meaning %r %s' % (
                             o.name, raw_in.hex(), got2, exp, '; '.join(problems)))
            else:
                # the text of a resolvable index must come from the pool the specification names
                for t, e in zip(got, expected_ops):
                    if e[0] == 'idx':
                        want = resolved_text(e[1], e[2])
                        if want is not None and (len(t) < 3 or t[2] != want):
                            ctx.fail('resolved:' + f.fmt, case, '%s: operand %r, pool text %r expected' % (o.name, t, want))

    # --- literals / offsets / pool index -----------------------------------------------------------
    lit = ds.literal_value(op, fields)
    ok, lits = _call(ctx, 'get_literals', f.fmt, case, ins.get_literals)
    if ok:
        exp_l = [lit] if lit is not None else []
        ctx.check(list(lits) == exp_l, 'literals:' + f.fmt, case,
                  '%s %s: get_literals()=%r, expected %r' % (o.name, raw_in.hex(), lits, exp_l))
    of = ds.offset_field(op)
    if of is not None:
        ok, ro = _call(ctx, 'get_ref_off', f.fmt, case, ins.get_ref_off)
        if ok:
            ctx.check(ro == fields[of], 'ref_off:' + f.fmt, case,
                      '%s %s: get_ref_off()=%r, expected %r' % (o.name, raw_in.hex(), ro, fields[of]))
    idxf = ds.index_fields(op)
    if len(idxf) == 1:
        ok, rk = _call(ctx, 'get_ref_kind', f.fmt, case, ins.get_ref_kind)
        if ok:
            ctx.check(rk == fields[idxf[0]], 'ref_kind:' + f.fmt, case,
                      '%s %s: get_ref_kind()=%r, expected index %r' % (o.name, raw_in.hex(), rk, fields[idxf[0]]))

    # --- the same bytes through a one-instruction linear sweep ----------------------------------------
    if sweep:
        ctx.label('sweep1')
        try:
            lst = list(dex.LinearSweepAlgorithm.get_instructions(cm, f.units, bytearray(raw_in), 0))
        except Exception as e:
            ctx.fail('sweep1:%s:%s' % (type(e).__name__, o.name if op in (0xfe, 0xff, 0x00) else f.fmt), case,
                     'one-instruction sweep of valid %s %s raised %r' % (o.name, raw_in.hex(), e))
            return
        try:
            view = [(i.get_name(), bytes(i.get_raw()).hex()) for i in lst]
        except Exception as e:
            if not isinstance(e, (struct.error, OverflowError, TypeError, ValueError, AttributeError)):
                raise
            return      # accessor failure on this instruction is already reported by the clauses above
        ctx.check(view == [(o.name, raw_in.hex())], 'sweep1:mismatch:' + f.fmt, case,
                  'sweep of %s %s gave %r' % (o.name, raw_in.hex(), view))


# ODEX secondary domain -----------------------------------------------------------------------------------
ODEX_UNITS = {}
for _v in range(0xf2, 0x100):
    ODEX_UNITS[_v << 8 | 0xff] = 5 if _v <= 0xf8 else 4          # 5rc, 52c x6 : 5 units; 41c x6, 40sc : 4 units


def check_odex(ctx, buf):
    """buf: 10 bytes starting with one of the 14 ODEX opcode units f2ff..ffff."""
    from androguard.core import dex
    cm = make_cm(odex=True)
    case = {'mode': 'odex', 'buf': bytes(buf)}
    opv = buf[0] | buf[1] << 8
    n = 2 * ODEX_UNITS[opv]
    raw_in = bytes(buf[:n])
    ctx.case(nontrivial=any(raw_in[2:]), key=('odex', raw_in), labels='odex:%04x' % opv)
    try:
        ins = dex.get_optimized_instruction(cm, opv, bytearray(buf))
        ln = ins.get_length()
        raw = bytes(ins.get_raw())
    except Exception:
        ctx.fail('odex:exception', case, traceback.format_exc(limit=4))
        return
    ctx.check(ln == n, 'odex:length', case, '%04x: get_length()=%r, expected %d' % (opv, ln, n))
    ctx.check(raw == raw_in, 'odex:raw', case, '%04x: get_raw()=%s, input %s' % (opv, raw.hex(), raw_in.hex()))
    if opv == 0xf2ff:      # 5rc: op {vCCCC .. vNNNN}, meth@BBBBBBBB ; AAAA = count, NNNN = CCCC + AAAA - 1
        count = raw_in[6] | raw_in[7] << 8
        first = raw_in[8] | raw_in[9] << 8
        if count <= 300:
            check_range_regs(ctx, ins, case, 'odex:range-registers:5rc', first, count)


def check_range_regs(ctx, ins, case, bucket, first, count):
    from androguard.core.dex.dex_types import Operand
    try:
        ops = ins.get_operands()
    except Exception:
        ctx.fail('odex:exception:get_operands', case, traceback.format_exc(limit=4))
        return
    regs = [t[1] for t in ops if int(t[0]) == int(Operand.REGISTER)]
    exp = [first + i for i in range(count)]
    ctx.check(regs == exp, bucket, case, 'registers %r, expected v%d .. v%d = %r' % (regs[:8], first, first + count - 1, exp[:8]))


def check_odex_class(ctx, cls_name, buf):
    """Formats 3rms / 3rmi of the instruction-format document ([opt] invoke-*-quick/range): the classes are not
    reachable through a dispatch table, they are exercised directly with an opcode byte that has a method kind."""
    from androguard.core import dex
    cm = make_cm(odex=True)
    case = {'mode': 'odexclass', 'cls': cls_name, 'buf': bytes(buf)}
    raw_in = bytes(buf[:6])
    ctx.case(nontrivial=any(raw_in[1:]), key=(cls_name, raw_in), labels='odex:' + cls_name)
    try:
        ins = getattr(dex, cls_name)(cm, bytearray(buf))
        ln = ins.get_length()
        raw = bytes(ins.get_raw())
    except Exception:
        ctx.fail('odex:exception', case, traceback.format_exc(limit=4))
        return
    ctx.check(ln == 6 and raw == raw_in, 'odex:raw', case, '%s: length %r raw %s input %s' % (cls_name, ln, raw.hex(), raw_in.hex()))
    check_range_regs(ctx, ins, case, 'odex:range-registers:' + cls_name[11:], raw_in[4] | raw_in[5] << 8, raw_in[1])


# ---------------------------------------------------------------------------------------------------------
def boundary_fillers(fmt):
    """Deterministic values of the code units after the first one, as little-endian byte strings."""
    f = ds.FORMATS[fmt]
    bits = 16 * (f.units - 1)
    if bits == 0:
        return [b'']
    full = (1 << bits) - 1
    vals = {0, full}
    tail = [x for x in f.fields if x.bit >= 16]
    for fld in tail:
        w = fld.width
        m = ((1 << w) - 1) << (fld.bit - 16)
        for v in (0, 1, (1 << (w - 1)) - 1, 1 << (w - 1), (1 << w) - 2, (1 << w) - 1):
            fv = v << (fld.bit - 16)
            vals.add(fv)                     # other fields zero
            vals.add((full & ~m) | fv)       # other fields all-ones
    # byte-order probe: every byte distinct
    vals.add(int.from_bytes(bytes(range(0x11, 0x11 + 0x11 * (bits // 8), 0x11))[:bits // 8], 'little'))
    return [v.to_bytes(bits // 8, 'little') for v in sorted(vals)]


_FILLERS = {}


def fillers_for(op):
    fmt = ds.OPCODES[op].fmt
    if fmt is None:
        return [b'', b'\x00' * 8, b'\xff' * 8]
    if fmt not in _FILLERS:
        _FILLERS[fmt] = boundary_fillers(fmt)
    return _FILLERS[fmt]


def shards(tier, seed):
    return [('ops', k) for k in range(NSHARDS)] + [('odex',)]


def run_shard(ctx, shard):
    if shard[0] == 'odex':
        return run_odex(ctx)
    k = shard[1]
    ops = [op for op in range(256) if op % NSHARDS == k]
    for op in ops:
        fl = fillers_for(op)
        for hi in range(256):
            for j, fill in enumerate(fl):
                check_decode(ctx, op, bytes([op, hi]) + fill + TRAIL, sweep=(j < 2))
    # random fillers: k Hypothesis draws per opcode, each expanded over all 256 high bytes; the filler used
    # with high byte `hi` is a fixed mixing function of (drawn 64-bit value, hi), so every first code unit meets k
    # different random fillers and a case is still a pure function of the Hypothesis draw.
    per_first_unit = 4 if ctx.tier == 'quick' else 64
    strat = st.tuples(st.sampled_from(ops), st.integers(0, (1 << 64) - 1), st.booleans())

    def fn(c, v):
        op, seed, sw = v
        for hi in range(256):
            fill = ((seed * (2 * hi + 1) + hi * 0x9E3779B97F4A7C15) & ((1 << 64) - 1)).to_bytes(8, 'little')
            check_decode(c, op, bytes([op, hi]) + fill + TRAIL, sweep=sw)
    hyp_collect(ctx, strat, fn, len(ops) * per_first_unit, salt=k, shrink_examples=60)


def run_odex(ctx):
    edge = [b'\x00' * 8, b'\xff' * 8, bytes(range(0x11, 0x99, 0x11)),
            b'\x01\x00\x00\x00\x01\x00\x05\x00', b'\x01\x00\x00\x00\x02\x00\x05\x00', b'\x01\x00\x00\x00\x03\x00\xfe\xff',
            b'\xff\xff\xff\x7f\x00\x00\x07\x00', b'\x00\x00\x00\x80\x05\x00\x00\x00']
    for opv in sorted(ODEX_UNITS):
        for e in edge:
            check_odex(ctx, bytes([opv & 0xff, opv >> 8]) + e)
    for cls in ('Instruction3rms', 'Instruction3rmi'):
        for cnt in (0, 1, 2, 3, 5, 255):
            for first in (0, 1, 0x10, 0xff00):
                check_odex_class(ctx, cls, bytes([0x74, cnt, 0x34, 0x12, first & 0xff, first >> 8]) + TRAIL)
    n = 2000 if ctx.tier == 'quick' else 30000
    strat = st.tuples(st.sampled_from(sorted(ODEX_UNITS)), st.binary(min_size=4, max_size=4),
                      st.one_of(st.integers(0, 40), st.integers(0, 0xffff)), st.integers(0, 0xffff))

    def fn(c, v):
        opv, idx, a, b = v
        check_odex(c, bytes([opv & 0xff, opv >> 8]) + idx + a.to_bytes(2, 'little') + b.to_bytes(2, 'little'))
    hyp_collect(ctx, strat, fn, n, salt=99)

    def fn2(c, v):
        cls, cnt, idx, first = v
        check_odex_class(c, cls, bytes([0x74, cnt]) + idx.to_bytes(2, 'little') + first.to_bytes(2, 'little') + TRAIL)
    hyp_collect(ctx, st.tuples(st.sampled_from(['Instruction3rms', 'Instruction3rmi']), st.integers(0, 255),
                               st.integers(0, 0xffff), st.integers(0, 0xffff)), fn2, n // 4, salt=98)


def replay(ctx, case):
    if case['mode'] == 'decode':
        check_decode(ctx, case['op'], case['buf'], sweep=True)
    elif case['mode'] == 'odex':
        check_odex(ctx, case['buf'])
    else:
        check_odex_class(ctx, case['cls'], case['buf'])
