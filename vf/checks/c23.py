"""C23 — Java string literals denote exactly the original string.

For every string constant, the literal the decompiler writes must, read with Java's lexical rules, denote
exactly the original sequence of UTF-16 code units.

Observation points (all of them end in a Java string literal for a DEX string constant):
  string        androguard.decompiler.writer.string(s)                                   (function level)
  const-string  opcode_ins.conststring / conststringjumbo -> AssignExpression -> Writer  (IR level, fake instruction)
                and a generated DEX -> DEX() -> Analysis -> DvMethod.get_source()/get_source_ext()   (whole pipeline)
  field-init    the same generated DEX: `static final String sN = <literal>;` lines of DvClass.get_source()/get_source_ext()

Oracles
  * vf/model/jls_string.py  (JLS 3.3 unicode-escape pass + 3.10.5/3.10.7), every tier;
  * javac + JVM (java/LitUnits.java, one JVM per shard): the literal text is compiled and the run-time String's
    code units are read back. Model and javac are required to agree on every literal they both see and on
    a generated corpus of hostile literal texts (disagreement = harness error, exit 2: the model is wrong).

A case is a list of UTF-16 code units. The Python str handed to androguard is the canonical decoding of the
units (surrogate pairs merged into one code point, unpaired surrogates kept), which is what the MUTF-8 decoder
of the DEX parser produces.
"""
import re
import traceback

from hypothesis import strategies as st

from vf.core.runner import hyp_collect, HarnessError
from vf.gen import strdex
from vf.model import jls_string as J

PROPERTY = 'C23'
LEVEL = 'exploration'
RULE = ('strings = lists of UTF-16 code units. (1) every BMP code unit 0000..ffff as a one-unit string, and inside the '
        'contexts backslash+c, c+"u0041", backslash+c+quote, "a"+c+"b" (exhaustive); (2) supplementary code points '
        '(quick: stride sample + plane boundaries, thorough: all 1 048 576) alone and after a backslash; (3) ~40 '
        'interesting characters x prefixes x suffixes and all pairs of them; (4) Hypothesis strings of 0..12 atoms drawn '
        '(plus bulk PRNG strings seeded by Hypothesis-drawn integers) from boosted classes (C0, 7f-9f, latin1, BMP, unpaired high/low surrogates, non-BMP, quotes, backslash runs, text that '
        'looks like a unicode/octal escape, CR/LF, U+2028/9, comment and concatenation look-alikes); (5) the same strings '
        'through conststring()/Writer and through a generated DEX (method bodies and static String field initialisers); '
        '(6) javac ground truth on a sample (quick) / all BMP units + samples (thorough). '
        'non-trivial = the string contains at least one unit outside printable ASCII or a quote/apostrophe/backslash; '
        'distinct = (observation point, code units)')
ASSUMPTIONS = [
    'vf/model/jls_string.py implements JLS (Java SE 17) 3.3 and 3.10.5/3.10.7; it is cross-checked against javac 17 in-process '
    '(java/LitUnits.java) on every literal of the javac shards and on generated hostile literal texts',
    'javac is run with -XDallowStringFolding=false so that "a"+"b" is not reported as one literal; a literal must span exactly the emitted text',
    'the Python str given to androguard is the canonical decoding of the code units (pairs merged), as produced by the DEX MUTF-8 decoder',
    'vf/gen/strdex.py (minimal DEX writer typed from the DEX format specification) produces well-formed input',
    'javac 17 rejects/misreads a backslash run followed by u directly after a high surrogate (parity bug in its UnicodeReader, '
    'e.g. "\\ud83d\\\\u0041"); literals of that shape are judged by the JLS model only (counter javac17_surrogate_backslash_bug_skipped)',
    'text blocks (three quotes) are not string literals: a text starting with three quotes is an error for the model; such texts are skipped in the model/javac comparison',
]
EXHAUSTIVE = False


def EXTRA_COVERAGE(m):
    return {'exhaustive_components': {'bmp_single_unit_strings': m['extra'].get('bmp_single_units', 0),
                                      'supplementary_single_code_points': m['extra'].get('sup_single', 0)}}


# ---------------------------------------------------------------------------------------------
# classification helpers

def cls_of(cp):
    if cp >= 0x10000:
        return 'nonbmp'
    if 0xD800 <= cp <= 0xDFFF:
        return 'lone-surrogate'
    if cp in (0x0A, 0x0D):
        return 'crlf'
    if cp == 0x09:
        return 'tab'
    if cp < 0x20:
        return 'c0'
    if cp == 0x22:
        return 'quote'
    if cp == 0x27:
        return 'apos'
    if cp == 0x5C:
        return 'backslash'
    if cp < 0x7F:
        return 'ascii'
    if cp <= 0x9F:
        return 'del-c1'
    if cp <= 0xFF:
        return 'latin1'
    if cp in (0x2028, 0x2029):
        return 'ls-ps'
    return 'bmp'


_ESC_LOOK = re.compile(r'\\u*[0-9a-fA-F]|\\u|\\[0-7]')


def labels_of(s):
    ls = set()
    for c in s:
        k = cls_of(ord(c))
        if k != 'ascii':
            ls.add('has:' + k)
    if _ESC_LOOK.search(s):
        ls.add('has:escape-lookalike')
    if '\\\\' in s:
        ls.add('has:backslash-run')
    if not ls:
        ls.add('plain-ascii')
    if len(s) > 1:
        ls.add('multi-char')
    return sorted(ls)


def nontrivial(units):
    return any(u < 0x20 or u > 0x7E or u in (0x22, 0x27, 0x5C) for u in units)


def hexu(units):
    return ' '.join('%04x' % u for u in units)


def judge(lit, exp):
    """None when the text `lit` is one Java string literal denoting exactly exp; else (clause, message).

    The JLS text and javac differ on one corner of the backslash-parity rule (a backslash written \\u005c directly
    followed by a raw backslash, see vf/model/jls_string.py). A literal is accepted when either reading yields exp,
    so that only literals that are wrong under both readings are reported."""
    if not isinstance(lit, str):
        return 'type', 'literal is %r, not a str' % (type(lit),)
    got, err = J.try_read(lit)
    if err is None and got == exp:
        return None
    got2, err2 = J.try_read(lit, javac_parity=True)
    if err2 is None and got2 == exp:
        return None
    if err is not None:
        return 'lex', 'emitted text %s is not one Java string literal (%s); original units [%s]' % (ascii(lit), err, hexu(exp))
    return 'denote', 'emitted literal %s denotes units [%s], original string has [%s]' % (ascii(lit), hexu(got), hexu(exp))


def render_fn(s):
    from androguard.decompiler.writer import string
    return string(s)


def culprit(s, render=render_fn):
    """Coarse root-cause class for bucket names only: class of the first character of s that misbehaves on its own."""
    seen = set()
    for c in s:
        if c in seen:
            continue
        seen.add(c)
        try:
            lit = render(c)
        except Exception:
            return cls_of(ord(c))
        if judge(lit, J.utf16_units(c)) is not None:
            return cls_of(ord(c))
    return 'context'


def _report(ctx, where, render, s, units, lit, case):
    v = judge(lit, units)
    if v is not None:
        ctx.fail('%s:%s:%s' % (where, v[0], culprit(s, render)), case, v[1])
        return False
    return True


# ---------------------------------------------------------------------------------------------
# observation point 1: writer.string

def check_string(ctx, units, count=True):
    units = list(units)
    s = J.units_to_str(units)
    if count:
        ctx.case(nontrivial=nontrivial(units), key=('fn', tuple(units)), labels=labels_of(s),
                 sample={'via': 'string', 'units': hexu(units[:24])})
    case = {'via': 'string', 'units': units}
    try:
        lit = render_fn(s)
    except Exception:
        ctx.fail('string:exception:%s' % cls_of(ord(s[0])) if s else 'string:exception', case, traceback.format_exc())
        return None
    case['literal'] = lit
    _report(ctx, 'string', render_fn, s, units, lit, case)
    return lit


# ---------------------------------------------------------------------------------------------
# observation point 2a: const-string at IR level (fake instruction object -> opcode handler -> Writer)

class _FakeConstString:
    def __init__(self, s, reg):
        self.s = s
        self.AA = reg

    def get_raw_string(self):
        return self.s

    def get_string(self):
        return self.s

    def get_output(self, idx=-1):
        return 'v%d, <string>' % self.AA


def _between_quotes(text):
    i = text.find('"')
    j = text.rfind('"')
    if i < 0 or j <= i:
        return None
    return text[i:j + 1]


def check_mock(ctx, units, jumbo=False, as_return=False):
    from androguard.decompiler import opcode_ins, writer
    from androguard.decompiler.instruction import ReturnInstruction
    units = list(units)
    s = J.units_to_str(units)
    ctx.case(nontrivial=nontrivial(units), key=('mock', jumbo, as_return, tuple(units)),
             labels=labels_of(s) + ['via:ir-jumbo' if jumbo else 'via:ir'], sample={'via': 'ir', 'units': hexu(units[:24])})
    case = {'via': 'ir', 'units': units, 'jumbo': jumbo, 'as_return': as_return}
    try:
        vmap = {}
        handler = opcode_ins.conststringjumbo if jumbo else opcode_ins.conststring
        expr = handler(_FakeConstString(s, 3), vmap)
        w = writer.Writer(None, None)
        if as_return:
            ReturnInstruction(expr.get_rhs()).visit(w)
        else:
            expr.visit(w)
        text = str(w)
        ext = [t[1] for t in w.str_ext() if t[0] == 'CONSTANT_STRING']
    except Exception:
        ctx.fail('const-string:exception:ir', case, traceback.format_exc())
        return
    lit = _between_quotes(text)
    case['text'] = text
    if lit is None:
        ctx.fail('const-string:no-literal:ir', case, 'no quoted literal in %s' % ascii(text))
        return
    case['literal'] = lit
    _report(ctx, 'const-string', render_fn, s, units, lit, case)
    if len(ext) != 1:
        ctx.fail('const-string:ext-shape:ir', case, 'str_ext() has %d CONSTANT_STRING entries' % len(ext))
    elif ext[0] != lit:
        v = judge(ext[0], units)
        if v is not None:
            ctx.fail('const-string-ext:%s:%s' % (v[0], culprit(s)), case, v[1])


# ---------------------------------------------------------------------------------------------
# observation point 2b/3: generated DEX -> decompiler

def _dex_sources(data):
    """-> (method_sources {i: text}, method_ext {i: [literal,...]}, class_source, field_ext {i: value-text})"""
    from androguard.core.dex import DEX
    from androguard.core.analysis.analysis import Analysis
    from androguard.decompiler.decompile import DvClass, DvMethod
    d = DEX(data)
    dx = Analysis(d)
    classes = d.get_classes()
    if len(classes) != 1:
        raise HarnessError('strdex: androguard sees %d classes' % len(classes))
    c = classes[0]
    msrc, mext = {}, {}
    for m in c.get_methods():
        name = str(m.get_name())
        dv = DvMethod(dx.get_method(m))
        dv.process()
        i = int(name[1:])
        msrc[i] = dv.get_source()
        mext[i] = [t[1] for t in dv.get_source_ext() if t[0] == 'CONSTANT_STRING']
    dc = DvClass(c, dx)
    dc.process()
    csrc = dc.get_source()
    fext = {}
    for t in dc.get_source_ext():
        if t[0] == 'FIELD':
            nm = [x for x in t[1] if x[0] == 'NAME_FIELD']
            val = [x for x in t[1] if x[0] == 'FIELD_VALUE']
            if nm and val:
                fext[int(nm[0][1][1:])] = val[0][1]
    return msrc, mext, csrc, fext


def render_field(s):
    """What DvClass.get_source() writes for a static String field with value s (used only to name buckets)."""
    data = strdex.build([J.utf16_units(s)])
    csrc = _dex_sources(data)[2]
    return _field_literal(csrc, 0)


def _field_literal(csrc, i):
    key = '\n    public static final String s%d = ' % i
    p = csrc.find(key)
    if p < 0:
        return None
    p += len(key)
    q = csrc.find('\n', p)          # a correct literal contains no raw line terminator
    line = csrc[p:q if q >= 0 else len(csrc)]
    return line[:-1] if line.endswith(';') else line


def check_dex(ctx, strings):
    strings = [list(u) for u in strings]
    case = {'via': 'dex', 'strings': strings}
    data = strdex.build(strings)
    for u in strings:
        s = J.units_to_str(u)
        ctx.case(nontrivial=nontrivial(u), key=('dex', tuple(u)), labels=labels_of(s) + ['via:dex'],
                 sample={'via': 'dex', 'units': hexu(u[:24])})
    try:
        msrc, mext, csrc, fext = _dex_sources(data)
    except HarnessError:
        raise
    except Exception:
        ctx.fail('const-string:exception:dex', case, traceback.format_exc())
        return
    for i, u in enumerate(strings):
        s = J.units_to_str(u)
        c1 = dict(case, index=i, units=u)
        # method body
        text = msrc.get(i)
        lit = _between_quotes(text) if text is not None else None
        if lit is None:
            ctx.fail('const-string:no-literal:dex', dict(c1, text=text), 'no quoted literal in the source of m%d: %s' % (i, ascii(text)))
        else:
            _report(ctx, 'const-string', render_fn, s, u, lit, dict(c1, literal=lit, where='DvMethod.get_source'))
            for e in mext.get(i, []):
                if e != lit:
                    v = judge(e, u)
                    if v is not None:
                        ctx.fail('const-string-ext:%s:%s' % (v[0], culprit(s)), dict(c1, literal=e), v[1])
        # static field initialiser
        flit = _field_literal(csrc, i)
        if flit is None:
            ctx.fail('field-init:no-literal', c1, 'no initialiser line for s%d in the class source' % i)
            continue
        _report(ctx, 'field-init', render_field, s, u, flit, dict(c1, literal=flit, where='DvClass.get_source'))
        fe = fext.get(i)
        if fe is None or not fe.startswith(' = '):
            ctx.fail('field-init-ext:shape', dict(c1, value=fe), 'get_source_ext(): FIELD_VALUE of s%d is %s' % (i, ascii(fe)))
        elif fe[3:] != flit:
            v = judge(fe[3:], u)
            if v is not None:
                ctx.fail('field-init-ext:%s:%s' % (v[0], culprit(s, render_field)), dict(c1, literal=fe[3:]), v[1])


# ---------------------------------------------------------------------------------------------
# javac ground truth

# javac 17.0.x mis-tracks the backslash parity (JLS 3.3) right after a high surrogate: it peeks at the next input
# character to look for a low surrogate and thereby forgets that the next backslash was already consumed as a
# prefix. Observed: "\ud83d\\u0041" (escaped high surrogate, escaped backslash, letters u0041) is rejected with
# illegal.esc.char although "A\\u0041" and "\ud83dA\\u0041" are accepted; the same with a raw U+D83D. The JLS
# reading is unambiguous (the second backslash is preceded by one backslash, so it cannot start a unicode escape),
# therefore literals of this shape are compared with the model only. The same happens when the backslash after the
# high surrogate is itself written as the unicode escape 005c. The pattern over-approximates the shape (a high surrogate, raw or escaped,
# directly followed by two raw backslashes or by an escaped backslash); that only costs javac coverage on those texts.
_JAVAC17_BUG = re.compile(r'(?:[\ud800-\udbff]|\\u+[dD][89abAB][0-9a-fA-F]{2})(?:\\\\|\\u+005[cC])')


def javac_unreliable(lit):
    return _JAVAC17_BUG.search(lit) is not None


def _same(m, j):
    """model verdict (units|None, err) vs javac verdict ('OK'|'NOTLIT'|'ERR', x)"""
    if m[1] is None:
        return j[0] == 'OK' and j[1] == m[0]
    return j[0] != 'OK'


def javac_strings(ctx, jo, unit_lists, count=True):
    """Render each string with writer.string, let javac read the literal; compare with the original AND the model."""
    items = []
    for units in unit_lists:
        units = list(units)
        s = J.units_to_str(units)
        if count:
            ctx.case(nontrivial=nontrivial(units), key=('javac', tuple(units)), labels=labels_of(s) + ['via:javac'],
                     sample={'via': 'javac', 'units': hexu(units[:24])})
        try:
            lit = render_fn(s)
        except Exception:
            ctx.fail('string:exception', {'via': 'javac', 'units': units}, traceback.format_exc())
            continue
        if not isinstance(lit, str):
            ctx.fail('string:type', {'via': 'javac', 'units': units}, 'string() returned %r' % (type(lit),))
            continue
        items.append((units, s, lit))
    # literals the model accepts compile as one class per 2000; the others are bisected / compiled one by one by the driver
    order = sorted(range(len(items)), key=lambda k: J.try_read(items[k][2], True)[1] is not None or javac_unreliable(items[k][2]))
    res = jo.query([items[k][2] for k in order])
    disagreements = []
    for k, j in zip(order, res):
        units, s, lit = items[k]
        case = {'via': 'javac', 'units': units, 'literal': lit, 'javac': [j[0], j[1]]}
        if javac_unreliable(lit):
            ctx.count('javac17_surrogate_backslash_bug_skipped')
            _report(ctx, 'string', render_fn, s, units, lit, case)
            continue
        m = J.try_read(lit, javac_parity=True)
        if m[1] != 'text-block' and not _same(m, j):
            disagreements.append((lit, m, j))          # the model is wrong (or javac has another bug): harness error below
            continue
        if j[0] == 'OK' and j[1] == units:
            continue
        v = judge(lit, units)
        if v is None:                                  # right by the JLS text, wrong for javac: the parity corner; not reported
            ctx.count('jls_javac_parity_divergent_accepted')
            continue
        ctx.fail('string:%s:%s' % (v[0], culprit(s)), case, v[1] + '; javac: %s %s' % (j[0], hexu(j[1]) if j[0] == 'OK' else (j[1] or '')))
    ctx.count('javac_literals', len(items))
    _raise_disagreements(disagreements)


def _raise_disagreements(dis):
    if dis:
        raise HarnessError('jls_string model disagrees with javac on %d literal(s), e.g. %s' % (
            len(dis), '; '.join('%s model=%r javac=%r' % (ascii(l), m, j) for l, m, j in dis[:5])))


def validate_model(ctx, jo, texts):
    """Model (javac-parity reading) vs javac on arbitrary literal texts, not produced by androguard.
    Disagreement = harness error. Also counts how often the JLS-text reading differs from the javac reading."""
    texts = sorted(set(texts), key=lambda t: (J.try_read(t, True)[1] is not None or javac_unreliable(t), t.encode('utf-16-le', 'surrogatepass')))
    res = jo.query(texts)
    dis = []
    for t, j in zip(texts, res):
        m = J.try_read(t, javac_parity=True)
        if m[1] == 'text-block':
            ctx.count('model_validation_text_block_skipped')
            continue
        if javac_unreliable(t):
            ctx.count('javac17_surrogate_backslash_bug_skipped')
            continue
        ctx.count('model_validation_valid' if m[1] is None else 'model_validation_invalid')
        if J.try_read(t) != m:
            ctx.count('model_validation_jls_text_vs_javac_parity_differ')
        if not _same(m, j):
            dis.append((t, m, j))
    _raise_disagreements(dis)


# ---------------------------------------------------------------------------------------------
# generators

INTERESTING = [0x00, 0x01, 0x07, 0x08, 0x09, 0x0A, 0x0B, 0x0C, 0x0D, 0x1B, 0x1F, 0x20, 0x22, 0x27, 0x2F, 0x30, 0x37, 0x38, 0x41,
               0x5C, 0x6E, 0x75, 0x55, 0x78, 0x7E, 0x7F, 0x80, 0x85, 0x9F, 0xA0, 0xE9, 0xFF, 0x100, 0xFFF, 0x1000, 0x2028, 0x2029,
               0xD7FF, 0xD800, 0xDBFF, 0xDC00, 0xDFFF, 0xE000, 0xFEFF, 0xFFFE, 0xFFFF,
               0x10000, 0x1F64F, 0xFFFFF, 0x100000, 0x10FFFF]
PREFIXES = ['', '\\', '\\\\', '\\\\\\', '"', '\\u', '\\uu', 'u', '\\u004', '\ud83d', '\udc00', '\r', '\\0', "'", '*/']
SUFFIXES = ['', 'u0041', 'u000a', 'uu0022', 'n', '"', '\\', '\\\\', '0', '12', '0041', '\ude4f', '\ud800', '\n', 'f', '//', ' + "']

SNIPPETS = ['\\', '\\\\', '\\\\\\', '\\u0041', '\\u', 'u0041', '\\uu0041', '\\u000a', '\\u000d', '\\u0022', '\\u005c', '\\n', '\\r',
            '\\t', '\\"', '"', '""', '"""', "'", '\r\n', '\n', '\r', '\\0', '\\377', '\\u00', '\\ud83d', 'uD83D', '\\ud83d\\ude4f',
            '\\U0001f64f', '\\x00', '*/', '//', '/*', '" + "', ';', '%s', '{0}', '\\N{BULLET}', ' ', 'f', '0', 'u']


def cp_units(cp):
    if cp < 0x10000:
        return [cp]
    cp -= 0x10000
    return [0xD800 | (cp >> 10), 0xDC00 | (cp & 0x3FF)]


def str_units(s):
    return J.utf16_units(s)


def atoms():
    one = lambda strat: strat.map(lambda u: [u])
    return st.one_of(
        one(st.integers(0x20, 0x7E)),
        one(st.integers(0x00, 0x1F)),
        one(st.integers(0x7F, 0x9F)),
        one(st.integers(0xA0, 0xFF)),
        one(st.one_of(st.integers(0x100, 0xD7FF), st.integers(0xE000, 0xFFFF))),
        one(st.integers(0xD800, 0xDBFF)),
        one(st.integers(0xDC00, 0xDFFF)),
        st.integers(0x10000, 0x10FFFF).map(cp_units),
        st.sampled_from(INTERESTING).map(cp_units),
        st.sampled_from(SNIPPETS).map(str_units),
        st.sampled_from(SNIPPETS).map(str_units),
    )


def strings(max_atoms=12):
    return st.lists(atoms(), min_size=0, max_size=max_atoms).map(lambda ls: [u for a in ls for u in a])


LIT_GOOD = ['a', 'Z', '0', '7', '8', ' ', 'u', 'n', '\\\\', '\\"', "\\'", "'", '\\n', '\\t', '\\b', '\\f', '\\r', '\\s', '\\0', '\\7', '\\12',
            '\\377', '\\400', '\\18', '\\u0041', '\\uuu0041', '\\u00e9', '\\ud83d', '\\ude4f', '\\u005c\\u005c', '\\u005cn', '\\u005c\\u0022', '\\u005c\\',
            '\\u0020', 'é', ' ', '\U0001f64f', '\ud800', '\\\\u0041', '\\\\\\u0041', '+', '/', '*', ';', '\t', '\x00', '\x7f']
LIT_BAD = ['\\', '"', '\\u', '\\u00', '\\u00g0', '\\8', '\\x41', '\\e', '\\U0001f64f', '\\u000a', '\\u000d', '\\u0022', '\\u005c', '\n', '\r',
           '\\u005cu0041', '\\\\\\', '\\u005c"', '\\\n', '" + "', '"//', '"/*', '*/"', '\\u0022 + \\u0022', '\\ u0041', '\\N']


def literal_texts():
    # (one_of() drops repeated identical branches, so the 6:1 weighting is done inside one sampled_from)
    body = st.lists(st.sampled_from(LIT_GOOD * 6 + LIT_BAD), min_size=0, max_size=8).map(''.join)
    wrap = st.sampled_from([('"', '"')] * 6 + [('"', ''), ('\\u0022', '"'), ('"', '\\u0022')])
    return st.tuples(wrap, body).map(lambda t: t[0][0] + t[1] + t[0][1])


_CLASS_RANGES = [(0x20, 0x7E), (0x20, 0x7E), (0x00, 0x1F), (0x7F, 0x9F), (0xA0, 0xFF), (0x100, 0xD7FF), (0xE000, 0xFFFF),
                 (0xD800, 0xDBFF), (0xDC00, 0xDFFF), (0x10000, 0x10FFFF), (0x10000, 0x1FFFF)]


def random_strings(seed, n):
    """n strings from a PRNG seeded by a Hypothesis-drawn integer (cheap bulk complement of strings())."""
    import random
    r = random.Random(seed)
    out = []
    for _ in range(n):
        units = []
        for _ in range(r.choice((1, 2, 2, 3, 3, 4, 5, 6, 8, 12, 20))):
            k = r.randrange(len(_CLASS_RANGES) + 4)
            if k < len(_CLASS_RANGES):
                lo, hi = _CLASS_RANGES[k]
                units += cp_units(r.randint(lo, hi))
            elif k == len(_CLASS_RANGES):
                units += cp_units(r.choice(INTERESTING))
            else:
                units += str_units(r.choice(SNIPPETS))
        out.append(units)
    return out


def contexts_of(u):
    c = [u]
    return [c, [0x5C] + c, c + str_units('u0041'), [0x5C] + c + [0x22], [0x61] + c + [0x62]]


def fixed_corpus():
    out = []
    for cp in INTERESTING:
        c = cp_units(cp)
        for p in PREFIXES:
            for s in SUFFIXES:
                out.append(str_units(p) + c + str_units(s))
    for a in INTERESTING:
        for b in INTERESTING:
            out.append(cp_units(a) + cp_units(b))
    for sn in SNIPPETS:
        out.append(str_units(sn))
        for sn2 in SNIPPETS:
            out.append(str_units(sn + sn2))
    out.append([])
    return out


# ---------------------------------------------------------------------------------------------
# shards

def shards(tier, seed):
    q = tier == 'quick'
    # the JVM-backed shards first: they wait on a subprocess most of the time and overlap with the rest
    if q:
        sh = [('javac', 0)]
    else:
        sh = [('javac-bmp', k) for k in range(4)] + [('javac', k) for k in range(4)]
    sh += [('hyp', k) for k in range(4 if q else 12)]
    sh += [('dex', k) for k in range(2 if q else 6)]
    sh += [('ir', k) for k in range(1 if q else 2)]
    sh += [('bmp', k) for k in range(8)]
    sh += [('fixed',)]
    sh += [('sup', k) for k in (range(2) if q else range(16))]
    sh += [('rnd', k) for k in range(2 if q else 8)]
    return sh


def _hyp_units(ctx, n, fn, salt):
    hyp_collect(ctx, strings(), fn, n, salt=salt)


def run_shard(ctx, shard):
    kind = shard[0]
    q = ctx.tier == 'quick'
    if kind == 'bmp':
        lo = shard[1] * 8192
        for u in range(lo, lo + 8192):
            for v in contexts_of(u):
                check_string(ctx, v)
        ctx.count('bmp_single_units', 8192)
    elif kind == 'fixed':
        for v in fixed_corpus():
            check_string(ctx, v)
    elif kind == 'sup':
        if q:
            cps = set(range(0x10000 + shard[1], 0x110000, 122))
            if shard[1] == 0:
                for plane in range(1, 17):
                    cps |= {plane << 16, (plane << 16) + 1, (plane << 16) + 0xFFFE, (plane << 16) + 0xFFFF, (plane << 16) + 0xFFF,
                            (plane << 16) + 0x1000}
            cps = sorted(cps)
        else:
            cps = range((shard[1] + 1) << 16, (shard[1] + 2) << 16)
            ctx.count('sup_single', 65536)
        for cp in cps:
            c = cp_units(cp)
            check_string(ctx, c)
            check_string(ctx, [0x5C] + c + [0x75])
    elif kind == 'hyp':
        _hyp_units(ctx, 3000 if q else 30000, lambda c, v: check_string(c, v), shard[1])
    elif kind == 'rnd':
        def fn(c, seed):
            for v in random_strings(seed, 100):
                check_string(c, v)
        hyp_collect(ctx, st.integers(0, 2 ** 62), fn, 300 if q else 2500, salt=shard[1], shrink=False)
    elif kind == 'ir':
        strat = st.tuples(strings(8), st.booleans(), st.booleans())
        for v in fixed_corpus()[::7]:
            check_mock(ctx, v, jumbo=(len(v) % 2 == 1), as_return=(len(v) % 3 == 0))
        hyp_collect(ctx, strat, lambda c, t: check_mock(c, t[0], t[1], t[2]), 1500 if q else 10000, salt=shard[1])
    elif kind == 'dex':
        fc = fixed_corpus()
        k, nsh = shard[1], (2 if q else 6)
        mine = fc[k::nsh] if not q else fc[k::nsh][::6]
        for i in range(0, len(mine), 24):
            check_dex(ctx, mine[i:i + 24])
        hyp_collect(ctx, st.lists(strings(8), min_size=1, max_size=10), check_dex, 120 if q else 1200, salt=shard[1],
                    shrink_examples=120)
    elif kind == 'javac-bmp':
        from vf.model.javac_oracle import JavacOracle
        lo = shard[1] * 16384
        with JavacOracle() as jo:
            for a in range(lo, lo + 16384, 2000):
                javac_strings(ctx, jo, [[u] for u in range(a, min(a + 2000, lo + 16384))])
            javac_strings(ctx, jo, [[0x5C, u, 0x75] for u in range(lo + shard[1], lo + 16384, 5)])
    elif kind == 'javac':
        from vf.model.javac_oracle import JavacOracle
        got = []
        texts = []
        with JavacOracle() as jo:
            if shard[1] == 0:
                fc = fixed_corpus()
                javac_strings(ctx, jo, fc[::4] if q else fc)
                javac_strings(ctx, jo, [cp_units(cp) for cp in range(0x10000, 0x110000, 4111 if q else 257)])
            hyp_collect(ctx, strings(), lambda c, v: got.append(list(v)), 1200 if q else 8000, salt=100 + shard[1], shrink=False)
            for a in range(0, len(got), 2000):
                javac_strings(ctx, jo, got[a:a + 2000])
            hyp_collect(ctx, literal_texts(), lambda c, v: texts.append(v), 1200 if q else 6000, salt=200 + shard[1], shrink=False)
            validate_model(ctx, jo, texts)
    else:
        raise HarnessError('unknown shard %r' % (shard,))


def replay(ctx, case):
    via = case.get('via')
    if via == 'string':
        check_string(ctx, case['units'])
    elif via == 'ir':
        check_mock(ctx, case['units'], bool(case.get('jumbo')), bool(case.get('as_return')))
    elif via == 'dex':
        check_dex(ctx, case['strings'])
    elif via == 'javac':
        from vf.model.javac_oracle import JavacOracle
        with JavacOracle() as jo:
            javac_strings(ctx, jo, [case['units']])
    else:
        raise HarnessError('unknown replay case %r' % (via,))
