"""C24 — type descriptors are rendered as the right Java type names.

Both renderers (androguard.decompiler.util.get_type, androguard.core.dex.get_type) are given field-type descriptors
built from a grammar; the expected name is computed from the descriptor's *structure* (never by string surgery on
the descriptor): primitive keyword table from the DEX specification, package segments joined with '.', one "[]" per
array dimension. For a direct member of java.lang both "java.lang.X" and "X" are accepted (the statement allows
dropping exactly that prefix); for every other class only the full dotted name.
"""
import traceback
from hypothesis import strategies as st
from vf.core.runner import hyp_collect

PROPERTY = 'C24'
LEVEL = 'exploration'
RULE = ('exhaustive: 9 primitives x 0..3 dimensions (void only at dimension 0), and a fixed table of packages '
        '(java/lang, its subpackages, look-alikes java/language, java/langx, javax, java, default package, ...) x simple '
        'names (starting with each letter of "javlng", upper/lower case, $, _, digits, non-ASCII) x 0..2 dimensions; '
        'Hypothesis: random packages (1-4 segments, biased to the letters of "java/lang") x random simple names x 0..8 '
        'dimensions (some up to 255). Each descriptor goes through both renderers. non-trivial = class or array '
        'descriptor; distinct = (renderer, descriptor)')
ASSUMPTIONS = ['primitive keyword table typed from the DEX specification (TypeDescriptor): V void, Z boolean, B byte, S short, '
               'C char, I int, J long, F float, D double',
               'the Java name of a class descriptor is its binary name with "/" replaced by "." ("$" of nested classes is kept)',
               'get_type(..., size=N) (new-array rendering) is outside the statement and is not checked',
               'signatures inside DvClass.get_source() are not checked here (function level only)']
EXHAUSTIVE = False

PRIM = {'V': 'void', 'Z': 'boolean', 'B': 'byte', 'S': 'short', 'C': 'char', 'I': 'int', 'J': 'long', 'F': 'float',
        'D': 'double'}

FIXED_PACKAGES = [
    ('java', 'lang'),
    ('java', 'lang', 'annotation'), ('java', 'lang', 'reflect'), ('java', 'lang', 'invoke'), ('java', 'lang', 'ref'),
    ('java', 'lang', 'management'), ('java', 'lang', 'java', 'lang'),
    ('java', 'language'), ('java', 'langx'), ('java', 'lang2'), ('javax',), ('javax', 'lang'), ('java',), ('java', 'util'),
    ('java', 'nio', 'lang'), ('lang',), ('a', 'java', 'lang'), ('Ljava', 'lang'), ('jav',), ('android', 'app'),
    ('com', 'example', 'java', 'lang'), (),
]
FIXED_NAMES = ['String', 'Object', 'Long', 'Void', 'Integer', 'Thread$State', 'annotation', 'lang', 'java', 'value', 'gnu',
               'name', 'long', 'a', 'j', 'v', 'l', 'n', 'g', 'J', 'L', 'I', 'V', 'Z', 'Ljava', '$', '_', 'a$1', 'R$id', 'x-y',
               'A1', 'été', '中文', 'j\U00010400', 'vala', 'nglava']


def descriptor(pkg, name, dims):
    return '[' * dims + 'L' + '/'.join(tuple(pkg) + (name,)) + ';'


def expected_names(pkg, name, dims, prim=None):
    """-> set of accepted renderings, computed from the structure"""
    suffix = '[]' * dims
    if prim is not None:
        return {PRIM[prim] + suffix}
    acc = {'.'.join(tuple(pkg) + (name,)) + suffix}
    if tuple(pkg) == ('java', 'lang'):
        acc.add(name + suffix)
    return acc


def pkg_class(pkg, prim):
    if prim is not None:
        return 'prim'
    pkg = tuple(pkg)
    if pkg == ('java', 'lang'):
        return 'javalang-direct'
    if pkg[:2] == ('java', 'lang'):
        return 'javalang-sub'
    if not pkg:
        return 'default-pkg'
    if '/'.join(pkg).startswith('java'):
        return 'java-lookalike'
    return 'other'


def renderers():
    from androguard.decompiler import util
    from androguard.core import dex
    return (('util', util.get_type), ('dex', dex.get_type))


def check_desc(ctx, pkg, name, dims, prim=None):
    pkg = tuple(pkg)
    desc = ('[' * dims + prim) if prim is not None else descriptor(pkg, name, dims)
    acc = expected_names(pkg, name, dims, prim)
    pc = pkg_class(pkg, prim)
    dc = 'd0' if dims == 0 else 'd1+'
    for rname, fn in renderers():
        ctx.case(nontrivial=(prim is None or dims > 0), key=(rname, desc),
                 labels=('%s:%s:%s' % (rname, pc, dc),),
                 sample={'renderer': rname, 'descriptor': desc, 'accepted': sorted(acc)})
        case = {'pkg': list(pkg), 'name': name, 'dims': dims, 'prim': prim, 'descriptor': desc, 'accepted': sorted(acc)}
        try:
            got = fn(desc)
        except Exception as e:
            ctx.fail('exception:%s:%s:%s' % (type(e).__name__, rname, pc), case, traceback.format_exc())
            continue
        ctx.check(got in acc, 'name:%s:%s:%s' % (rname, pc, dc), lambda: dict(case, renderer=rname, observed=got),
                  '%s.get_type(%r) = %r, expected %s' % (rname, desc, got, ' or '.join(repr(a) for a in sorted(acc))))


def check_proto(ctx, types):
    """parameter lists: the decompiler splits a method descriptor in androguard's spaced notation `(T1 T2 ...)R` into its
    parameter types (util.get_params_type) and renders each one; every parameter must come out as its own Java name."""
    from androguard.decompiler import util
    descs, accs = [], []
    for (pkg, name, dims, prim) in types:
        pkg = tuple(pkg)
        descs.append(('[' * dims + prim) if prim is not None else descriptor(pkg, name, dims))
        accs.append(expected_names(pkg, name, dims, prim))
    proto = '(' + ' '.join(descs) + ')V'
    case = {'mode': 'proto', 'types': [[list(t[0]), t[1], t[2], t[3]] for t in types], 'descriptor': proto}
    ctx.case(nontrivial=len(types) >= 2, key=('proto', proto), labels=('proto:n%d' % min(len(types), 5),),
             sample={'descriptor': proto, 'accepted': [sorted(a) for a in accs]})
    try:
        got = list(util.get_params_type(proto))
        names = [util.get_type(x) for x in got]
    except Exception as e:
        ctx.fail('exception:%s:proto' % type(e).__name__, case, traceback.format_exc())
        return
    ok = len(got) == len(descs) and all(n in a for n, a in zip(names, accs))
    ctx.check(ok, 'proto:params', lambda: dict(case, observed_types=got, observed_names=names),
              'parameters of %r rendered as %r (split into %r), expected %s' % (proto, names, got, [sorted(a) for a in accs]))


# ---- strategies -----------------------------------------------------------------------------------------------------
# SimpleNameChar of the DEX format: A-Z a-z 0-9 $ - _ and U+00A1.. (a few representatives), no '/', ';', '[', '.'
_BIASED = 'javlng' * 3 + 'JAVLNG' + 'abcxyzLIVZ' + 'STRO' + '0123456789' + '$_-' + 'éß中Ж\U00010400'
_ch = st.sampled_from(sorted(set(_BIASED)))
_ident = st.text(_ch, min_size=1, max_size=10)
_segment = st.one_of(st.sampled_from(['java', 'lang', 'javax', 'language', 'jav', 'lan', 'annotation', 'util', 'a', 'l', 'g']),
                     _ident)
_pkg = st.one_of(
    st.sampled_from(FIXED_PACKAGES),
    st.lists(_segment, min_size=0, max_size=4).map(tuple),
    st.lists(_segment, min_size=0, max_size=2).map(lambda t: ('java', 'lang') + tuple(t)),
)
_name = st.one_of(st.sampled_from(FIXED_NAMES), _ident)
_dims = st.one_of(st.integers(0, 3), st.integers(0, 8), st.sampled_from([16, 64, 255]))
_cls_case = st.tuples(_pkg, _name, _dims, st.none())
_prim_case = st.tuples(st.just(()), st.just(''), _dims, st.sampled_from(sorted(PRIM))).filter(
    lambda t: not (t[3] == 'V' and t[2] > 0))
_case = st.one_of(_cls_case, _cls_case, _cls_case, _prim_case)
_proto_case = st.lists(st.one_of(_cls_case, _cls_case, _prim_case.filter(lambda t: t[3] != 'V')).map(
    lambda t: (t[0], t[1], min(t[2], 3), t[3])), min_size=0, max_size=5)


def shards(tier, seed):
    n = 4 if tier == 'quick' else 12
    return [('prims',), ('table', 0), ('table', 1)] + [('hyp', k) for k in range(n)]


def run_shard(ctx, shard):
    if shard[0] == 'prims':
        for p in sorted(PRIM):
            for d in range(0, 4):
                if p == 'V' and d:
                    continue
                check_desc(ctx, (), '', d, prim=p)
        ctx.count('primitive_x_dims_0_3_enumerated')
    elif shard[0] == 'table':
        for i, pkg in enumerate(FIXED_PACKAGES):
            if i % 2 != shard[1]:
                continue
            for name in FIXED_NAMES:
                for d in range(0, 3):
                    check_desc(ctx, pkg, name, d)
    else:
        n = 2500 if ctx.tier == 'quick' else 30000
        hyp_collect(ctx, _case, lambda c, v: check_desc(c, v[0], v[1], v[2], prim=v[3]), n, salt=shard[1])
        hyp_collect(ctx, _proto_case, check_proto, n // 5, salt=100 + shard[1])


def replay(ctx, case):
    if case.get('mode') == 'proto':
        check_proto(ctx, [(tuple(t[0]), t[1], t[2], t[3]) for t in case['types']])
        return
    check_desc(ctx, tuple(case['pkg']), case['name'], case['dims'], prim=case.get('prim'))
