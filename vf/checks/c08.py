"""C08 — try/catch tables are reported exactly.

Generated DEX files (vf.gen.dexgen) contain 1-4 methods whose code items are nop sleds ending in return-void
(odd and even insns_size, so that the 2-byte padding before the tries is and is not present), 0..5 sorted
non-overlapping try items per method and an encoded_catch_handler_list whose entries are typed-only (size > 0),
catch-all only (size 0) or typed + catch-all (size < 0), shared between tries or not. Long code and hundreds of extra
types force multi-byte uleb128 addresses / type indices.

Oracle (model -> bytes -> androguard -> compare with model):
  * DalvikCode.get_tries(): start_addr, insn_count, handler_off of every try item equal the encoding;
  * DalvikCode.get_handlers(): list size, every handler's size (sign included), (type_idx, type, addr) pairs in order,
    catch_all_addr, and its offset inside the list (what handler_off refers to);
  * determineException(vm, method), as a multiset over tries, equals
        [start*2, (start+count)*2 - 1, [type, addr*2]..., ['Ljava/lang/Throwable;', catch_all*2]?]
    (bytes, inclusive end, handler order preserved, catch-all last);  [] for methods without tries.
"""
import random
import traceback
from hypothesis import strategies as st
from vf.core.runner import hyp_collect
from vf.gen import dexgen as G
from vf.gen.leb import uleb, sleb

PROPERTY = 'C08'
LEVEL = 'exploration'
RULE = ('DEX files from the independent writer with 1-4 methods (nop sled + return-void) of odd/even insns_size 1..40, '
        'sometimes 130..400 and 16400+ (2- and 3-byte uleb addresses), 0..5 sorted non-overlapping (sometimes adjacent) '
        'tries, 1..4 handler lists of the three shapes (typed-only / catch-all only / typed+catch-all, 0..3 typed entries), '
        'tries mapped to handlers at random (shared and unreferenced handlers occur), handler types from a pool that '
        'includes 0/150/300 extra types (type_idx >= 128). A deterministic shard enumerates every set of <= 2 tries over '
        'code of 1..5 units x handler shape x shared/distinct. non-trivial = file with a method having >= 2 tries, a '
        'shared handler, a handler of size < 0 or an odd insns_size; distinct = file bytes')
ASSUMPTIONS = ['vf/gen/dexgen.py writes code_item / try_item / encoded_catch_handler_list as the DEX format specification '
               'defines them (2 bytes of padding iff insns_size is odd and tries_size > 0; handler_off relative to the list)',
               'an encoded_catch_handler that no try item references is well-formed (the format does not forbid it)']
EXHAUSTIVE = False

THROWABLE = 'Ljava/lang/Throwable;'
BASE_TYPES = ['Ljava/lang/Exception;', 'Ljava/lang/RuntimeException;', 'Ljava/io/IOException;', THROWABLE,
              'Lz/ZEx;', 'La/AEx;', 'Ljava/lang/Error;']


def type_pool(ntypes):
    return BASE_TYPES + ['Lq/E%05d;' % i for i in range(ntypes)]


# ---------------------------------------------------------------------------------------------
# spec: {'ntypes': int, 'methods': [{'n': insns_size, 'tries': [(start, count, handler_no)],
#                                    'handlers': [([(type_no, addr)], catch_all_addr | None)]}]}

def build(spec):
    pool = type_pool(spec['ntypes'])
    methods = []
    for k, ms in enumerate(spec['methods']):
        n = ms['n']
        insns = b'\x00\x00' * (n - 1) + b'\x0e\x00'
        handlers = [([(pool[t % len(pool)], a) for (t, a) in pairs], call) for (pairs, call) in ms['handlers']]
        tries = [tuple(t) for t in ms['tries']]
        # well-formedness of the generated input (DEX spec)
        assert n >= 1
        prev_end = 0
        for (s, c, h) in tries:
            assert s >= prev_end and c >= 1 and s + c <= n and 0 <= h < len(handlers) and c <= 0xffff
            prev_end = s + c
        for (pairs, call) in handlers:
            assert pairs or call is not None
            assert len({t for t, _a in pairs}) == len(pairs)
            assert all(0 <= a < n for _t, a in pairs) and (call is None or 0 <= call < n)
        assert bool(tries) == bool(handlers)
        methods.append(G.Method('m%d' % k, 'V', (), 0x0009, code=G.Code(1, 0, 0, insns, tries, handlers)))
    half = (len(methods) + 1) // 2 if spec.get('two_classes') else len(methods)
    classes = [G.Class('Lcom/x/T0;', 1, dmethods=methods[:half])]
    if methods[half:]:
        classes.append(G.Class('Lcom/x/T1;', 1, dmethods=methods[half:]))
    df = G.DexFile(classes, extra_refs=[('t', t) for t in pool[len(BASE_TYPES):]])
    data = df.build()
    exp = {'classes': []}
    feats = set()
    for c in classes:
        ec = {'name': c.name, 'methods': []}
        for m in c.dmethods:
            cd = m.code
            n = len(cd.insns) // 2
            nh = len(cd.handlers)
            hx, pos = [], len(uleb(nh))
            for (pairs, call) in cd.handlers:
                size = -len(pairs) if call is not None else len(pairs)
                enc = sleb(size) + b''.join(uleb(df.ix.t(t)) + uleb(a) for t, a in pairs) + (uleb(call) if call is not None else b'')
                hx.append({'off': pos, 'size': size, 'pairs': [[df.ix.t(t), t, a] for t, a in pairs], 'catch_all': call})
                pos += len(enc)
                feats.add('typed+catch-all' if size < 0 else 'catch-all-only' if size == 0 else 'typed-only')
                if any(df.ix.t(t) >= 128 for t, _a in pairs):
                    feats.add('type_idx>=128')
                if any(df.ix.t(t) >= 16384 for t, _a in pairs):
                    feats.add('type_idx>=16384')
                if any(a >= 128 for _t, a in pairs) or (call or 0) >= 128:
                    feats.add('addr>=128')
                if any(a >= 16384 for _t, a in pairs) or (call or 0) >= 16384:
                    feats.add('addr>=16384')
            tx = [[s, cnt, hx[h]['off']] for (s, cnt, h) in cd.tries]
            used = [h for (_s, _c, h) in cd.tries]
            feats.add('odd-insns' if n % 2 else 'even-insns')
            if cd.tries:
                feats.add('odd-insns+tries' if n % 2 else 'even-insns+tries')
                feats.add('tries=%d' % len(cd.tries))
            else:
                feats.add('method-without-tries')
            if len(cd.tries) >= 2:
                feats.add('tries>=2')
            if len(set(used)) < len(used):
                feats.add('shared-handler')
            if len(set(used)) < nh:
                feats.add('unreferenced-handler')
            if any(cd.tries[i][0] + cd.tries[i][1] == cd.tries[i + 1][0] for i in range(len(cd.tries) - 1)):
                feats.add('adjacent-tries')
            if pos >= 128:
                feats.add('handler_off>=128' if any(h['off'] >= 128 for h in hx) else 'handler-list>=128B')
            ec['methods'].append({'name': m.name, 'n': n, 'tries': tx, 'handlers': hx,
                                  'try_handler': used})
        exp['classes'].append(ec)
    return data, exp, feats


def expected_exceptions(xm):
    by_off = {h['off']: h for h in xm['handlers']}
    out = []
    for (s, cnt, hoff) in xm['tries']:
        h = by_off[hoff]
        z = [s * 2, (s + cnt) * 2 - 1] + [[t, a * 2] for (_i, t, a) in h['pairs']]
        if h['catch_all'] is not None:
            z.append([THROWABLE, h['catch_all'] * 2])
        out.append(z)
    return out


# ---------------------------------------------------------------------------------------------
# observation (androguard accessors only)

def observe(d):
    from androguard.core import dex
    out = {}
    for c in d.get_classes():
        oc = {}
        for m in c.get_methods():
            code = m.get_code()
            if code is None:
                oc[m.get_name()] = None
                continue
            o = {'n': code.get_insns_size(), 'tries_size': code.get_tries_size(),
                 'tries': [[t.get_start_addr(), t.get_insn_count(), t.get_handler_off()] for t in code.get_tries()]}
            hl = code.get_handlers()
            if hl is None:
                o['handlers'] = None
            else:
                o['handlers'] = {'size': hl.get_size(), 'list': []}
                for h in hl.get_list():
                    size = h.get_size()
                    o['handlers']['list'].append({
                        'off': h.get_off() - hl.get_off(), 'size': size,
                        'pairs': [[p.get_type_idx(), d.get_cm_type(p.get_type_idx()), p.get_addr()] for p in h.get_handlers()],
                        'catch_all': h.get_catch_all_addr() if size <= 0 else None})
            o['exc'] = dex.determineException(d, m)
            oc[m.get_name()] = o
        out[c.get_name()] = oc
    return out


def _canon(lst):
    return sorted(repr(_plain(x)) for x in lst)


def _plain(x):
    if isinstance(x, (list, tuple)):
        return [_plain(y) for y in x]
    return x


def _shape(h):
    return 'typed+catch-all' if h['size'] < 0 else 'catch-all-only' if h['size'] == 0 else 'typed-only'


def compare(exp, obs):
    fails = []
    for ec in exp['classes']:
        oc = obs.get(ec['name'])
        if oc is None:
            fails.append(('class:missing', 'class %s not reported' % ec['name']))
            continue
        for xm in ec['methods']:
            w = '%s->%s (insns_size %d)' % (ec['name'], xm['name'], xm['n'])
            par = 'odd' if xm['n'] % 2 else 'even'
            o = oc.get(xm['name'])
            if o is None:
                fails.append(('code:missing', '%s: no code reported' % w))
                continue
            if o['n'] != xm['n']:
                fails.append(('code:insns_size', '%s: insns_size reported as %r' % (w, o['n'])))
            if o['tries_size'] != len(xm['tries']) or len(o['tries']) != len(xm['tries']):
                fails.append(('tries:count:%s' % par, '%s: %d tries encoded, tries_size=%r and %d items reported'
                              % (w, len(xm['tries']), o['tries_size'], len(o['tries']))))
            elif o['tries'] != xm['tries']:
                fails.append(('tries:item:%s' % par, '%s: try items [start, count, handler_off] %r reported as %r'
                              % (w, xm['tries'], o['tries'])))
            oh = o['handlers']
            if xm['handlers']:
                if oh is None or oh['size'] != len(xm['handlers']) or len(oh['list']) != len(xm['handlers']):
                    fails.append(('handlers:count:%s' % par, '%s: %d handler lists encoded, reported %r'
                                  % (w, len(xm['handlers']), None if oh is None else (oh['size'], len(oh['list'])))))
                else:
                    for i, (xh, ohh) in enumerate(zip(xm['handlers'], oh['list'])):
                        sh = _shape(xh)
                        if ohh['size'] != xh['size']:
                            fails.append(('handlers:size:%s' % sh, '%s: handler %d size %d reported as %r' % (w, i, xh['size'], ohh['size'])))
                        if ohh['pairs'] != xh['pairs']:
                            fails.append(('handlers:pairs:%s' % sh, '%s: handler %d (type_idx, type, addr) pairs %r reported as %r'
                                          % (w, i, xh['pairs'], ohh['pairs'])))
                        if ohh['catch_all'] != xh['catch_all']:
                            fails.append(('handlers:catch-all:%s' % sh, '%s: handler %d catch_all_addr %r reported as %r'
                                          % (w, i, xh['catch_all'], ohh['catch_all'])))
                        if ohh['off'] != xh['off']:
                            fails.append(('handlers:offset', '%s: handler %d at offset %d of the list reported at %r'
                                          % (w, i, xh['off'], ohh['off'])))
            want = expected_exceptions(xm)
            got = o['exc']
            if not isinstance(got, list) or _canon(got) != _canon(want):
                shapes = sorted({_shape(h) for h in xm['handlers']}) or ['none']
                fails.append(('determineException:%s:%s' % ('+'.join(shapes) if len(shapes) == 1 else 'mixed', par),
                              '%s: determineException returned %r, encoded table means %r' % (w, got, want)))
    return fails


def check_dex(ctx, data, exp, force_history=False):
    from androguard.core import dex
    case = {'dex': data, 'exp': exp}
    try:
        d = dex.DEX(data)
    except Exception:
        ctx.fail('exception:parse', case, traceback.format_exc())
        return
    try:
        obs = observe(d)
    except Exception:
        ctx.fail('exception:observe', case, traceback.format_exc())
        return
    fails = compare(exp, obs)
    for bucket, msg in fails:
        ctx.fail(bucket, case, msg)
    if fails or ((len(data) + data[8]) % 3 and not force_history):
        return
    # history: the reported tables must not change when the same DEX object is analysed (Analysis consumes
    # determineException's result) and queried again -- twice, so that state accumulated by a first pass shows.
    try:
        from androguard.core.analysis import analysis
        for rnd in (1, 2):
            analysis.Analysis(d)
            obs2 = observe(d)
            for bucket, msg in compare(exp, obs2):
                ctx.fail('after-analysis:' + bucket, dict(case, after_analysis=rnd), 'after %d Analysis(d) pass(es): %s' % (rnd, msg))
                return
        ctx.count('requeried_after_analysis')
    except Exception:
        ctx.fail('exception:after-analysis', case, traceback.format_exc())


def check_spec(ctx, spec):
    data, exp, feats = build(spec)
    nt = bool(feats & {'tries>=2', 'shared-handler', 'typed+catch-all', 'odd-insns+tries'})
    m0 = exp['classes'][0]['methods'][0]
    ctx.case(nontrivial=nt, key=data, labels=sorted(feats),
             sample={'methods': sum(len(c['methods']) for c in exp['classes']), 'dex_size': len(data),
                     'first_method': {'n': m0['n'], 'tries': m0['tries'][:3], 'handlers': m0['handlers'][:2]}})
    check_dex(ctx, data, exp)


# ---------------------------------------------------------------------------------------------
# generator: Hypothesis draws (seed, size knobs); the seed is expanded deterministically

def gen_method(r, maxn, maxtries, ntypes, p_notries=0.15):
    c = r.random()
    if maxn <= 40 or c < 0.5:
        n = r.randint(1, min(maxn, 40))
    else:
        n = r.randint(130, maxn)
    if r.random() < p_notries:
        return {'n': n, 'tries': [], 'handlers': []}
    if n == 1:
        k, pts = 1, [0, 1]
    else:
        k = r.randint(1, min(maxtries, (n + 1) // 2))
        pts = sorted(r.sample(range(n + 1), 2 * k))
    ranges = [[pts[2 * i], pts[2 * i + 1]] for i in range(k)]
    for i in range(k - 1):
        if r.random() < 0.3:
            ranges[i][1] = ranges[i + 1][0]                      # adjacent tries
    nh = r.randint(1, min(4, k)) if r.random() < 0.85 else min(4, k + 1)     # k + 1: one handler stays unreferenced
    npool = len(BASE_TYPES) + ntypes
    handlers = []
    for _ in range(nh):
        shape = r.randrange(3)
        ntyped = 0 if shape == 1 else r.randint(1, 3)
        if ntypes and r.random() < 0.7:
            tnos = r.sample(range(len(BASE_TYPES), npool), ntyped)  # extra types: indices spread over the whole table
        else:
            tnos = r.sample(range(len(BASE_TYPES)), ntyped)
        pairs = [(t, r.randrange(n)) for t in tnos]
        call = r.randrange(n) if shape != 0 else None
        handlers.append((pairs, call))
    hmap = [r.randrange(nh) for _ in range(k)]
    if r.random() < 0.8:                                         # usually every handler is referenced when k >= nh
        for h, pos in enumerate(r.sample(range(k), min(k, nh))):
            hmap[pos] = h
    tries = [(a, b - a, hmap[i]) for i, (a, b) in enumerate(ranges)]
    return {'n': n, 'tries': tries, 'handlers': handlers}


def gen_spec(params):
    seed, nmeth, maxn, maxtries, ntypes, two = params
    r = random.Random(seed)
    return {'ntypes': ntypes, 'two_classes': two,
            'methods': [gen_method(r, maxn, maxtries, ntypes) for _ in range(nmeth)]}


def params_strategy():
    return st.tuples(st.integers(0, (1 << 32) - 1), st.integers(1, 4), st.sampled_from([5, 12, 40, 40, 400]),
                     st.integers(1, 5), st.sampled_from([0, 0, 150, 300]), st.booleans())


def check_params(ctx, params):
    check_spec(ctx, gen_spec(params))


# ---------------------------------------------------------------------------------------------
# deterministic enumeration of the small shapes

def small_specs(part, nparts):
    """every set of <= 2 non-overlapping tries over 1..5 code units x handler shape x shared/distinct handler"""
    i = 0
    for n in range(1, 6):
        rngs = [(s, c) for s in range(n) for c in range(1, n - s + 1)]
        sets = [[x] for x in rngs] + [[x, y] for x in rngs for y in rngs if x[0] + x[1] <= y[0]]
        for ts in sets:
            for shape in range(3):
                for share in ((False,) if len(ts) == 1 else (False, True)):
                    i += 1
                    if i % nparts != part:
                        continue

                    def handler(j):
                        pairs = [] if shape == 1 else [((i + j) % len(BASE_TYPES), (i + j) % n)] + \
                            ([((i + j + 1) % len(BASE_TYPES), (i * 7 + j) % n)] if (i + j) % 3 == 0 else [])
                        return (pairs, None if shape == 0 else (i * 3 + j) % n)
                    handlers = [handler(0)] if (share or len(ts) == 1) else [handler(0), handler(1)]
                    tries = [(s, c, 0 if share else j) for j, (s, c) in enumerate(ts)]
                    # a second method after it: its table is mis-read when the first item's size is mis-computed
                    tail = {'n': 2 + i % 3, 'tries': [(0, 1, 0)], 'handlers': [([(0, 1)], 0)]}
                    yield {'ntypes': 0, 'methods': [{'n': n, 'tries': tries, 'handlers': handlers}, tail]}


def big_specs():
    # 3-byte uleb128 addresses and type indices
    pool_n = 16500
    hi_t = len(BASE_TYPES) + pool_n - 5
    for odd in (0, 1):
        nn = 16600 + odd
        yield {'ntypes': pool_n, 'methods': [
            {'n': nn, 'tries': [(3, 100, 0), (200, 16200, 1), (16450, nn - 16450, 0)],
             'handlers': [([(hi_t, 16390), (10, 5)], 16399), ([(hi_t + 1, nn - 1)], None)]},
            {'n': 3, 'tries': [(0, 2, 0)], 'handlers': [([], 2)]}]}


def shards(tier, seed):
    n = 11 if tier == 'quick' else 44
    return [('small', k, 4) for k in range(4)] + [('big',)] + [('hyp', k) for k in range(n)]


def run_shard(ctx, shard):
    if shard[0] == 'small':
        for spec in small_specs(shard[1], shard[2]):
            check_spec(ctx, spec)
    elif shard[0] == 'big':
        for spec in big_specs():
            check_spec(ctx, spec)
    else:
        n = 600 if ctx.tier == 'quick' else 4000
        hyp_collect(ctx, params_strategy(), check_params, n, salt=shard[1], shrink_examples=200)


def replay(ctx, case):
    check_dex(ctx, case['dex'], case['exp'], force_history='after_analysis' in case)
