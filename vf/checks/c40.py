"""C40 — disassembly and analysis agree on instruction offsets.

Generator as in C10 plus: every method has >= 1 switch / fill-array-data instruction, payloads may be unaligned
("raw" placement or forced onto an odd code unit), switch payloads may be shared by two switch instructions,
and methods contain invoke-*, field, const-string, const-class and new-instance instructions so that create_xref()
produces cross-references. Oracle:
  * every block start, block end (or code length) and every offset in childs triples is an offset at which
    EncodedMethod.get_instructions_idx() yields an instruction;
  * every special_ins key is the offset of a fill-array-data / packed-switch / sparse-switch instruction;
  * for each such instruction at `off`, get_special_ins(off) of its block *is* (identity) the object the disassembler
    yields at the offset the instruction encodes (off + 2*BBBBBBBB, decoded by vf.gen.dalvik_spec from the raw bytes) -
    aligned, misaligned and shared payloads alike;
  * every offset in method / field / string / class cross-references is an instruction offset of the method the
    reference is attributed to.
Histories (cfg_common): a share of the cases goes on after the first analysis - the same parsed DEX object is analysed
again ('history:reanalyse:*' buckets: the clauses must hold for the blocks of every analysis, judged by identity), or a
try-free generated method gets another layout installed through EncodedMethod.set_instructions() and is analysed again
('history:set-instructions:*' buckets: judged against the model of the new layout).
"""
from vf.checks import cfg_common as K

PROPERTY = 'C40'
LEVEL = 'exploration'
RULE = ('generated: batches of 1-6 abstract methods, each with >= 1 payload-bearing instruction; half of the strategies place payloads unaligned / on odd code units; shared payloads; xref-producing instructions; shipped: as in C10 with create_xref(). non-trivial = the method has >= 1 fill-array-data / packed-switch / sparse-switch instruction; distinct = (code bytes, tries); histories (share of the cases, label history:*): 1/4 of the generated batches and every shipped DEX <= 100 kB analyse the SAME parsed DEX object again (second Analysis(d), one more MethodAnalysis(d, m)) and apply the oracle to the blocks of that later analysis; another 1/4 of the generated batches re-assemble each try-free method in another layout (1-4 nops in front, a payload moved), install its disassembly with EncodedMethod.set_instructions() and judge a new MethodAnalysis against the model of the new layout')
ASSUMPTIONS = [
    'vf/gen/dalvik_spec.py, vf/gen/asm.py, vf/gen/dexgen.py and vf/gen/cfggen.py produce well-formed code items (typed from the Dalvik/DEX specifications; the length table tiles every shipped code item)',
    'reference semantics in vf/model/cfg.py: branch and switch-target offsets are relative to the branching instruction (code units), switch falls through, goto/return*/throw do not; a try covers the instructions whose address lies in [start_addr, start_addr+insn_count)',
    "shipped files: models are computed by an own DEX reader and an own table-driven sweep; a method is skipped (counted) when androguard's disassembly tiles the code differently (that is C02's subject) or when a switch payload is not 4-byte aligned (DESIGN S-note, C40 only)",
    'block boundaries and child/father/xref offsets are byte offsets from the start of the insns array, as androguard reports them',
]
EXHAUSTIVE = False


def shards(tier, seed):
    return K.shards(PROPERTY, tier, seed)


def run_shard(ctx, shard):
    K.run_shard(ctx, PROPERTY, shard)


def replay(ctx, case):
    K.replay(ctx, PROPERTY, case)
