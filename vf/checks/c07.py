"""C07 — DEX parsing does not depend on the order of the map list.

Generator: small class models from vf.gen.dexstrat (with static values, annotations and try/catch tables so that all
16 map item types that the writer knows appear) written by vf.gen.dexgen with the map entries permuted
(checksum and signature recomputed by the writer). Permutations: all of them when the map has <= 6 entries,
otherwise every adjacent transposition, every rotation, the reversal, "each dependent type first" moves and
Hypothesis-sampled permutations.
Oracle: metamorphic + model — projection(parse(permuted)) == projection(parse(original)) == projection(model), where
the projection covers classes, members, flags, strings, code bytes, static values, tries/handlers and annotations.
"""
import os
import itertools
import traceback
from hypothesis import strategies as st
from vf.core.runner import hyp_collect
from vf.gen import dexgen as g
from vf.gen import dexstrat as ds

ds.pin_hypothesis()
SHRINK = not os.environ.get('VERIF_NOSHRINK')     # development switch (sensitivity runs): skip the shrink phase
PROPERTY = 'C07'
LEVEL = 'exploration'
RULE = ('small generated DEX files (0..4 classes with fields, methods, code, try/catch, static values, annotations; plus '
        'minimal files with 2..6 map entries); for each file the map list is permuted: ALL permutations when it has <= 6 '
        'entries, otherwise all adjacent transpositions, all rotations, the reversal, moves of one entry to the front/back '
        'and Hypothesis-sampled random permutations; checksum/signature recomputed. one case = one (file, permutation); '
        'non-trivial = the permutation places some item type before a type it depends on (spec-level dependency, e.g. '
        'type_ids before string_ids, class_defs before class_data); distinct = permuted file bytes')
ASSUMPTIONS = ['a case that burns more than 20 CPU-seconds (normal: milliseconds) is reported as a violation (bucket hang)',
               'vf/gen/dexgen.py writes well-formed DEX files; only the order of map_list entries differs between variants',
               'signed static values are compared modulo 2^(8*encoded width) (sign extension is property C04), float/double '
               'static values are compared by presence only',
               'dependency relation used for the non-triviality rule is typed from the DEX specification (which item type '
               'holds indices/offsets into which)']
EXHAUSTIVE = False
NO_INDEX = 0xffffffff
MAX_FULL_REPORTS = 12

# spec-level "X holds references into Y" relation between map item types (used only to label non-trivial permutations)
DEPENDS = {
    0x0001: {0x2002},                                  # string_id -> string_data
    0x0002: {0x0001},                                  # type_id -> string_id
    0x0003: {0x0001, 0x0002, 0x1001},                  # proto_id -> string, type, type_list
    0x0004: {0x0001, 0x0002},                          # field_id
    0x0005: {0x0001, 0x0002, 0x0003},                  # method_id
    0x0006: {0x0001, 0x0002, 0x1001, 0x2000, 0x2005, 0x2006},   # class_def
    0x1001: {0x0002},                                  # type_list -> type_id
    0x1003: {0x2004},                                  # annotation_set -> annotation_item
    0x2000: {0x0004, 0x0005, 0x2001},                  # class_data -> field/method ids, code
    0x2001: {0x0002},                                  # code (handlers) -> type_id
    0x2004: {0x0001, 0x0002, 0x0004, 0x0005},          # annotation_item
    0x2005: {0x0001, 0x0002, 0x0004, 0x0005},          # encoded_array
    0x2006: {0x0004, 0x0005, 0x1003},                  # annotations_directory
}


def inverts_dependency(types_in_order):
    pos = {t: i for i, t in enumerate(types_in_order)}
    return any(d in pos and pos[t] < pos[d] for t in types_in_order for d in DEPENDS.get(t, ()))


# ------------------------------------------------------------------------------------------ projections
def _ev_model(ev):
    k, v = ev.kind, ev.value
    if k in g.SIGNED:
        w = ev.width if ev.width is not None else g.min_width(k, v)
        return ['int', v & ((1 << (8 * w)) - 1), w]
    if k == 'char':
        return ['char', v]
    if k == 'boolean':
        return ['bool', bool(v)]
    if k == 'null':
        return ['null']
    if k == 'string':
        return ['string', g.units(v)]
    if k in ('float', 'double'):
        return ['fp']
    if k == 'type':
        return ['type', v]
    raise AssertionError('static value kind not used by this generator: ' + k)


def model_projection(df):
    ix = df.ix
    classes = []
    for ci in df.class_order:
        c = df.classes[ci]
        mo = df.member_order[ci]
        fields, methods = [], []
        sv = list(c.static_values or [])
        for kind in ('sfields', 'ifields'):
            for n, f in enumerate(mo[kind]):
                val = None
                if kind == 'sfields' and n < len(sv):
                    val = _ev_model(sv[n])
                fields.append([c.name, f.name, f.type, f.access, kind[0], val])
        for kind in ('dmethods', 'vmethods'):
            for m in mo[kind]:
                code = None
                if m.code is not None:
                    cd = m.code
                    insns = cd.insns(ix) if callable(cd.insns) else bytes(cd.insns)
                    tries = []
                    for (start, count, hi) in cd.tries:
                        pairs, call = cd.handlers[hi]
                        tries.append([start, count, [[t, a] for (t, a) in pairs], call])
                    code = [cd.regs, cd.ins, cd.outs, insns.hex(), tries]
                methods.append([c.name, m.name, ds.spaced_descriptor(m.ret, m.params), m.access, kind[0], code])
        anns = [a.type for a in sorted(c.annotations, key=lambda a: ix.t(a.type))]
        classes.append({'name': c.name, 'super': c.super, 'interfaces': list(c.interfaces), 'flags': c.access,
                        'source_idx': ix.s(c.source) if c.source is not None else NO_INDEX,
                        'fields': fields, 'methods': methods, 'annotations': anns})
    return {'strings': [g.units(s) for s in df.strings], 'types': list(df.types),
            'field_ids': [[f[0], f[1], f[2]] for f in df.fields],
            'method_ids': [[m[0], m[1], '(' + ' '.join(m[2][1]) + ')' + m[2][0]] for m in df.methods],
            'classes': classes}


def _ev_parsed(ev, expected_shape):
    """normalise androguard's EncodedValue according to the kind the model declares"""
    if ev is None:
        return None
    v = ev.get_value()
    kind = expected_shape[0] if expected_shape else None
    if kind == 'int':
        return ['int', v & ((1 << (8 * expected_shape[2])) - 1), expected_shape[2]] if isinstance(v, int) else ['?', repr(v)]
    if kind == 'char':
        return ['char', v]
    if kind == 'bool':
        return ['bool', v]
    if kind == 'null':
        return ['null'] if v is None else ['?', repr(v)]
    if kind == 'string':
        return ['string', g.units(v)] if isinstance(v, str) else ['?', repr(v)]
    if kind == 'fp':
        return ['fp']
    if kind == 'type':
        return ['type', v]
    return ['?', repr(v)]


def parsed_projection(d, shape):
    """shape: the model projection (used only to know how to normalise static values: kind/width)"""
    cm = d.get_class_manager()
    out = {'strings': [g.units(s) for s in d.get_strings()]}
    out['types'] = [cm.get_type(i) for i in range(len(shape['types']))]
    out['field_ids'] = [[o.get_class_name(), o.get_name(), o.get_type()] for o in d.get_fields()]
    out['method_ids'] = [[o.get_class_name(), o.get_name(), o.get_proto()[0] + o.get_proto()[1]] for o in d.get_methods()]
    classes = []
    for n, k in enumerate(d.get_classes()):
        sh = shape['classes'][n] if n < len(shape['classes']) else None
        fields, methods = [], []
        cd = k.get_class_data()
        nstatic = len(cd.get_static_fields()) if cd is not None else 0
        for i, f in enumerate(k.get_fields()):
            fs = sh['fields'][i][5] if sh and i < len(sh['fields']) else None
            fields.append([f.get_class_name(), f.get_name(), f.get_descriptor(), f.get_access_flags(),
                           's' if i < nstatic else 'i', _ev_parsed(f.get_init_value(), fs)])
        ndirect = len(cd.get_direct_methods()) if cd is not None else 0
        for i, m in enumerate(k.get_methods()):
            code = m.get_code()
            pc = None
            if code is not None:
                tries = []
                hl = code.get_handlers()
                for t in code.get_tries():
                    h = [x for x in hl.get_list() if x.get_off() - hl.get_off() == t.get_handler_off()]
                    if len(h) != 1:
                        tries.append([t.get_start_addr(), t.get_insn_count(), 'unresolved handler offset %d' % t.get_handler_off()])
                        continue
                    h = h[0]
                    tries.append([t.get_start_addr(), t.get_insn_count(),
                                  [[cm.get_type(p.get_type_idx()), p.get_addr()] for p in h.get_handlers()],
                                  h.get_catch_all_addr() if h.get_size() <= 0 else None])
                pc = [code.get_registers_size(), code.get_ins_size(), code.get_outs_size(),
                      bytes(code.get_bc().get_insn()).hex(), tries]
            methods.append([m.get_class_name(), m.get_name(), m.get_descriptor(), m.get_access_flags(),
                            'd' if i < ndirect else 'v', pc])
        classes.append({'name': k.get_name(), 'super': k.get_superclassname(), 'interfaces': list(k.get_interfaces()),
                        'flags': k.get_access_flags(), 'source_idx': k.get_source_file_idx(),
                        'fields': fields, 'methods': methods, 'annotations': list(k.get_annotations())})
    out['classes'] = classes
    return out


def first_difference(a, b, path=''):
    """-> (path, a_value, b_value) of the first difference between two JSON-like structures, or None"""
    if isinstance(a, dict) and isinstance(b, dict):
        for k in sorted(set(a) | set(b)):
            if k not in a or k not in b:
                return (path + '/' + k, a.get(k, '<missing>'), b.get(k, '<missing>'))
            r = first_difference(a[k], b[k], path + '/' + k)
            if r:
                return r
        return None
    if isinstance(a, (list, tuple)) and isinstance(b, (list, tuple)):
        if len(a) != len(b):
            return (path + '/len', len(a), len(b))
        for i, (x, y) in enumerate(zip(a, b)):
            r = first_difference(x, y, '%s/%d' % (path, i))
            if r:
                return r
        return None
    if isinstance(a, str) and isinstance(b, str):
        # text is compared as UTF-16 code units (a surrogate pair == the supplementary character it encodes)
        return None if g.units(a) == g.units(b) else (path, a, b)
    return None if a == b else (path, a, b)


def _clause(path):
    parts = [p for p in path.split('/') if p and not p.isdigit()]
    return '.'.join(parts[:3]) or 'root'


# ------------------------------------------------------------------------------------------ oracle
_SMALLEST = {}


def _worth_reporting(ctx, bucket, dex_len):
    """full ctx.fail report for the first MAX_FULL_REPORTS cases of a bucket in a shard and for every case that is
    smaller than anything reported so far (so a shrunk case is always recorded); otherwise only count the occurrence"""
    key = (id(ctx), bucket)
    best = _SMALLEST.get(key)
    if getattr(ctx, '_shrink_bucket', None) is not None or ctx.fail_counts[bucket] < MAX_FULL_REPORTS or best is None \
            or dex_len < best:
        if best is None or dex_len < best:
            _SMALLEST[key] = dex_len
        return True
    ctx.fail_counts[bucket] += 1
    return False


def evaluate(ctx, buf, shape, reference, perm_types, what):
    """parse `buf` and compare its projection with `reference` (model projection or the original's projection)"""
    from androguard.core import dex
    case = {'dex': buf, 'shape': shape, 'reference': reference, 'map_types': list(perm_types), 'what': what}

    def report(bucket, msg):
        if _worth_reporting(ctx, bucket, len(buf)):
            ctx.fail(bucket, case, msg)
    from vf.checks.c05 import cpu_limit, Hang, too_many_hangs
    if too_many_hangs(ctx):
        return None
    try:
        with cpu_limit():
            d = dex.DEX(buf)
            proj = parsed_projection(d, shape)
    except Hang:
        report('hang:' + what, 'parsing this %d-byte well-formed file did not finish within 20 CPU-seconds' % len(buf))
        return None
    except Exception as e:
        report('exception:%s:%s' % (type(e).__name__, what), traceback.format_exc())
        return None
    diff = first_difference(proj, reference)
    if diff is not None:
        report('%s:%s' % (what, _clause(diff[0])),
                 '%s: at %s parsed %r, expected %r (map order %s)' % (what, diff[0], diff[1], diff[2],
                                                                   ' '.join('%04x' % t for t in perm_types)))
    return proj


def perms_for(n, sampled):
    """permutations (as index tuples) of a map with n entries"""
    ident = tuple(range(n))
    if n <= 6:
        return [p for p in itertools.permutations(range(n)) if p != ident], True
    out = []
    for i in range(n - 1):                       # adjacent transpositions
        p = list(ident)
        p[i], p[i + 1] = p[i + 1], p[i]
        out.append(tuple(p))
    for r in range(1, n):                        # rotations
        out.append(ident[r:] + ident[:r])
    out.append(ident[::-1])                      # reversal
    for i in range(1, n):                        # one entry moved to the front / to the back
        out.append((i,) + ident[:i] + ident[i + 1:])
        out.append(ident[:i - 1] + ident[i:] + (i - 1,))
    out.extend(tuple(p) for p in sampled if len(p) == n)
    seen, res = {ident}, []
    for p in out:
        if p not in seen:
            seen.add(p)
            res.append(p)
    return res, False


_SEEN_FILES = set()


def check_file(ctx, df, sample_seeds):
    """sample_seeds: list of integers used to derive sampled permutations (drawn by Hypothesis)"""
    buf0 = df.build()
    if getattr(ctx, '_shrink_bucket', None) is None:     # (the shrink phase must be free to revisit files)
        if buf0 in _SEEN_FILES:
            ctx.count('duplicate_file_skipped')  # Hypothesis redraws the same minimal files; enumerate each only once
            return
        _SEEN_FILES.add(buf0)
    entries = list(df.map_entries)
    n = len(entries)
    shape = model_projection(df)
    types0 = [e[0] for e in entries]
    # original (identity order) against the model
    ctx.case(nontrivial=False, key=buf0, labels=['identity', 'map-entries:%d' % n],
             sample={'map_types': ['%04x' % t for t in types0], 'perm': 'identity', 'size': len(buf0)})
    p0 = evaluate(ctx, buf0, shape, shape, types0, 'model')
    if p0 is None:
        return
    sampled = []
    for s in sample_seeds:
        # Lehmer-code style decoding of an integer into a permutation
        items, p = list(range(n)), []
        for k in range(n, 0, -1):
            p.append(items.pop(s % k))
            s //= k
        sampled.append(tuple(p))
    perms, exhaustive = perms_for(n, sampled)
    for p in perms:
        buf = df.build(map_perm=list(p))
        types = [e[0] for e in df.map_entries]
        assert sorted(types) == sorted(types0) and len(buf) == len(buf0)
        nt = inverts_dependency(types)
        ctx.case(nontrivial=nt, key=buf, labels=['permuted', 'exhaustive-perms' if exhaustive else 'sampled-perms',
                                                'map-entries:%d' % n] + (['inverts-dependency'] if nt else []),
                 sample={'map_types': ['%04x' % t for t in types], 'size': len(buf)})
        evaluate(ctx, buf, shape, p0, types, 'permuted-vs-original')


def add_038_sections(df, seeds):
    """DEX 038+ files may carry call_site_id and method_handle sections (two more map entries, placed after class_defs).
    Derived deterministically from the drawn seeds: none, one of the two, or both."""
    if df.version < '038' or not df.classes:
        return
    sel = seeds[0] % 5 if seeds else 0
    if sel == 0:
        return
    c = df.classes[0]
    ms = c.dmethods + c.vmethods
    if ms:
        ref = ('m', c.name, ms[0].name, ms[0].ret, ms[0].params)
        kind = 4
    elif c.sfields:
        ref = ('f', c.name, c.sfields[0].name, c.sfields[0].type)
        kind = 1
    else:
        return
    if sel in (1, 3, 4):
        df.method_handles = [(kind, ref)] * (1 + seeds[0] % 2)
    if sel in (2, 3, 4):
        first = g.EV('method_handle', 0) if df.method_handles else g.EV('int', 0)
        df.call_sites = [[first, g.EV('string', 'bsm'), g.EV('method_type', ('V', ()))]] * (1 + (seeds[0] >> 3) % 2)


def check_drawn(ctx, v):
    df, seeds = v
    add_038_sections(df, seeds)
    if df.method_handles and df.call_sites:
        ctx.label('sections:call-site+method-handle')
    elif df.method_handles or df.call_sites:
        ctx.label('sections:call-site-or-method-handle')
    check_file(ctx, df, seeds)


# ------------------------------------------------------------------------------------------ fixed small files
def tiny_models():
    C, F, M, Code = g.Class, g.Field, g.Method, g.Code
    rv = bytes.fromhex('0e00')
    return [
        g.DexFile([]),                                                     # header, map
        g.DexFile([], extra_refs=[('s', 'x'), ('s', 'y\x00')]),            # + string_ids, string_data
        g.DexFile([], extra_refs=[('t', 'LA;'), ('t', '[I')]),             # + type_ids
        g.DexFile([C('LA;')]),                                             # + class_defs  (6 entries)
        g.DexFile([C('LA;', 1, 'LB;', [], 'A.java')], extra_refs=[('s', 'zz')]),
        g.DexFile([], extra_refs=[('p', 'V', ())]),                        # proto without parameters (6 entries)
    ]


def medium_models():
    C, F, M, Code, EV, A = g.Class, g.Field, g.Method, g.Code, g.EV, g.Annotation
    code = Code(3, 1, 0, bytes.fromhex('12001301ff7f0e00'), tries=[(0, 3, 0)],
                handlers=[([('Ljava/lang/Exception;', 3)], 3)])
    return [g.DexFile([
        C('La/B;', 0x1, 'Ljava/lang/Object;', ['La/I;'], 'B.java',
          sfields=[F('s', 'I', 0x9), F('t', 'Ljava/lang/String;', 0x19, [A('LAnn;', [('v', EV('int', 3))])])],
          ifields=[F('i', 'J', 0x2)],
          dmethods=[M('<init>', 'V', ('J',), 0x10001, Code(3, 3, 0, bytes.fromhex('0e00')))],
          vmethods=[M('run', 'V', (), 0x1, code, [A('Ljava/lang/Deprecated;', [])]), M('abs', 'I', ('[I',), 0x401)],
          static_values=[EV('int', -2), EV('string', 'h\x00i\ud800')],
          annotations=[A('LAnn;', [('v', EV('string', 'x'))]), A('Ljava/lang/Deprecated;', [], 0)]),
        C('La/I;', 0x601, 'Ljava/lang/Object;', [], None, vmethods=[M('run', 'V', (), 0x401)])],
        extra_refs=[('m', 'La/B;', 'other', 'V', ('I', 'J')), ('f', 'La/B;', 'q', 'Z')]),
        g.DexFile([C('La/D;', 0x1, 'Ljava/lang/Object;', [], None, sfields=[F('s', 'I', 0x9)],
                     dmethods=[M('bsm', 'V', (), 0x9, Code(1, 0, 0, bytes.fromhex('0e00')))], static_values=[EV('int', 9)])],
                  version='038', method_handles=[(4, ('m', 'La/D;', 'bsm', 'V', ())), (0, ('f', 'La/D;', 's', 'I'))],
                  call_sites=[[EV('method_handle', 0), EV('string', 'n'), EV('method_type', ('V', ()))]])]


# ------------------------------------------------------------------------------------------ harness glue
def shards(tier, seed):
    n = 14 if tier == 'quick' else 44
    return [('tiny',), ('medium',), ('large',)] + [('hyp', k) for k in range(n)]


def run_shard(ctx, shard):
    _SEEN_FILES.clear()          # per shard, so that the result does not depend on which worker runs which shards
    if shard[0] == 'tiny':
        for df in tiny_models():
            check_file(ctx, df, [])
        return
    if shard[0] == 'medium':
        for df in medium_models():
            check_file(ctx, df, [7 ** k for k in range(3, 40)])
        return
    if shard[0] == 'large':
        # sections with several thousand items (a parser may treat big sections differently): 4200+ strings and types,
        # 4100+ fields and methods
        C, F, M, Code = g.Class, g.Field, g.Method, g.Code
        refs = [('s', 'str%05d' % i) for i in range(4200)] + [('t', 'Lp/T%04d;' % i) for i in range(4150)]
        refs += [('f', 'Lp/T0000;', 'f%04d' % i, 'I') for i in range(4100)]
        refs += [('m', 'Lp/T0001;', 'm%04d' % i, 'V', ()) for i in range(4100)]
        df = g.DexFile([C('Lp/Big;', 0x1, 'Ljava/lang/Object;', [], 'Big.java', sfields=[F('s', 'I', 0x9)],
                          vmethods=[M('run', 'V', (), 0x1, Code(1, 1, 0, bytes.fromhex('0e00')))],
                          static_values=[g.EV('int', 7)])], extra_refs=refs)
        check_file(ctx, df, [11 ** k for k in range(3, 12 if ctx.tier == 'quick' else 40)])
        return
    models = ds.dex_models(max_classes=4, max_fields=3, max_methods=3, static_values=True, annotations=True, tries=True,
                           versions=('035', '038', '039'))
    strat = st.tuples(models, st.lists(st.binary(min_size=7, max_size=7).map(lambda b: int.from_bytes(b, 'little')),
                                        min_size=4, max_size=4))
    n = 40 if ctx.tier == 'quick' else 300
    hyp_collect(ctx, strat, check_drawn, n, salt=shard[1], shrink_examples=40, shrink=SHRINK)


def replay(ctx, case):
    evaluate(ctx, case['dex'], case['shape'], case['reference'], case['map_types'], case['what'])
