"""C14 — field cross-references are recorded on the field that is accessed.

Generated part: vf.gen.xrefgen models (all 28 iget*/iput*/sget*/sput* opcodes; target fields of the accessing class, of
another class, of a class in another DEX of the same analysis, external fields, and references to fields that the named
internal class does not define (inherited / same name with another type)). For every access (method M, offset, opcode)
to a field F = (class, name, type) that some added DEX defines:
  owner        dx.get_field_analysis(EncodedField of F) exists and lists (class of M, M, offset) under read for
               iget*/sget* and under write for iput*/sput*, and not under the other; it lists nothing else
  method       M.get_xref_read()/get_xref_write() lists (class of M, F, offset), and nothing else
  union        the accesses found on *all* FieldAnalysis objects of dx.get_fields() are exactly the accesses to defined fields
  once         every defined field occurs exactly once in dx.get_fields()
Shipped part: the same clauses over shipped DEX/APK files (access list read from the raw code units).
"""
from vf.gen import dalvik_spec as ds
from vf.gen import xrefgen as X
from vf.checks import _xref as A

PROPERTY = 'C14'
LEVEL = 'exploration'
RULE = ('generated: xrefgen model (2..5 classes over 1..4 DEX files, fields of 10 types static/instance, all 28 field '
        'opcodes, accesses to own / other-class / other-DEX / external / undefined fields, repeated offsets) -> DEX bytes -> '
        'Analysis; FieldAnalysis and MethodAnalysis field xrefs compared with the model. shipped: every method of the shipped '
        'DEX/APK files. non-trivial = an access to a defined field from a class other than its owner; distinct = model')
ASSUMPTIONS = ['vf/gen/dexgen.py writes well-formed DEX files; vf/gen/asm.py + dalvik_spec.py give instruction sizes/offsets',
               'the target field of an instruction is the (class, name, type) triple of its field_id; a reference through a '
               'subclass to an inherited field is not "defined" and must not be attributed to any FieldAnalysis',
               'shipped files: pool indices are resolved to names by androguard.core.dex (parser), not by analysis.py']


def _where(exp, dexof, mk, fk):
    if fk[0] == mk[0]:
        return 'own-class'
    if dexof is not None and dexof.get(fk[0]) != dexof.get(mk[0]):
        return 'other-dex'
    return 'other-class'


def _worst(ws):
    for w in ('other-dex', 'other-class', 'own-class'):
        if w in ws:
            return w
    return 'unexpected'


def check(ctx, exp, dx, vms, case, dexof=None):
    try:
        snap = A.snapshot(dx, callgraph=False)
        ef_of = {}
        for vm in vms:
            for c in vm.get_classes():
                for f in c.get_fields():
                    ef_of[A.field_key(f)] = f
        owner = {}
        for fk, ef in ef_of.items():
            fa = dx.get_field_analysis(ef)
            if fa is None:
                owner[fk] = None
            else:
                owner[fk] = (A.field_key(fa.get_field()),
                             {(ca.name, A.method_key(ma.get_method()), off) for (ca, ma, off) in fa.get_xref_read(with_offset=True)},
                             {(ca.name, A.method_key(ma.get_method()), off) for (ca, ma, off) in fa.get_xref_write(with_offset=True)},
                             {(ca.name, A.method_key(ma.get_method())) for (ca, ma) in fa.get_xref_read()},
                             {(ca.name, A.method_key(ma.get_method())) for (ca, ma) in fa.get_xref_write()})
    except A.AnalysisFailure as e:
        ctx.fail('exception:' + e.where, case, e.tb)
        return
    df = exp['defined_fields']
    # expected accesses to defined fields
    exp_r, exp_w = {}, {}           # fk -> {(cls, mk, off)}
    m_r, m_w = {}, {}               # mk -> {(cls, fk, off)}
    where = {}
    for mk, sl in exp['sites'].items():
        for (off, op, kind, fk) in sl:
            if kind != 'fld' or fk not in df:
                continue
            rw = ds.field_access(op)[1]
            (exp_r if rw == 'read' else exp_w).setdefault(fk, set()).add((mk[0], mk, off))
            (m_r if rw == 'read' else m_w).setdefault(mk, set()).add((mk[0], fk, off))
            where[(fk, mk, off)] = _where(exp, dexof, mk, fk)

    def cls_of(entries, fk):
        return _worst({where.get((fk, e[1], e[2]), 'unexpected') for e in entries})
    # owner clause
    for fk in sorted(df):
        o = owner.get(fk)
        if fk not in ef_of:
            ctx.fail('harness:field-not-in-dex', dict(case, field=fk), 'defined field %r not found in the parsed DEX files' % (fk,))
            continue
        if o is None:
            ctx.fail('owner:no-field-analysis', dict(case, field=fk), 'get_field_analysis(%r) returned None' % (fk,))
            continue
        ctx.check(o[0] == fk, 'owner:wrong-field', lambda: dict(case, field=fk, observed=o[0]),
                  'get_field_analysis(%r) wraps %r' % (fk, o[0]))
        for tag, want, got, other in (('read', exp_r.get(fk, set()), o[1], o[2]), ('write', exp_w.get(fk, set()), o[2], o[1])):
            missing, extra = want - got, got - want
            if missing:
                wrong_side = missing & other
                ctx.fail('owner:%s-missing:%s%s' % (tag, cls_of(missing, fk), ':listed-as-other-kind' if wrong_side else ''),
                         dict(case, field=fk, clause='owner', kind=tag, missing=A.short(missing), observed=A.short(got)),
                         'FieldAnalysis of %r lacks %s accesses %r' % (fk, tag, A.short(missing, 3)))
            if extra:
                ctx.fail('owner:%s-extra' % tag, dict(case, field=fk, clause='owner', kind=tag, extra=A.short(extra)),
                         'FieldAnalysis of %r lists %s accesses that do not exist: %r' % (fk, tag, A.short(extra, 3)))
        # legacy view without offsets
        ctx.check(o[3] == {(c, m) for (c, m, _) in o[1]} and o[4] == {(c, m) for (c, m, _) in o[2]}, 'owner:no-offset-view',
                  lambda: dict(case, field=fk), 'get_xref_read()/write() without offsets differ from the with_offset view')
    # method clause
    for tag, want_all, key in (('read', m_r, 'read'), ('write', m_w, 'write')):
        obs = {(mk, e) for mk, ent in snap['m'].items() for e in ent[key]}
        want = {(mk, e) for mk, s in want_all.items() for e in s}
        missing, extra = want - obs, obs - want
        if missing:
            ws = _worst({where.get((e[1], mk, e[2]), '?') for (mk, e) in missing})
            ctx.fail('method:%s-missing:%s' % (tag, ws),
                     dict(case, clause='method', kind=tag, missing=A.short(missing)),
                     'MethodAnalysis.get_xref_%s lacks %r' % (tag, A.short(missing, 3)))
        if extra:
            ctx.fail('method:%s-extra' % tag, dict(case, clause='method', kind=tag, extra=A.short(extra)),
                     'MethodAnalysis.get_xref_%s lists accesses that do not exist or whose field is not defined: %r' % (tag, A.short(extra, 3)))
    # union + once
    uni_r, uni_w = set(), set()
    count = {}
    for (fk, rd, wr), n in snap['fields'].items():
        count[fk] = count.get(fk, 0) + n
        uni_r |= {(fk, e) for e in rd}
        uni_w |= {(fk, e) for e in wr}
    for tag, obs, want_d in (('read', uni_r, exp_r), ('write', uni_w, exp_w)):
        want = {(fk, e) for fk, s in want_d.items() for e in s}
        missing, extra = want - obs, obs - want
        if missing:
            ws = _worst({where.get((fk, e[1], e[2]), '?') for (fk, e) in missing})
            ctx.fail('union:%s-missing:%s' % (tag, ws), dict(case, clause='union', kind=tag, missing=A.short(missing)),
                     'no FieldAnalysis of dx.get_fields() lists %r' % (A.short(missing, 3),))
        if extra:
            ctx.fail('union:%s-extra' % tag, dict(case, clause='union', kind=tag, extra=A.short(extra)),
                     'some FieldAnalysis lists accesses that do not exist: %r' % (A.short(extra, 3),))
    dup = sorted(fk for fk in df if count.get(fk, 0) > 1)
    lost = sorted(fk for fk in df if count.get(fk, 0) == 0)
    ctx.check(not dup, 'once:duplicate', lambda: dict(case, clause='once', duplicates=dup[:8], n=len(dup)),
              '%d defined field(s) have more than one FieldAnalysis in dx.get_fields(), e.g. %r' % (len(dup), dup[:3]))
    ctx.check(not lost, 'once:missing', lambda: dict(case, clause='once', missing=lost[:8], n=len(lost)),
              '%d defined field(s) have no FieldAnalysis in dx.get_fields(), e.g. %r' % (len(lost), lost[:3]))
    return where


def _labels(model, exp):
    df = exp['defined_fields']
    dexof = X.dex_of(model)
    labels = set()
    nt = False
    for mk, sl in exp['sites'].items():
        offs = {}
        for (off, op, kind, fk) in sl:
            if kind != 'fld':
                continue
            labels.add('op:%02x' % op)
            if fk in df:
                w = _where(exp, dexof, mk, fk)
                labels.add('target:' + w)
                if w != 'own-class':
                    nt = True
                offs[fk] = offs.get(fk, 0) + 1
            elif fk[0] in exp['internal']:
                labels.add('target:undefined-in-internal-class')
            else:
                labels.add('target:external')
        if any(n > 1 for n in offs.values()):
            labels.add('repeated-access')
    labels.add('ndex:%d' % model['ndex'])
    return sorted(labels), nt


def run_model(ctx, model, record=True):
    model = X.normalize(model)
    case = {'mode': 'model', 'model': model}
    exp = A.exp_from_model(model)
    datas = [b for (b, _) in X.build(model)]
    labels, nt = _labels(model, exp)
    if record:
        ctx.case(nontrivial=nt, key=repr(model), labels=labels,
                 sample={'fields': sorted(exp['defined_fields'])[:6], 'ndex': model['ndex'],
                         'accesses': [[k[0], k[1], o, '%02x' % op, t] for k, v in exp['sites'].items()
                                      for (o, op, kd, t) in v if kd == 'fld'][:8]})
    try:
        dx, vms = A.analyse(datas)
    except A.AnalysisFailure as e:
        ctx.fail('exception:' + e.where, case, e.tb)
        return
    check(ctx, exp, dx, vms, case, X.dex_of(model))


def run_file(ctx, name):
    case = {'mode': 'file', 'name': name}
    datas = A.load_file(name)
    if not datas:
        ctx.count('shipped_without_dex')
        return
    try:
        vms = [A.parse(d) for d in datas]
    except A.AnalysisFailure:
        ctx.count('shipped_unparsable')
        return
    exp = A.exp_from_vms(vms)
    if isinstance(exp, str):
        ctx.count('shipped_skipped:' + exp)
        return
    df = exp['defined_fields']
    nacc = sum(1 for sl in exp['sites'].values() for s in sl if s[2] == 'fld' and s[3] in df)
    nother = sum(1 for mk, sl in exp['sites'].items() for s in sl if s[2] == 'fld' and s[3] in df and s[3][0] != mk[0])
    ctx.case(nontrivial=nother > 0, key='file:' + name, labels=['shipped', 'shipped:ndex:%d' % len(vms)],
             sample={'file': name, 'defined_fields': len(df), 'accesses_to_defined_fields': nacc, 'from_other_class': nother})
    ctx.count('shipped_field_accesses', nacc)
    ctx.count('shipped_field_accesses_from_other_class', nother)
    try:
        dx = A.analyse_vms(vms)
    except A.AnalysisFailure as e:
        ctx.fail('exception:' + e.where, case, e.tb)
        return
    dexof = {c.get_name(): i for i, vm in enumerate(vms) for c in vm.get_classes()}
    check(ctx, exp, dx, vms, case, dexof)


def shards(tier, seed):
    n = 12 if tier == 'quick' else 40
    sh = [('gen', k) for k in range(n)]
    return sh + A.file_shards(tier)


def run_shard(ctx, shard):
    if shard[0] == 'gen':
        n = 800 if ctx.tier == 'quick' else 2500
        A.collect(ctx, X.models(profile='fields'), run_model, n, salt=shard[1])
    else:
        for name in shard[1]:
            run_file(ctx, name)


def replay(ctx, case):
    if case['mode'] == 'model':
        run_model(ctx, case['model'], record=False)
    else:
        run_file(ctx, case['name'])
