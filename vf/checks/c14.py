"""C14 — field cross-references are recorded on the field that is accessed.

Generated part: vf.gen.xrefgen models (all 28 iget*/iput*/sget*/sput* opcodes; target fields of the accessing class, of
another class, of a class in another DEX of the same analysis, external fields, and references to fields that the named
internal class does not define (inherited / same name with another type)). For every access (method M, offset, opcode)
to a field F = (class, name, type) that some added DEX defines:
  owner        dx.get_field_analysis(EncodedField of F) exists and lists (class of M, M, offset) under read for
               iget*/sget* and under write for iput*/sput*, and not under the other; it lists nothing else
  method       M.get_xref_read()/get_xref_write() lists (class of M, F, offset), and nothing else
  union        the accesses found on *all* FieldAnalysis objects of dx.get_fields() are exactly the accesses to defined
               fields, reads under read and writes under write
  once/fields  every defined field occurs exactly once in dx.get_fields() (and the multiset of (field, reads, writes) and
               the per-class field lists are the expected ones)
History part (4 in 10 generated cases; the history is the model's 'renames' list, so it is stored and replayed with the
case): after the files were added to the Analysis and before create_xref(), 1..4 defined fields / non-constructor methods
are renamed to fresh names with EncodedField.set_name / EncodedMethod.set_name. A rename changes the name of one
field_id / method_id item; which instruction accesses which field is untouched. So the expectation is the same access
list with the renamed item's new name on both sides (definition and the instructions of the same file; an instruction of
another DEX file keeps naming the old, now undefined, field): the FieldAnalysis of the renamed EncodedField must list the
same methods and offsets as without the rename. (Renames of classes are not generated: the statement is about fields.)
Large-pool part (one shard, a handful of cases): single-DEX models whose pools are padded with unreferenced filler entries
so that accessed fields (and their classes / types) sit on field indices 0x7fff / 0x8000 / 0x8001 / .. 0xffff.
Payloads in the middle of the code (xrefgen 'mid' sites) put accesses behind a switch / fill-array-data payload.
Shipped part: the same clauses over shipped DEX/APK files (access list read from the raw code units).

Open finding field-owner (cannot be fixed without changing a pinned count in tests/test_analysis.py::testAPK): step 4 of
Analysis._create_xref records a field access on a FieldAnalysis *of the accessing class* (a second FieldAnalysis for the
field when that class is not the owner) and resolves the field only in the DEX of the accessing instruction (an access to
a field defined in another DEX of the analysis is dropped everywhere). Every clause is evaluated under the statement and
under that exact defect model:
  owner        -> only accesses from the owner class itself          method / union -> only same-DEX accesses
  once/fields  -> one FieldAnalysis for the owner (same-class accesses) plus one per other accessing class of the same DEX
A clause that equals the defect model (and not the statement) goes to '<clause>:field-owner'; anything that equals
neither is a violation (reported against whichever of the two it is closer to). So same-class accesses, the method-side
(class, field, offset) listing, the read/write classification and the offsets stay exactly checked.
"""
from collections import Counter

from hypothesis import strategies as st

from vf.gen import dalvik_spec as ds
from vf.gen import xrefgen as X
from vf.checks import _xref as A

PROPERTY = 'C14'
LEVEL = 'exploration'
RULE = ('generated: xrefgen model (2..5 classes over 1..4 DEX files, fields of 10 types static/instance, all 28 field '
        'opcodes, accesses to own / other-class / other-DEX / external / undefined fields, repeated offsets) -> DEX bytes -> '
        'Analysis; FieldAnalysis and MethodAnalysis field xrefs compared with the model. 4 in 10 cases carry a drawn history '
        '(1..4 renames of defined fields / methods between add() and create_xref()); bodies contain switch / fill-array-data '
        'payloads in the middle of the code; one shard analyses a few single-DEX models padded to > 0x8000 / 0xffff pool '
        'entries with the accessed fields on the index boundaries. shipped: every method of the shipped '
        'DEX/APK files. non-trivial = an access to a defined field from a class other than its owner; distinct = model')
ASSUMPTIONS = ['vf/gen/dexgen.py writes well-formed DEX files; vf/gen/asm.py + dalvik_spec.py give instruction sizes/offsets',
               'the target field of an instruction is the (class, name, type) triple of its field_id; a reference through a '
               'subclass to an inherited field is not "defined" and must not be attributed to any FieldAnalysis',
               'shipped files: pool indices are resolved to names by androguard.core.dex (parser), not by analysis.py',
               'open finding field-owner: clauses are accepted when they equal the exact defect model (see module docstring)',
               'rename history: set_name() renames one field_id / method_id item of one DEX file; new names are fresh, so no '
               'other reference starts or stops naming a defined member except through that item']

KNOWN = ':field-owner'


def _where(exp, dexof, mk, fk):
    if fk[0] == mk[0]:
        return 'own-class'
    if dexof is not None and dexof.get(fk[0]) != dexof.get(mk[0]):
        return 'other-dex'
    return 'other-class'


def accesses(exp):
    """[(method key, offset, 'read'|'write', field key)] of the accesses to defined fields"""
    df = exp['defined_fields']
    out = []
    for mk, sl in exp['sites'].items():
        for (off, op, kind, fk) in sl:
            if kind == 'fld' and fk in df:
                out.append((mk, off, ds.field_access(op)[1], fk))
    return out


def views(exp, acc, dexof, defect):
    """by-name expectation of every clause, under the statement (defect=False) or under the field-owner defect model."""
    v = {k: set() for k in ('owner_read', 'owner_write', 'method_read', 'method_write', 'union_read', 'union_write')}
    fas = {(fk, fk[0]): (set(), set()) for fk in exp['defined_fields']}     # (field, holder class) -> (reads, writes)
    for (mk, off, rw, fk) in acc:
        a, c = mk[0], fk[0]
        if defect and dexof[a] != dexof[c]:
            continue                                    # defect: field looked up in the accessing DEX only
        e = (a, mk, off)
        v['method_' + rw].add((mk, (a, fk, off)))
        v['union_' + rw].add((fk, e))
        if not defect or a == c:
            v['owner_' + rw].add((fk, e))
        holder = a if defect else c                     # defect: FieldAnalysis of the accessing class
        fas.setdefault((fk, holder), (set(), set()))[0 if rw == 'read' else 1].add(e)
    fields, cfields, once = Counter(), Counter(), Counter()
    for (fk, holder), (r, w) in fas.items():
        fields[(fk, frozenset(r), frozenset(w))] += 1
        cfields[(holder, fk)] += 1
        once[fk] += 1
    v['fields'] = set(fields.items())
    v['class_fields'] = set(cfields.items())
    v['once'] = set(once.items())
    return v


_FK = {'owner': lambda e: e[0], 'union': lambda e: e[0], 'method': lambda e: e[1][1], 'fields': lambda e: e[0][0],
       'once': lambda e: e[0], 'class_fields': lambda e: e[0][1]}


def _clause(ctx, case, name, obs, e_c, e_d, other_fields):
    """obs == statement -> ok; obs == defect model -> known bucket; else violation against the closer of the two."""
    if obs == e_c:
        return
    fk_of = _FK[name.split('_')[0] if not name.startswith('class_') else 'class_fields']
    if obs == e_d:
        diff = (e_c - obs) | (obs - e_c)
        shape_ok = all(fk_of(e) in other_fields for e in diff)
        ctx.count('defect_model_hits:field-owner')
        ctx.fail(name + KNOWN if shape_ok else name + ':defect-model-on-unaffected-field',
                 dict(case, clause=name, missing=A.short(e_c - obs), extra=A.short(obs - e_c), defect_model_match=True,
                      differences_only_on_fields_accessed_from_another_class=shape_ok,
                      n_missing=len(e_c - obs), n_extra=len(obs - e_c)),
                 '%s equals the field-owner defect model, not the statement: %d expected entries missing, %d unexpected; e.g. '
                 'missing %r extra %r' % (name, len(e_c - obs), len(obs - e_c), A.short(e_c - obs, 2), A.short(obs - e_c, 2)))
        return
    dc = len(e_c - obs) + len(obs - e_c)
    dd = len(e_d - obs) + len(obs - e_d)
    base, tag = (e_d, ':vs-defect-model') if (dd < dc and e_d != e_c) else (e_c, '')
    missing, extra = base - obs, obs - base
    ctx.fail('%s:%s%s' % (name, 'both' if missing and extra else 'missing' if missing else 'extra', tag),
             dict(case, clause=name, missing=A.short(missing), extra=A.short(extra), defect_model_match=False,
                  compared_with='field-owner defect model' if tag else 'statement', n_missing=len(missing), n_extra=len(extra)),
             '%s matches neither the statement nor the field-owner defect model; against the %s: %d entries missing, %d '
             'unexpected; e.g. missing %r extra %r' % (name, 'defect model' if tag else 'statement', len(missing), len(extra),
                                                       A.short(missing, 2), A.short(extra, 2)))


def check(ctx, exp, dx, vms, case, dexof):
    try:
        snap = A.snapshot(dx, callgraph=False)
        ef_of = {}
        for vm in vms:
            for c in vm.get_classes():
                for f in c.get_fields():
                    ef_of[A.field_key(f)] = f
        owner = {}
        for fk, ef in ef_of.items():
            fa = dx.get_field_analysis(ef)
            if fa is None:
                owner[fk] = None
            else:
                owner[fk] = (A.field_key(fa.get_field()),
                             {(ca.name, A.method_key(ma.get_method()), off) for (ca, ma, off) in fa.get_xref_read(with_offset=True)},
                             {(ca.name, A.method_key(ma.get_method()), off) for (ca, ma, off) in fa.get_xref_write(with_offset=True)},
                             {(ca.name, A.method_key(ma.get_method())) for (ca, ma) in fa.get_xref_read()},
                             {(ca.name, A.method_key(ma.get_method())) for (ca, ma) in fa.get_xref_write()})
    except A.AnalysisFailure as e:
        ctx.fail('exception:' + e.where, case, e.tb)
        return
    df = exp['defined_fields']
    acc = accesses(exp)
    other_fields = {fk for (mk, off, rw, fk) in acc if mk[0] != fk[0]}
    Ec = views(exp, acc, dexof, False)
    Ed = views(exp, acc, dexof, True)
    # ---- observed views
    obs = {k: set() for k in ('owner_read', 'owner_write')}
    for fk in sorted(df):
        o = owner.get(fk)
        if fk not in ef_of:
            ctx.fail('harness:field-not-in-dex', dict(case, field=fk), 'defined field %r not found in the parsed DEX files' % (fk,))
            continue
        if o is None:
            ctx.fail('owner:no-field-analysis', dict(case, field=fk), 'get_field_analysis(%r) returned None' % (fk,))
            continue
        ctx.check(o[0] == fk, 'owner:wrong-field', lambda: dict(case, field=fk, observed=o[0]),
                  'get_field_analysis(%r) wraps %r' % (fk, o[0]))
        obs['owner_read'] |= {(fk, e) for e in o[1]}
        obs['owner_write'] |= {(fk, e) for e in o[2]}
        ctx.check(o[3] == {(c, m) for (c, m, _) in o[1]} and o[4] == {(c, m) for (c, m, _) in o[2]}, 'owner:no-offset-view',
                  lambda: dict(case, field=fk), 'get_xref_read()/write() without offsets differ from the with_offset view')
    obs['method_read'] = {(mk, e) for mk, ent in snap['m'].items() for e in ent['read']}
    obs['method_write'] = {(mk, e) for mk, ent in snap['m'].items() for e in ent['write']}
    obs['union_read'] = {(fk, e) for (fk, rd, wr) in snap['fields'] for e in rd}
    obs['union_write'] = {(fk, e) for (fk, rd, wr) in snap['fields'] for e in wr}
    obs['fields'] = set(snap['fields'].items())
    once = Counter()
    for (fk, rd, wr), n in snap['fields'].items():
        once[fk] += n
    obs['once'] = set(once.items())
    cf = Counter()
    for cn, ent in snap['c'].items():
        for fk, n in ent['fields'].items():
            cf[(cn, fk)] += n
    obs['class_fields'] = set(cf.items())
    for name in ('owner_read', 'owner_write', 'method_read', 'method_write', 'union_read', 'union_write', 'once', 'fields',
                 'class_fields'):
        _clause(ctx, case, name, obs[name], Ec[name], Ed[name], other_fields)


def _labels(model, exp):
    df = exp['defined_fields']
    dexof = X.dex_of(model)
    labels = set()
    nt = False
    for mk, sl in exp['sites'].items():
        offs = {}
        for (off, op, kind, fk) in sl:
            if kind != 'fld':
                continue
            labels.add('op:%02x' % op)
            if fk in df:
                w = _where(exp, dexof, mk, fk)
                labels.add('target:' + w)
                if w != 'own-class':
                    nt = True
                offs[fk] = offs.get(fk, 0) + 1
            elif fk[0] in exp['internal']:
                labels.add('target:undefined-in-internal-class')
            else:
                labels.add('target:external')
        if any(n > 1 for n in offs.values()):
            labels.add('repeated-access')
    labels.add('ndex:%d' % model['ndex'])
    labels |= X.payload_labels(model, kinds=('fld',))
    return labels, nt


def _rename_labels(model, exp0):
    """what the drawn history does (exp0 = expectation before the renames)"""
    dexof = X.dex_of(model)
    labels = {'history:rename'}
    for r in model['renames']:
        if r[0] == 'f':
            fk = (r[1], r[2], r[3])
            if fk not in exp0['defined_fields']:
                continue
            labels.add('history:rename-field')
            for mk, sl in exp0['sites'].items():
                for (off, op, kind, t) in sl:
                    if kind == 'fld' and t == fk:
                        if dexof[mk[0]] != dexof[fk[0]]:
                            labels.add('history:renamed-field-still-named-by-other-dex')
                        else:
                            labels.add('history:renamed-field-accessed')
                            if mk[0] == fk[0]:
                                labels.add('history:renamed-field-accessed-from-own-class')
        else:
            mk = (r[1], r[2], A.desc(r[3], r[4]))
            if mk not in exp0['defined_methods']:
                continue
            labels.add('history:rename-method')
            if any(kind == 'fld' and t in exp0['defined_fields'] for (_, _, kind, t) in exp0['sites'].get(mk, ())):
                labels.add('history:renamed-method-accesses-defined-field')
    return labels


def run_model(ctx, model, record=True):
    model = X.normalize(model)
    case = {'mode': 'model', 'model': model}
    renames = model.get('renames')
    dexof = X.dex_of(model)
    exp0 = A.exp_from_model(model)
    exp = A.rename_exp(exp0, dexof, renames) if renames else exp0
    built = X.build(model)
    datas = [b for (b, _) in built]
    labels, nt = _labels(model, exp0)
    if record:
        if renames:
            labels |= _rename_labels(model, exp0)
        if model.get('bulk'):
            labels.add('large-pool')
            labels |= {l for l in X.index_labels(model, [df for (_, df) in built]) if l.startswith('idx:fld:')}
        ctx.case(nontrivial=nt, key=repr(model), labels=sorted(labels),
                 sample={'fields': sorted(exp0['defined_fields'])[:6], 'ndex': model['ndex'],
                         'accesses': [[k[0], k[1], o, '%02x' % op, t] for k, v in exp0['sites'].items()
                                      for (o, op, kd, t) in v if kd == 'fld'][:8],
                         'renames': renames, 'bulk': model.get('bulk')})
    try:
        dx, vms = A.analyse(datas, renames=renames)
    except A.AnalysisFailure as e:
        ctx.fail('exception:' + e.where, case, e.tb)
        return
    check(ctx, exp, dx, vms, case, dexof)


def run_file(ctx, name):
    case = {'mode': 'file', 'name': name}
    datas = A.load_file(name)
    if not datas:
        ctx.count('shipped_without_dex')
        return
    try:
        vms = [A.parse(d) for d in datas]
    except A.AnalysisFailure:
        ctx.count('shipped_unparsable')
        return
    exp = A.exp_from_vms(vms)
    if isinstance(exp, str):
        ctx.count('shipped_skipped:' + exp)
        return
    df = exp['defined_fields']
    nacc = sum(1 for sl in exp['sites'].values() for s in sl if s[2] == 'fld' and s[3] in df)
    nother = sum(1 for mk, sl in exp['sites'].items() for s in sl if s[2] == 'fld' and s[3] in df and s[3][0] != mk[0])
    ctx.case(nontrivial=nother > 0, key='file:' + name, labels=['shipped', 'shipped:ndex:%d' % len(vms)],
             sample={'file': name, 'defined_fields': len(df), 'accesses_to_defined_fields': nacc, 'from_other_class': nother})
    ctx.count('shipped_field_accesses', nacc)
    ctx.count('shipped_field_accesses_from_other_class', nother)
    try:
        dx = A.analyse_vms(vms)
    except A.AnalysisFailure as e:
        ctx.fail('exception:' + e.where, case, e.tb)
        return
    dexof = {c.get_name(): i for i, vm in enumerate(vms) for c in vm.get_classes()}
    check(ctx, exp, dx, vms, case, dexof)


@st.composite
def cases(draw):
    """model; 4 in 10 with a rename history"""
    base = X.models(profile='fields')
    if draw(st.integers(0, 9)) < 4:
        return draw(X.with_renames(base))
    return draw(base)


def _rich(model):
    """large-pool cases are expensive: keep those with >= 2 instance (22c) and >= 1 static (21c) access to defined fields"""
    df = X.defined_fields(model)
    ops = [s[1] for c in model['classes'] for m in c['methods'] if m['code'] for s in m['body']
           if s[0] == 'fld' and (s[2], s[3], s[4]) in df]
    return sum(1 for o in ops if o < 0x60) >= 2 and any(o >= 0x60 for o in ops)


def shards(tier, seed):
    n = 12 if tier == 'quick' else 40
    sh = [('large', k) for k in range(1 if tier == 'quick' else 4)] + [('gen', k) for k in range(n)]
    return sh + A.file_shards(tier)


def run_shard(ctx, shard):
    if shard[0] == 'gen':
        n = 800 if ctx.tier == 'quick' else 2500
        A.collect(ctx, cases(), run_model, n, salt=shard[1], skip=lambda b: b.endswith(KNOWN))
    elif shard[0] == 'large':
        n = 4 if ctx.tier == 'quick' else 12
        A.collect(ctx, X.large_models(profile='fields').filter(_rich), run_model, n, salt=200 + shard[1],
                  skip=lambda b: b.endswith(KNOWN))
    else:
        for name in shard[1]:
            run_file(ctx, name)


def replay(ctx, case):
    if case['mode'] == 'model':
        run_model(ctx, case['model'], record=False)
    else:
        run_file(ctx, case['name'])


def _m_field_owner(bucket, case, msg):
    """Only the failure shape of the field-owner defect: the clause equals the exact defect model (accesses recorded on a
    FieldAnalysis of the accessing class; field resolved in the accessing DEX only), every difference from the statement
    concerns a field that is accessed from a class other than its owner, and (owner/union/method clauses) every missing
    entry is such an access."""
    if not bucket.endswith(KNOWN) or not case.get('defect_model_match'):
        return False
    if not case.get('differences_only_on_fields_accessed_from_another_class'):
        return False
    clause = case.get('clause', '')
    for e in case.get('missing') or []:
        if clause.startswith(('owner_', 'union_')):
            if e[0][0] == e[1][0]:          # (field key, (accessing class, method, offset))
                return False
        elif clause.startswith('method_'):
            if e[0][0] == e[1][1][0]:       # (method key, (class, field key, offset))
                return False
    return True


MATCHERS = {'field_owner': _m_field_owner}
