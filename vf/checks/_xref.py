"""Shared androguard-facing part of the cross-reference checks C13 / C14 / C15 / C16 (not a check itself).

* expectation ("exp"): what a set of DEX files contains, independent of androguard's Analysis:
      {'sites': {mk: [(byte offset, opcode, kind, target)]}, 'defined_methods': {mk}, 'defined_fields': {fk},
       'internal': {class name}}
  mk = (class, name, descriptor in androguard's notation '(I J)V'), fk = (class, name, type).
  exp_from_model(model): from the generator's abstract model (vf.gen.xrefgen) — the oracle proper.
  exp_from_vms(vms): from shipped files: raw code units of every method swept with vf.gen.dalvik_spec, pool indices
  resolved through the DEX parser (androguard.core.dex), *not* through analysis.py.
* analyse(): DEX bytes -> Analysis (add in the given order, create_xref once). With renames=[...] (the model's 'renames'
  history) the renames are performed on the loaded files after every add() and before create_xref(); rename_exp() gives
  the expectation after the same history: a rename changes the name of ONE field_id / method_id of ONE file, so the
  definition and every instruction of that file that refers to it show the new name, and references from other files
  (their own id items, old name) no longer name a defined member. Which instruction refers to which item is unchanged.
* snapshot(): everything the Analysis reports, by name (classes, methods, fields, strings, all xref getters, call graph).
* derive(): by-name expectation for the invoke/field/string/class-usage clauses, under the statement's semantics or under
  the model of the known array-receiver defect (receiver '[I' dropped, '[Lx;' re-attributed to 'Lx;').
"""
import os
import traceback
from collections import Counter

from vf.gen import dalvik_spec as ds
from vf.gen import xrefgen as X

INVOKES = frozenset(range(0x6e, 0x73)) | frozenset(range(0x74, 0x79))
REPO = os.environ.get('VERIF_REPO', '/repo')


class AnalysisFailure(Exception):
    def __init__(self, where, tb):
        Exception.__init__(self, where)
        self.where, self.tb = where, tb


def desc(ret, params):
    return '(%s)%s' % (' '.join(params), ret)


def amk(k):
    """generator method key -> androguard-notation key"""
    return (k[0], k[1], desc(k[2], k[3]))


# ------------------------------------------------------------------------------------------------ expectations
def exp_from_model(model):
    sites = {}
    for k, sl in X.sites(model).items():
        out = []
        for (off, op, kind, tgt) in sl:
            if kind == 'inv':
                tgt = amk(tgt)
            out.append((off, op, kind, tgt))
        sites[amk(k)] = out
    return {'sites': sites, 'defined_methods': {amk(k) for k in X.defined_methods(model)},
            'defined_fields': set(X.defined_fields(model)), 'internal': set(X.internal_classes(model))}


def rename_exp(exp, dexof, renames):
    """The expectation after the renames of a history (see module docstring). Renames of items the model does not define
    (after a shrinking step removed them) are ignored, as in perform_renames()."""
    fmap, mmap = {}, {}
    for r in renames or ():
        if r[0] == 'f':
            fk = (r[1], r[2], r[3])
            if fk in exp['defined_fields']:
                fmap[(dexof[r[1]], fk)] = (r[1], r[4], r[3])
        else:
            mk = (r[1], r[2], desc(r[3], r[4]))
            if mk in exp['defined_methods']:
                mmap[(dexof[r[1]], mk)] = (r[1], r[5], mk[2])
    sites = {}
    for mk, sl in exp['sites'].items():
        d = dexof[mk[0]]
        out = []
        for (off, op, kind, tgt) in sl:
            if kind == 'fld':
                tgt = fmap.get((d, tgt), tgt)
            elif kind == 'inv':
                tgt = mmap.get((d, tgt), tgt)
            out.append((off, op, kind, tgt))
        sites[mmap.get((d, mk), mk)] = out
    return {'sites': sites,
            'defined_methods': {mmap.get((dexof[k[0]], k), k) for k in exp['defined_methods']},
            'defined_fields': {fmap.get((dexof[k[0]], k), k) for k in exp['defined_fields']},
            'internal': set(exp['internal'])}


def perform_renames(vms, renames):
    """set_name() on the EncodedField / EncodedMethod objects named by the history (all located first, by their original
    names, then renamed in history order). -> number of renames performed."""
    todo = []
    try:
        fields, methods = {}, {}
        for vm in vms:
            for c in vm.get_classes():
                for f in c.get_fields():
                    fields[field_key(f)] = f
                for m in c.get_methods():
                    methods[method_key(m)] = m
        for r in renames or ():
            if r[0] == 'f':
                item = fields.get((r[1], r[2], r[3]))
                new = r[4]
            else:
                item = methods.get((r[1], r[2], desc(r[3], r[4])))
                new = r[5]
            if item is not None:
                todo.append((item, new))
        for item, new in todo:
            item.set_name(new)
    except Exception:
        raise AnalysisFailure('set_name', traceback.format_exc())
    return len(todo)


def exp_from_vms(vms, ctx=None):
    """Expectation for already parsed DEX objects (shipped files). Returns 'duplicate-class' when two files define the
    same class (outside the domain of the properties) and 'unsweepable' when the reference sweep cannot tile a method."""
    sites, dm, df, internal = {}, set(), set(), set()
    for vm in vms:
        for c in vm.get_classes():
            cn = c.get_name()
            if cn in internal:
                return 'duplicate-class'
            internal.add(cn)
            for f in c.get_fields():
                df.add((f.get_class_name(), f.get_name(), f.get_descriptor()))
            for m in c.get_methods():
                k = (m.get_class_name(), m.get_name(), m.get_descriptor())
                dm.add(k)
                code = m.get_code()
                if code is None:
                    continue
                raw = bytes(code.get_bc().get_insn())
                out = []
                try:
                    swept = ds.sweep(raw)
                except ds.SpecError:
                    return 'unsweepable'        # code the reference tables cannot tile (e.g. optimized opcodes): out of scope
                for it in swept:
                    if it.kind != 'ins':
                        continue
                    op = it.op
                    o = ds.OPCODES[op]
                    if o.ref not in (ds.REF_STRING, ds.REF_TYPE, ds.REF_FIELD, ds.REF_METHOD):
                        continue
                    _, fields = ds.decode_fields(raw, it.off * 2)
                    idx = fields[ds.index_fields(op)[0]]
                    off = it.off * 2
                    if op in INVOKES:
                        mi = vm.get_cm_method(idx)
                        out.append((off, op, 'inv', (mi[0], mi[1], ''.join(mi[2]))))
                    elif ds.field_access(op):
                        fi = vm.get_cm_field(idx)
                        out.append((off, op, 'fld', (fi[0], fi[2], fi[1])))
                    elif ds.is_const_string(op):
                        out.append((off, op, 'str', vm.get_cm_string(idx)))
                    elif o.ref == ds.REF_TYPE:
                        kind = {0x22: 'new', 0x1c: 'cls', 0x1f: 'cast', 0x20: 'iof', 0x23: 'narr', 0x24: 'farr', 0x25: 'farr'}[op]
                        out.append((off, op, kind, vm.get_cm_type(idx)))
                sites[k] = out
    return {'sites': sites, 'defined_methods': dm, 'defined_fields': df, 'internal': internal}


def has_array_receiver(exp):
    return any(kind == 'inv' and tgt[0].startswith('[') for sl in exp['sites'].values() for (_, _, kind, tgt) in sl)


def derive(exp, array_defect=False):
    """by-name expectation of the invoke clauses (C13)."""
    dm = exp['defined_methods']
    m_to, m_from, c_to, c_from, cg = {}, {}, {}, {}, set()
    methods = Counter()
    for k in dm:
        methods[(k, False)] = 1
    callee_classes = set()
    for mk, sl in exp['sites'].items():
        for (off, op, kind, tgt) in sl:
            if kind != 'inv':
                continue
            cls = tgt[0]
            if array_defect and cls.startswith('['):
                cls = cls.lstrip('[')
                if cls[0] != 'L':
                    continue
            callee = (cls, tgt[1], tgt[2])
            m_to.setdefault(mk, set()).add((cls, callee, off))
            m_from.setdefault(callee, set()).add((mk[0], mk, off))
            c_to.setdefault(mk[0], set()).add((cls, op, callee, off))
            c_from.setdefault(cls, set()).add((mk[0], op, mk, off))
            cg.add((mk, callee))
            callee_classes.add(cls)
            if callee not in dm:
                methods[(callee, True)] = 1
    return {'m_to': m_to, 'm_from': m_from, 'c_to': c_to, 'c_from': c_from, 'cg': cg, 'methods': methods,
            'callee_classes': callee_classes}


# ------------------------------------------------------------------------------------------------ running androguard
def parse(data):
    from androguard.core import dex
    try:
        return dex.DEX(data)
    except Exception:
        raise AnalysisFailure('DEX', traceback.format_exc())


def analyse_vms(vms, renames=None):
    from androguard.core.analysis import analysis
    try:
        dx = analysis.Analysis()
        for vm in vms:
            dx.add(vm)
    except Exception:
        raise AnalysisFailure('Analysis.add', traceback.format_exc())
    if renames:
        perform_renames(vms, renames)
    try:
        dx.create_xref()
    except Exception:
        raise AnalysisFailure('create_xref', traceback.format_exc())
    return dx


def analyse(datas, order=None, renames=None):
    """datas: list of DEX bytes; order: permutation of range(len(datas)) (add order). -> (dx, vms in add order)"""
    order = list(order) if order is not None else list(range(len(datas)))
    vms = [parse(datas[i]) for i in order]
    return analyse_vms(vms, renames), vms


def method_key(m):
    """EncodedMethod / ExternalMethod -> mk"""
    return (m.get_class_name(), m.get_name(), str(m.get_descriptor()))


def field_key(f):
    return (f.get_class_name(), f.get_name(), f.get_descriptor())


def snapshot(dx, callgraph=True):
    """Everything reported, by name. Raises AnalysisFailure if a getter raises."""
    try:
        return _snapshot(dx, callgraph)
    except Exception:
        raise AnalysisFailure('getters', traceback.format_exc())


def _snapshot(dx, callgraph):
    snap = {}
    snap['classes'] = {}
    snap['c'] = {}
    fields = []
    for name, ca in dx.classes.items():
        snap['classes'][name] = (ca.name, bool(ca.is_external()))
        ent = {'to': set(), 'from': set(), 'new': set(), 'cc': set(), 'methods': Counter(), 'fields': Counter()}
        for oth, refs in ca.get_xref_to().items():
            for (kind, ma, off) in refs:
                ent['to'].add((oth.name, int(kind), method_key(ma.get_method()), off))
        for oth, refs in ca.get_xref_from().items():
            for (kind, ma, off) in refs:
                ent['from'].add((oth.name, int(kind), method_key(ma.get_method()), off))
        for (ma, off) in ca.get_xref_new_instance():
            ent['new'].add((method_key(ma.get_method()), off))
        for (ma, off) in ca.get_xref_const_class():
            ent['cc'].add((method_key(ma.get_method()), off))
        for ma in ca.get_methods():
            ent['methods'][(method_key(ma.get_method()), bool(ma.is_external()))] += 1
        for fa in ca.get_fields():
            ent['fields'][field_key(fa.get_field())] += 1
        snap['c'][name] = ent
    for fa in dx.get_fields():
        fk = field_key(fa.get_field())
        rd = frozenset((ca.name, method_key(ma.get_method()), off) for (ca, ma, off) in fa.get_xref_read(with_offset=True))
        wr = frozenset((ca.name, method_key(ma.get_method()), off) for (ca, ma, off) in fa.get_xref_write(with_offset=True))
        fields.append((fk, rd, wr))
    snap['fields'] = Counter(fields)
    snap['methods'] = Counter()
    snap['m'] = {}
    for ma in dx.get_methods():
        k = method_key(ma.get_method())
        snap['methods'][(k, bool(ma.is_external()))] += 1
        ent = snap['m'].setdefault(k, {'to': set(), 'from': set(), 'read': set(), 'write': set(), 'new': set(), 'cc': set()})
        for (ca, oth, off) in ma.get_xref_to():
            ent['to'].add((ca.name, method_key(oth.get_method()), off))
        for (ca, oth, off) in ma.get_xref_from():
            ent['from'].add((ca.name, method_key(oth.get_method()), off))
        for (ca, f, off) in ma.get_xref_read():
            ent['read'].add((ca.name, field_key(f), off))
        for (ca, f, off) in ma.get_xref_write():
            ent['write'].add((ca.name, field_key(f), off))
        for (ca, off) in ma.get_xref_new_instance():
            ent['new'].add((ca.name, off))
        for (ca, off) in ma.get_xref_const_class():
            ent['cc'].add((ca.name, off))
    snap['s'] = {}
    for value, sa in dx.strings.items():
        snap['s'][value] = (sa.get_value(), sa.get_orig_value(),
                            frozenset((ca.name, method_key(ma.get_method()), off)
                                      for (ca, ma, off) in sa.get_xref_from(with_offset=True)))
    snap['strings_list'] = Counter(sa.get_orig_value() for sa in dx.get_strings())
    if callgraph:
        cg = dx.get_call_graph()
        snap['cg_edges'] = Counter((method_key(a), method_key(b)) for (a, b) in cg.edges())
        snap['cg_nodes'] = Counter(method_key(n) for n in cg.nodes())
    return snap


def diff_snap(a, b, limit=6):
    """-> list of (path, only_in_a, only_in_b) differences between two snapshots (bounded)."""
    out = []

    def cmp_set(path, x, y):
        if x != y:
            if isinstance(x, Counter):
                ax, ay = x - y, y - x
                out.append((path, sorted(ax.items(), key=repr)[:limit], sorted(ay.items(), key=repr)[:limit]))
            elif isinstance(x, (set, frozenset)):
                out.append((path, sorted(x - y, key=repr)[:limit], sorted(y - x, key=repr)[:limit]))
            else:
                out.append((path, x, y))
    for key in sorted(set(a) | set(b)):
        x, y = a.get(key), b.get(key)
        if isinstance(x, dict) and not isinstance(x, Counter) and isinstance(y, dict) and not isinstance(y, Counter):
            ks = set(x) | set(y)
            if set(x) != set(y):
                out.append((key + ':keys', sorted(set(x) - set(y), key=repr)[:limit], sorted(set(y) - set(x), key=repr)[:limit]))
            for k in sorted(ks & set(x) & set(y), key=repr):
                xv, yv = x[k], y[k]
                if isinstance(xv, dict) and not isinstance(xv, Counter):
                    for sub in sorted(set(xv) | set(yv)):
                        cmp_set('%s[%r].%s' % (key, k, sub), xv.get(sub), yv.get(sub))
                else:
                    cmp_set('%s[%r]' % (key, k), xv, yv)
        else:
            cmp_set(key, x, y)
        if len(out) > 40:
            break
    return out


# ------------------------------------------------------------------------------------------------ shipped corpus
def emptied():
    p = '/root/.vp/EMPTIED_FILES.txt'
    if not os.path.exists(p):
        return set()
    return {os.path.basename(l.strip()) for l in open(p) if l.strip()}


QUICK_FILES = [['AnalysisTest.dex', 'FieldsTest.dex', 'Test.dex', 'ExceptionHandling.dex', 'InterfaceCls.dex',
                'StringTests.dex', 'FillArrays.dex', 'multidex.apk', 'Test-debug.apk', 'TC-debug.apk',
                'com.politedroid_4.apk', 'duplicate.permisssions_9999999.apk'],
               ['TestActivity.apk'],
               ['com.teleca.jamendo_35.apk', 'OPCommonTelephony.jar']]


def corpus():
    """names (under tests/data/APK) of the shipped, non-emptied DEX/APK/JAR files."""
    root = os.path.join(REPO, 'tests', 'data', 'APK')
    skip = emptied()
    return sorted(n for n in os.listdir(root) if n.endswith(('.dex', '.apk', '.jar')) and n not in skip)


def file_shards(tier):
    """quick: a bounded sample in three shards; thorough: every shipped file, one shard each."""
    have = set(corpus())
    if tier == 'quick':
        return [('files', tuple(n for n in grp if n in have)) for grp in QUICK_FILES if any(n in have for n in grp)]
    return [('files', (n,)) for n in sorted(have)]


def load_file(name):
    """-> list of DEX bytes of a shipped file ([] when it holds none / is no zip)."""
    import re
    import zipfile
    path = os.path.join(REPO, 'tests', 'data', 'APK', name)
    if name.endswith('.dex'):
        with open(path, 'rb') as f:
            return [f.read()]
    try:
        z = zipfile.ZipFile(path)
    except zipfile.BadZipFile:
        return []
    with z:
        dn = sorted(n for n in z.namelist() if re.match(r'^classes\d*\.dex$', n))
        return [z.read(n) for n in dn]


def short(entries, limit=8):
    return sorted(entries, key=repr)[:limit]


# ------------------------------------------------------------------------------------------------ collect + cheap shrink
def _valid(model):
    """re-establish the generator's invariants after a deletion (dex numbers dense, supers/interfaces internal-or-external)."""
    used = sorted({c['dex'] for c in model['classes']})
    ren = {d: i for i, d in enumerate(used)}
    for c in model['classes']:
        c['dex'] = ren[c['dex']]
    model['ndex'] = len(used)
    return model


def _candidates(model):
    """smaller models, most aggressive first (deterministic)."""
    import copy
    n = len(model['classes'])
    if model.get('bulk'):
        # a large-pool model is expensive to evaluate: the only reduction tried is dropping the fillers altogether
        m = copy.deepcopy(model)
        del m['bulk']
        yield m
        return
    if model.get('renames'):
        for i in range(len(model['renames'])):
            m = copy.deepcopy(model)
            del m['renames'][i]
            if not m['renames']:
                del m['renames']
            yield m
    if model['ndex'] > 1:
        m = copy.deepcopy(model)
        for c in m['classes']:
            c['dex'] = 0
        yield _valid(m)
        for d in range(model['ndex'] - 1, 0, -1):
            m = copy.deepcopy(model)
            for c in m['classes']:
                if c['dex'] == d:
                    c['dex'] = d - 1
            yield _valid(m)
    if n > 1:
        for i in range(n):
            m = copy.deepcopy(model)
            del m['classes'][i]
            yield _valid(m)
    for i in range(n):
        for j in range(len(model['classes'][i]['methods'])):
            m = copy.deepcopy(model)
            del m['classes'][i]['methods'][j]
            yield m
    for i in range(n):
        for j, meth in enumerate(model['classes'][i]['methods']):
            body = meth['body']
            if len(body) > 1:
                m = copy.deepcopy(model)
                m['classes'][i]['methods'][j]['body'] = body[:len(body) // 2]
                yield m
                m = copy.deepcopy(model)
                m['classes'][i]['methods'][j]['body'] = body[len(body) // 2:]
                yield m
            for k in range(len(body)):
                if len(body) > 1:
                    m = copy.deepcopy(model)
                    del m['classes'][i]['methods'][j]['body'][k]
                    yield m
    for i in range(n):
        for j in range(len(model['classes'][i]['fields'])):
            m = copy.deepcopy(model)
            del m['classes'][i]['fields'][j]
            yield m
        c = model['classes'][i]
        if c['interfaces'] or c['super'] != X.OBJ:
            m = copy.deepcopy(model)
            m['classes'][i]['interfaces'] = []
            m['classes'][i]['super'] = X.OBJ
            yield m


def shrink_model(ctx, run_model, bucket, model, budget_s=4.0):
    """Greedy deletion: smallest model found (within the time budget) on which run_model still reports `bucket`."""
    import time
    from vf.core import runner

    def fails(m):
        sub = runner.Ctx(ctx.prop, ctx.tier, ctx.seed, ctx.shard_index)
        sub._shrink_bucket = bucket
        try:
            run_model(sub, m, record=False)
        except runner._ShrinkHit:
            return True
        return False
    t0 = time.time()
    cur = model
    progress = True
    while progress and time.time() - t0 < budget_s:
        progress = False
        for cand in _candidates(cur):
            if time.time() - t0 > budget_s:
                break
            if fails(cand):
                cur = cand
                progress = True
                break
    return cur


def collect(ctx, strategy, run_model, n, salt, budget_s=4.0, skip=lambda bucket: False):
    """hyp_collect without Hypothesis' (slow, unbounded) shrink phase; each new bucket's smallest recorded model is reduced
    by greedy deletion for at most budget_s seconds and the reduced case is recorded under the same bucket."""
    from vf.core.runner import hyp_collect, unhex
    before = set(ctx.failures)
    hyp_collect(ctx, strategy, lambda c, m: run_model(c, m), n, salt=salt, shrink=False)
    for bucket in [b for b in list(ctx.failures) if b not in before and not skip(b)]:
        size, case, msg = ctx.failures[bucket][0]
        case = unhex(case)
        if not isinstance(case, dict) or case.get('mode') != 'model':
            continue
        orig = X.normalize(case['model'])
        small = shrink_model(ctx, run_model, bucket, orig, budget_s)
        if small == orig:
            continue                            # nothing smaller found: the recorded case stays
        ev, nt = ctx.evaluations, set(ctx.nontrivial)
        run_model(ctx, small, record=False)
        ctx.evaluations, ctx.nontrivial = ev, nt
