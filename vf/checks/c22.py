"""C22 — decompilation output is deterministic.

Every selected method of the shipped DEX files (and of DEX files produced by the C21 program generator) is decompiled
K times in this process — each time after a seeded heap perturbation (objects of several size classes are allocated
and half of them freed in a shuffled order, so that `id()`-hashed sets of nodes/variables iterate differently) and after
decompiling other methods first — and once more in fresh interpreter processes started with other PYTHONHASHSEED values
and another method order. Oracle: all texts of a method are identical.

Detection is probabilistic: an order leak shows only when the perturbation actually changes the layout of the objects
involved. A difference is a real violation; a pass is weak evidence.
"""
import hashlib
import io
import json
import os
import random
import re
import subprocess
import sys
import zipfile

from hypothesis import strategies as st
from vf.core.runner import HarnessError, hyp_collect, VERIF

PROPERTY = 'C22'
LEVEL = 'exploration'
RULE = ('cases = (DEX file, method, perturbation seeds): each method of the shipped DEX files (tests/data/APK/*.dex, the DEX '
        'of hello-world.apk / a2dp.Vol_137.apk in the thorough tier) and of DEX files built from generated int/long programs is '
        'decompiled K times in one process (K=4 quick, 12 thorough) after seeded heap perturbation and after other methods, '
        'plus once per fresh child process (PYTHONHASHSEED 1, 4242 / 1, 7, 4242, 99999; the parent runs with 0) in a different '
        'method order; quick tier samples methods, biased to long ones. The generated programs use every generator feature, '
        'among them locals assigned byte/short/char casts of different kinds on different paths (label generated:narrow_join: '
        'the declared type of such a local is chosen from a set of type descriptors). non-trivial = the decompiled method has a loop or at least two local '
        'variables (only those can print differently); distinct = (file, class, method, descriptor).')
ASSUMPTIONS = ['detection is probabilistic: it depends on the heap perturbation changing the relative addresses of the '
               'decompiler\'s node/variable objects; equal texts in all runs are weak evidence of determinism',
               'a method on which DvMethod.process() raises is compared by the exception type it raises']
EXHAUSTIVE = False

REPO = os.environ.get('VERIF_REPO', '/repo')
# the parent runs with PYTHONHASHSEED=0 (run.py). 7 orders every set of one-letter type descriptors over B, S, C like 0 does;
# 1 and 4242 order {B,C}, {B,S,C} resp. {S,B}, {S,C} differently from 0, so the quick tier uses these two
CHILD_SEEDS = {'quick': (1, 4242), 'thorough': (1, 7, 4242, 99999)}
K_RUNS = {'quick': 4, 'thorough': 12}

# (TestActivity.apk holds a byte-identical copy of classes.dex: not repeated)
QUICK_FILES = ['tests/data/APK/classes.dex', 'tests/data/APK/Test.dex',
               'tests/data/APK/ExceptionHandling.dex', 'tests/data/APK/FillArrays.dex', 'tests/data/APK/AnalysisTest.dex',
               'tests/data/APK/StringTests.dex', 'tests/data/APK/InterfaceCls.dex', 'tests/data/APK/FieldsTest.dex']
THOROUGH_FILES = QUICK_FILES + ['tests/data/APK/hello-world.apk', 'tests/data/APK/a2dp.Vol_137.apk',
                                'tests/data/APK/Annotation_classes.dex']


def emptied():
    try:
        with open('/root/.vp/EMPTIED_FILES.txt') as f:
            return {l.strip() for l in f if l.strip()}
    except OSError:
        return set()


def dex_bytes(rel):
    """-> list of DEX byte strings of a shipped file (a .dex, or the classes*.dex of an .apk)"""
    path = os.path.join(REPO, rel)
    with open(path, 'rb') as f:
        data = f.read()
    if rel.endswith('.dex'):
        return [data]
    out = []
    with zipfile.ZipFile(io.BytesIO(data)) as z:
        for n in sorted(z.namelist()):
            if re.fullmatch(r'classes\d*\.dex', n):
                out.append(z.read(n))
    return out


def load(source):
    """source: ('file', rel, k) | ('gen', seed, n) -> (dex object, analysis, [encoded methods with code])"""
    from androguard.core import dex
    from androguard.core.analysis.analysis import Analysis
    if source[0] == 'file':
        raw = dex_bytes(source[1])[source[2]]
    elif source[0] == 'bytes':                    # a child process gets the parent's generated DEX as a file
        with open(source[1], 'rb') as f:
            raw = f.read()
    else:
        raw = generated_dex(source[1], source[2])
    d = dex.DEX(raw)
    dx = Analysis(d)
    dx.create_xref()
    methods = [m for c in d.get_classes() for m in c.get_methods() if m.get_code() is not None]
    d._vf_raw = raw
    return d, dx, methods


_GENERATED = {}


def generated_programs(seed, n):
    """-> [(program, compiled)] behind generated_dex(seed, n); class i of the DEX holds program i"""
    if (seed, n) not in _GENERATED:
        generated_dex(seed, n)
    return _GENERATED[(seed, n)]


def generated_dex(seed, n):
    """DEX of n generated programs (all generator features on); deterministic in (seed, n)"""
    from hypothesis import given, settings, seed as hseed, HealthCheck, Phase
    from vf.gen import progs
    bag = []

    @hseed(seed)
    @settings(max_examples=n, database=None, deadline=None, phases=(Phase.generate,), suppress_health_check=list(HealthCheck))
    @given(progs.programs())
    def collect(p):
        try:
            bag.append((p, progs.compile_program(p)))
        except progs.Reject:
            pass
    collect()
    _GENERATED.clear()
    _GENERATED[(seed, n)] = bag
    return progs.build_dex([p for p, _ in bag], [c for _, c in bag])


class _Junk:
    def __init__(self):
        self.a = 1
        self.b = 2


def perturb(seed):
    """fragment the free lists of the size classes the decompiler's objects live in; returns the objects kept alive"""
    rng = random.Random(seed)
    keep = []
    for cls in (_Junk, object):
        objs = [cls() for _ in range(rng.randrange(50, 3000))]
        rng.shuffle(objs)
        keep.append(objs[:len(objs) // 2])
        del objs
    dicts = [{} for _ in range(rng.randrange(10, 500))]
    rng.shuffle(dicts)
    keep.append(dicts[::2])
    del dicts
    sets = [set() for _ in range(rng.randrange(10, 500))]
    keep.append(sets[::3])
    del sets
    lists = [[None] * rng.randrange(1, 8) for _ in range(rng.randrange(10, 800))]
    rng.shuffle(lists)
    keep.append(lists[::2])
    return keep


def decompile(dx, m):
    """-> (text, loops, nvars)"""
    from androguard.decompiler.decompile import DvMethod
    try:
        z = DvMethod(dx.get_method(m))
        z.process()
        src = z.get_source()
    except Exception as e:                       # compared like a text (C21/C35 judge exceptions themselves)
        return 'EXCEPTION %s' % type(e).__name__, 0, 0
    loops = 0
    if z.graph is not None:
        loops = sum(1 for n in z.graph.nodes if getattr(n, 'startloop', False))
    nvars = len(set(re.findall(r'\bv\d+(?:_\d+)?\b', src)))
    return src, loops, nvars


def mkey(m):
    return '%s %s %s' % (m.get_class_name(), m.get_name(), m.get_descriptor())


def sha(s):
    return hashlib.sha1(s.encode('utf-8', 'surrogatepass')).hexdigest()


def first_diff(a, b):
    la, lb = a.split('\n'), b.split('\n')
    for i, (x, y) in enumerate(zip(la, lb)):
        if x != y:
            return 'line %d: %r / %r' % (i + 1, x.strip()[:100], y.strip()[:100])
    return 'length %d / %d lines' % (len(la), len(lb))


def run_children(ctx, source, keys, tier, base_texts, label, raw=None, tagged=None):
    """decompile the methods `keys` in fresh processes with other hash seeds; compare with base_texts {key: sha1}.
    tagged: {key: [labels]} - the child comparisons of these methods are counted per label"""
    import tempfile
    tmp = None
    child_source = list(source)
    if source[0] == 'gen':
        fd, tmp = tempfile.mkstemp(prefix='vf_c22_', suffix='.dex')
        with os.fdopen(fd, 'wb') as f:
            f.write(raw)
        child_source = ['bytes', tmp, 0]
    try:
        _run_children(ctx, source, child_source, keys, tier, base_texts, label, tagged or {})
    finally:
        if tmp:
            os.unlink(tmp)


def _run_children(ctx, source, child_source, keys, tier, base_texts, label, tagged):
    for hs in CHILD_SEEDS[tier]:
        env = dict(os.environ)
        env['PYTHONHASHSEED'] = str(hs)
        req = json.dumps({'source': child_source, 'keys': keys, 'order_seed': hs})
        p = subprocess.run([sys.executable, '-m', 'vf.checks.c22', '--child'], input=req, capture_output=True, text=True,
                           env=env, cwd=VERIF, timeout=3600)
        if p.returncode != 0:
            raise HarnessError('C22 child failed: ' + p.stderr[-1500:])
        got = json.loads(p.stdout.strip().split('\n')[-1])
        ctx.count('child_processes')
        for k in keys:
            ctx.count('child_decompilations')
            for t in tagged.get(k, ()):
                ctx.count('child_decompilations:%s:hashseed=%d' % (t, hs))
            if got.get(k) != base_texts[k]:
                ctx.fail('process:%s' % label, {'source': list(source), 'method': k, 'hashseed': hs, 'seeds': [],
                                                 'expected_sha1': base_texts[k], 'observed_sha1': got.get(k)},
                         '%s decompiles to a different text in a fresh process with PYTHONHASHSEED=%d' % (k, hs))


def child_main():
    from vf.core import runner
    runner._quiet()
    req = json.loads(sys.stdin.read())
    d, dx, methods = load(tuple(req['source']))
    by = {mkey(m): m for m in methods}
    keys = list(req['keys'])
    random.Random(req['order_seed']).shuffle(keys)
    hold = perturb(req['order_seed'])
    out = {}
    for k in keys:
        out[k] = sha(decompile(dx, by[k])[0])
    del hold
    print(json.dumps(out))


def check_method(ctx, source, dx, methods, idx, seeds, others, label, extra_labels=()):
    """the in-process part: K decompilations of methods[idx] after perturbation / other methods"""
    m = methods[idx]
    key = mkey(m)
    texts = []
    hold = []
    for j, sd in enumerate(seeds):
        hold.append(perturb(sd))
        if j % 2 == 1:
            for o in others[:3]:
                decompile(dx, methods[o % len(methods)])
        src, loops, nvars = decompile(dx, m)
        texts.append(src)
        if j % 3 == 2:
            hold = []
    nontrivial = loops >= 1 or nvars >= 2
    ctx.case(nontrivial=nontrivial, key=(source[:2], key), labels=[label, 'loops' if loops else 'no-loop',
             'vars>=2' if nvars >= 2 else 'vars<2'] + list(extra_labels),
             sample={'source': list(source), 'method': key, 'runs': len(seeds), 'loops': loops, 'locals': nvars})
    distinct = sorted(set(texts), key=texts.index)
    if len(distinct) > 1:
        ctx.fail('inprocess:%s' % label, {'source': list(source), 'method': key, 'seeds': list(seeds), 'others': list(others)},
                 '%s: %d distinct texts in %d decompilations in one process; %s' % (
                     key, len(distinct), len(texts), first_diff(distinct[0], distinct[1])))
    return key, sha(texts[0]), nontrivial


def shards(tier, seed):
    skip = emptied()
    files = [f for f in (QUICK_FILES if tier == 'quick' else THOROUGH_FILES) if f not in skip and os.path.exists(os.path.join(REPO, f))]
    sh = []
    for f in files:
        try:
            n = len(dex_bytes(f))
        except (OSError, zipfile.BadZipFile):
            continue
        big = os.path.getsize(os.path.join(REPO, f)) > 300000
        for k in range(n):
            parts = (4 if tier == 'quick' else 16) if big else 1
            for part in range(parts):
                sh.append(('file', f, k, part, parts))
    ngen = 2 if tier == 'quick' else 8
    for g in range(ngen):
        sh.append(('gen', seed * 100 + g, 60 if tier == 'quick' else 250, 0, 1))
    return sh


def run_shard(ctx, shard):
    kind = shard[0]
    source = (kind, shard[1], shard[2])
    part, parts = shard[3], shard[4]
    d, dx, methods = load(source)
    if not methods:
        return
    label = 'generated' if kind == 'gen' else os.path.basename(shard[1])
    mine = [i for i in range(len(methods)) if i % parts == part]
    if ctx.tier == 'quick' and len(mine) > 90:
        # sample, biased to the long methods (loops / several locals live there)
        def size(i):
            return methods[i].get_code().get_length() if hasattr(methods[i].get_code(), 'get_length') else 0
        ranked = sorted(mine, key=lambda i: -size(i))
        rng = random.Random(ctx.seed * 7919 + part)
        chosen = ranked[:65] + rng.sample(ranked[65:], 25)
        ctx.count('methods_not_sampled', len(mine) - len(chosen))
        mine = sorted(chosen)
    k = K_RUNS[ctx.tier]
    case = st.tuples(st.sampled_from(mine), st.lists(st.integers(0, 1 << 30), min_size=k, max_size=k),
                     st.lists(st.integers(0, len(methods) - 1), min_size=3, max_size=3))
    base = {}
    todo = list(mine)
    extra = {}                                     # method index -> labels measuring what the generator produced
    if kind == 'gen':
        from vf.gen import progs
        by_class = {str(m.get_class_name()): i for i, m in enumerate(methods)}
        for n, (p, _c) in enumerate(generated_programs(shard[1], shard[2])):
            nj = progs.narrow_joins(p)
            if nj and progs.class_name(n) in by_class:
                extra[by_class[progs.class_name(n)]] = ['generated:narrow_join'] + sorted(
                    {'generated:narrow_join:' + a for a, _ in nj})
    tagged = {}

    def fn(c, v):
        # every selected method once, in order (Hypothesis draws the seeds and the companions)
        idx = todo.pop(0) if todo else v[0]
        key, h, _nt = check_method(c, source, dx, methods, idx, v[1], v[2], label, extra.get(idx, ()))
        base.setdefault(key, h)
        if idx in extra:
            tagged[key] = extra[idx][:1]
    hyp_collect(ctx, case, fn, len(mine), salt=part, shrink=False)
    for idx in todo:                              # Hypothesis may stop early on duplicates: finish deterministically
        key, h, _nt = check_method(ctx, source, dx, methods, idx, [ctx.seed * 31 + idx + j for j in range(k)], [idx + 1, idx + 2, idx + 3], label,
                                   extra.get(idx, ()))
        base.setdefault(key, h)
        if idx in extra:
            tagged[key] = extra[idx][:1]
    run_children(ctx, source, sorted(base), ctx.tier, base, label, raw=d._vf_raw, tagged=tagged)


_LOADED = {}


def replay(ctx, case):
    source = tuple(case['source'])
    if source not in _LOADED:
        _LOADED.clear()
        _LOADED[source] = load(source)
    d, dx, methods = _LOADED[source]
    by = {mkey(m): i for i, m in enumerate(methods)}
    if case['method'] not in by:
        raise HarnessError('replay: method %r not in %r' % (case['method'], source))
    idx = by[case['method']]
    label = 'generated' if source[0] == 'gen' else os.path.basename(source[1])
    seeds = list(case.get('seeds') or []) or list(range(12))
    if len(seeds) < 12:
        seeds = seeds + [s + 1000003 for s in seeds] + list(range(12 - len(seeds)))
    key, h, _ = check_method(ctx, source, dx, methods, idx, seeds, case.get('others') or [idx + 1, idx + 2, idx + 3], label)
    run_children(ctx, source, [key], 'quick', {key: h}, label, raw=d._vf_raw)


if __name__ == '__main__':
    if '--child' in sys.argv:
        child_main()
