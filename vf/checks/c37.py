"""C37 — decompile output stays inside the output directory.

Statement: for every input file, every file and directory the decompile command creates lies inside the
requested output directory, whatever the class and method names in the DEX are.

Generator: small DEX files (1-3 classes, 1-3 `return-void` methods each) written by vf.gen.dexgen whose class
descriptors and method names are hostile path material: `..`, `.`, empty segments, leading and trailing `/`,
classical traversal-filter bypasses (`....//`, `..././`), descriptors without `L...;`, over-long segments,
backslashes, control and non-ASCII characters, names of siblings of the output directory (`../outx`), method
names with `/` and `..`; plus the one shape in which a method name can actually traverse (other classes whose
directories are `<cls> <prefix>` / `<cls> <prefix>_..` so that the method file name `<cls> <prefix>/../..`
resolves), and plain benign names as controls.

Harness: per case a fresh directory base/jail; input DEX and the Session's sqlite file in jail/, output
directory jail/d1/d2/d3/d4/out (does not exist, so no prompt), cwd jail/d1/d2/d3/d4, stdout/stderr captured.
`export_apps_to_format(filename, session, output, methods_filter, jar=False, decompiler_type=None, form)` is
called exactly as `androguard decompile` calls it (form None or 'raw', with and without a method filter,
output given absolute or relative).

Oracle: the set of paths below base/ is listed before and after the call; every new path is `out` or below it.
Exceptions are not violations (the statement is about where things are created); they are labelled.

Sandbox safety (so that a wrong androguard cannot write outside our scratch area either): the number of `..`
occurrences in a class name plus any of its method signatures is at most 5 = depth of out/ below jail/, the
jail sits three owned directories below the system temp dir, and every name that begins with `/` continues
with the absolute path of the jail itself (placeholder `{J}` in the case), so that an implementation which
treats it as absolute still lands inside the jail, where the oracle sees it.
"""
import contextlib
import io
import os
import shutil
import sys
import tempfile
import traceback

from hypothesis import strategies as st

from vf.core.runner import HarnessError, hyp_collect
from vf.gen import dexgen as dg

PROPERTY = 'C37'
LEVEL = 'exploration'
RULE = ('Hypothesis-generated DEX files (vf.gen.dexgen, 1-3 classes x 1-3 return-void methods) whose class descriptors '
        'are built from segment lists with boosted shapes: "..", ".", empty, leading/trailing "/", traversal-filter '
        'bypasses, no-L; descriptors, 120..1000-char segments, backslashes, odd characters; method names with "/" and '
        '".."; siblings of the output directory ("../outx"); the helper-directory shape (class dir "<cls> <w>" or '
        '"<cls> <w>_.." + method "<w>/../.."); benign controls; plus a fixed table of 34 named cases. Each is '
        'exported with export_apps_to_format into a fresh jail (form None/raw, optional method filter, absolute/relative '
        'output) and the directory tree is diffed. non-trivial = some class name has a "."/".."/empty/absolute-looking '
        'segment and at least one file was written; distinct = (class names, method signatures, options)')
ASSUMPTIONS = ['vf/gen/dexgen.py writes a DEX that androguard parses with the generated names unchanged (checked: the case is '
               'labelled add-exception otherwise and not counted as non-trivial)',
               'POSIX file system: "/" is the only separator; names beginning with "/" always continue with the jail path '
               '(sandbox safety), so "L//a;" is exercised as "L//<jail>/esc/a;"',
               'only paths *created* are checked (statement), not modification of pre-existing files; the Session database '
               'and the input file are created before the snapshot, as the design prescribes',
               'jar=True and the external decompilers (dex2jad, ded, fernflower) need external binaries and are not exercised; '
               'form is None or "raw" (png/jpg go through graphviz and write the same file name)']
EXHAUSTIVE = False

JAIL_UP = 5                       # out/ is this many directories below jail/
OUT_REL = 'jail/d1/d2/d3/d4/out'
CWD_REL = 'jail/d1/d2/d3/d4'
J = '{J}'

_RUN = {'dir': None, 'n': 0}


# ------------------------------------------------------------------------------------ case helpers

def _body(name):
    return name[1:-1] if name.endswith(';') else name


def _segments(name):
    return _body(name).split('/')


def _dots(s):
    return s.count('..')


def case_dots(case):
    """worst-case number of parent-directory steps any single file name of the case could contain"""
    worst = 0
    for c in case['classes']:
        m = 0
        for me in c['methods']:
            m = max(m, _dots(me['name']) + sum(_dots(p) for p in me['params']))
        worst = max(worst, _dots(c['name']) + m)
    return worst


def check_safe(case):
    if case_dots(case) > JAIL_UP:
        raise HarnessError('unsafe case: %d ".." occurrences (max %d)' % (case_dots(case), JAIL_UP))
    for c in case['classes']:
        # valid_class_name drops the first character of 'X...;', so a '/' in second position counts as leading too
        for s in [c['name'], c['name'][1:]] + [me['name'] for me in c['methods']]:
            if (s.startswith('/') and not s.lstrip('/').startswith(J + '/esc')) or (J in s and _dots(s) > 2):
                raise HarnessError('unsafe case: absolute-looking name %r does not point into the jail' % (s,))


def hostile_class(name):
    segs = _segments(name)
    return J in name or any(s in ('', '.', '..') for s in segs)


def build_dex(case, jail):
    jp = jail.lstrip('/')

    def sub(s):
        return s.replace(J, jp)
    classes = []
    for c in case['classes']:
        dm = []
        for me in c['methods']:
            n = len(me['params'])
            dm.append(dg.Method(sub(me['name']), 'V', tuple(sub(p) for p in me['params']), 0x9,
                                dg.Code(max(1, n), n, 0, b'\x0e\x00')))
        classes.append(dg.Class(sub(c['name']), dmethods=dm))
    return dg.DexFile(classes).build()


def _walk(base):
    out = set()
    for root, dirs, files in os.walk(base):
        for n in dirs + files:
            out.add(os.path.relpath(os.path.join(root, n), base))
    return out


@contextlib.contextmanager
def _rundir():
    created = False
    if _RUN['dir'] is None:
        # tmpfs when there is one (thousands of tiny sqlite files and directories per run), else the default temp dir
        parent = next((d for d in (os.environ.get('VERIF_TMP'), '/dev/shm') if d and os.path.isdir(d)
                       and os.access(d, os.W_OK | os.X_OK)), None)
        _RUN['dir'] = tempfile.mkdtemp(prefix='vfc37-', dir=parent)
        created = True
    try:
        yield _RUN['dir']
    finally:
        if created:
            shutil.rmtree(_RUN['dir'], ignore_errors=True)
            _RUN['dir'] = None


def run_case(ctx, case):
    check_safe(case)
    with _rundir() as rd:
        _RUN['n'] += 1
        base = os.path.join(rd, 's%d' % ctx.shard_index, 'c%06d' % _RUN['n'])
        os.makedirs(base)
        try:
            _run_in(ctx, case, base)
        finally:
            shutil.rmtree(base, ignore_errors=True)


def _features(case):
    f = set()
    for c in case['classes']:
        n = c['name']
        segs = _segments(n)
        if '..' in segs:
            f.add('cls:dotdot')
        if '.' in segs:
            f.add('cls:dot')
        if '' in segs[1:-1] or (len(segs) > 1 and segs[0] == ''):
            f.add('cls:empty')
        if J in n:
            f.add('cls:abs')
        if len(segs) > 1 and segs[-1] == '':
            f.add('cls:trailing-slash')
        if any(len(s) >= 120 for s in segs):
            f.add('cls:long')
        if '\\' in n:
            f.add('cls:backslash')
        if not (n.startswith('L') and n.endswith(';')):
            f.add('cls:raw-descriptor')
        if _dots(n) and '..' not in segs:
            f.add('cls:dots-inside-segment')
        if not hostile_class(n) and all(s.replace('$', '').replace('_', '').isalnum() and s.isascii() for s in segs):
            f.add('cls:benign')
        for me in c['methods']:
            if '/' in me['name']:
                f.add('meth:sep')
            if _dots(me['name']):
                f.add('meth:dots')
            if me['params']:
                f.add('meth:params')
            if len(me['name']) >= 120:
                f.add('meth:long')
    if case.get('shape'):
        f.add('shape:' + case['shape'])
    if case['form']:
        f.add('opt:form-' + case['form'])
    if case['filter']:
        f.add('opt:filter')
    if case['relout']:
        f.add('opt:relative-output')
    return f


def _run_in(ctx, case, base):
    from androguard.session import Session
    from androguard.cli.main import export_apps_to_format

    jail = os.path.join(base, 'jail')
    cwd = os.path.join(base, CWD_REL)
    out_abs = os.path.join(base, OUT_REL)
    os.makedirs(cwd)
    data = build_dex(case, jail)
    dexpath = os.path.join(jail, 'in.dex')
    with open(dexpath, 'wb') as f:
        f.write(data)

    feats = _features(case)
    labels = set(feats)
    key = repr((sorted((c['name'], tuple((m['name'], tuple(m['params'])) for m in c['methods'])) for c in case['classes']),
                [c['name'] for c in case['classes']], case['form'], case['filter'], case['relout']))
    sample = {'classes': [(c['name'], [m['name'] for m in c['methods']]) for c in case['classes']],
              'form': case['form'], 'filter': case['filter'], 'relout': case['relout']}

    prev_cwd = os.getcwd()
    prev_stdin = sys.stdin
    buf = io.StringIO()
    sess = None
    exc = None
    os.chdir(cwd)
    sys.stdin = io.StringIO('')
    try:
        sess = Session(db_url='sqlite:///' + os.path.join(jail, 's.db'))
        try:
            with contextlib.redirect_stdout(buf), contextlib.redirect_stderr(buf):
                digest = sess.add(dexpath, data)
        except Exception as e:                      # androguard could not load this DEX: nothing to export
            ctx.case(nontrivial=False, key=key, labels=sorted(labels | {'outcome:add-exception:' + type(e).__name__}),
                     sample=sample)
            return
        if digest is None:
            raise HarnessError('generated file not recognised as DEX')
        before = _walk(base)
        try:
            with contextlib.redirect_stdout(buf), contextlib.redirect_stderr(buf):
                export_apps_to_format(dexpath, sess, 'out' if case['relout'] else out_abs,
                                      case['filter'], False, None, case['form'])
        except Exception as e:
            exc = e
        after = _walk(base)
    finally:
        sys.stdin = prev_stdin
        os.chdir(prev_cwd)
        if sess is not None:
            sess.db.close()

    new = sorted(p for p in after - before if not p.startswith('jail/s.db'))
    files = [p for p in new if not os.path.isdir(os.path.join(base, p))]
    outside = [p for p in new if not (p == OUT_REL or p.startswith(OUT_REL + '/'))]
    labels.add('outcome:ok' if exc is None else 'outcome:exception:' + type(exc).__name__)
    labels.add('files:0' if not files else 'files:1-3' if len(files) <= 3 else 'files:4+')
    hostile = any(hostile_class(c['name']) for c in case['classes'])
    if OUT_REL not in after:
        labels.add('no-output-dir')
    ctx.case(nontrivial=hostile and bool(files), key=key, labels=sorted(labels), sample=sample)
    if outside:
        cls_dots = any(_dots(c['name']) for c in case['classes'])
        meth_sep = any('/' in m['name'] for c in case['classes'] for m in c['methods'])
        feat = '+'.join(x for x, on in (('class-dots', cls_dots), ('method-sep', meth_sep)) if on) or 'other'
        origin = 'class-path' if any(os.path.isdir(os.path.join(base, p)) or p.endswith('.java') for p in outside) \
            else 'method-file'
        where = 'outside-jail' if any(not p.startswith('jail/') for p in outside) else 'outside-out'
        msg = 'created outside the output directory %s: %r (classes %r, methods %r%s)' % (
            OUT_REL, outside[:6], [c['name'] for c in case['classes']],
            [m['name'] for c in case['classes'] for m in c['methods']],
            '' if exc is None else ', then raised %s' % ''.join(traceback.format_exception_only(type(exc), exc)).strip())
        ctx.fail('%s:%s:%s' % (where, origin, feat), dict(case, observed_outside=outside[:10]), msg)


# ------------------------------------------------------------------------------------ strategies

IDENTS = ['a', 'b', 'C', 'pkg', 'Foo', 'x1', 'Main', 'R$id', 'com', 'example', 'evil', 'T_0']
ident = st.sampled_from(IDENTS)
ODD = ' \\<>:"|?*.-~\t\x01$;=,@#%&+\'()[]\u00e9\u00df\u4e2d\u202e\x7f\x00'
SPECIAL = ['...', '....', '.. ', ' ..', '..x', 'x..', '.hidden', '..;', '..\\', '..\\..', 'a\\..\\b', '\\', '%2e%2e',
           '~', 'CON', 'NUL', 'com1.txt', ' ', '. .', '.\u2024', '\uff0e\uff0e', '-', '-rf', '$(x)', '`x`',
           'out', 'outx', 'out.bak', 'd4']          # siblings of the output directory (prefix-comparison containment checks)
BYPASS = ['....//', '..././', '.../...//', '..;/', './/..//', '..\\/', '%2e%2e/', '..%2f/', '....\\\\/', './../', '..//',
          '../.././', '.\x00./']
long_seg = st.tuples(st.sampled_from(['x', 'Ab', '\u00e9', '\u4e2d']),
                     st.sampled_from([120, 200, 230, 250, 255, 256, 300, 1000])).map(lambda t: (t[0] * t[1])[:t[1]])
odd_seg = st.text(alphabet=ODD + 'abXY09_', min_size=1, max_size=6)
core_seg = st.one_of(ident, ident, ident, st.just('..'), st.just('..'), st.just('..'), st.just('.'), st.just(''),
                     st.sampled_from(SPECIAL), odd_seg)
# an over-long component makes the OS refuse the path and ends the export: keep it to ~3% of the segments
seg = st.one_of(*([core_seg] * 7 + [st.one_of(core_seg, core_seg, core_seg, long_seg)]))
PARAMS = ['L../../p;', 'La/../b;', 'L..;', '[L../x;', 'I', 'Ljava/lang/String;', '[[J', 'L/x;']


def absify(body):
    """a name that begins with '/' continues with the jail path (sandbox safety)"""
    n = len(body) - len(body.lstrip('/'))
    if n == 0:
        return body
    rest = body[n:]
    return '/' * n + J + '/esc' + ('/' + rest if rest else '')


def limit_dots(s, budget):
    while _dots(s) > budget:
        i = s.rfind('..')
        s = s[:i] + '_' + s[i + 2:]
    return s


@st.composite
def class_name(draw):
    kind = draw(st.sampled_from(['std'] * 7 + ['abs'] * 2 + ['raw', 'bypass', 'sibling'] + ['benign'] * 2))
    if kind == 'benign':
        return 'L' + '/'.join(draw(st.lists(ident, min_size=1, max_size=4))) + ';'
    if kind == 'sibling':
        # down k, up k+1, then a name that has the output directory's name as a prefix (next to it, not inside it)
        down = draw(st.lists(ident, min_size=0, max_size=2))
        sib = 'out' + draw(st.sampled_from(['x', '.bak', '2', '_', ' ', '-evil']))
        return 'L' + '/'.join(down + ['..'] * (len(down) + 1) + [sib] + draw(st.lists(ident, min_size=0, max_size=2))) + ';'
    if kind == 'bypass':
        body = ''.join(draw(st.lists(st.sampled_from(BYPASS), min_size=1, max_size=3))) + draw(ident)
        if draw(st.booleans()):
            body = draw(ident) + '/' + body
        return 'L' + absify(body) + ';'
    if kind == 'abs':
        body = '/' * draw(st.integers(1, 3)) + '/'.join(draw(st.lists(seg, min_size=0, max_size=3)))
        return 'L' + limit_dots(absify(body), 2) + ';'
    body = '/'.join(draw(st.lists(seg, min_size=1, max_size=5)))
    body = absify(body)
    if J in body:
        body = limit_dots(body, 2)
    if kind == 'raw':
        name = draw(st.sampled_from(['%s', 'L%s', '%s;', 'X%s;'])) % body
        # valid_class_name drops the first character of '...;': keep what follows it pointing into the jail, too
        return name if J in name else name[:1] + absify(name[1:])
    return 'L' + body + ';'


@st.composite
def method_name(draw):
    kind = draw(st.sampled_from(['benign'] * 4 + ['sep'] * 4 + ['one'] * 2))
    if kind == 'benign':
        return draw(st.sampled_from(['m', 'run', '<init>', '<clinit>', 'get', 'a']))
    if kind == 'one':
        return draw(seg)
    body = absify('/'.join(draw(st.lists(seg, min_size=2, max_size=4))))
    return limit_dots(body, 2) if J in body else body


method = st.tuples(method_name(), st.one_of(st.just([]), st.just([]), st.just([]), st.just([]), st.just([]),
                                            st.lists(st.sampled_from(PARAMS), min_size=1, max_size=2)))


@st.composite
def general_classes(draw):
    names = draw(st.lists(class_name(), min_size=1, max_size=3, unique=True))
    classes = []
    for n in names:
        ms = draw(st.lists(method, min_size=1, max_size=3, unique_by=lambda t: t[0]))
        budget = JAIL_UP
        n = limit_dots(n, budget if J not in n else 2)
        left = budget - _dots(n)
        meths = []
        for (mn, ps) in ms:
            mn = limit_dots(mn, min(left, 2) if J in mn else left)
            l2 = left - _dots(mn)
            ps2 = []
            for p in ps:
                p = limit_dots(p, l2)
                l2 -= _dots(p)
                ps2.append(p)
            meths.append({'name': mn, 'params': ps2})
        if len({m['name'] for m in meths}) != len(meths):     # limit_dots made two names equal (rare)
            meths = meths[:1]
        classes.append({'name': n, 'methods': meths})
    if len({c['name'] for c in classes}) != len(classes):
        classes = classes[:1]
    return {'classes': classes, 'shape': None}


@st.composite
def helper_classes(draw):
    """victim Lp/C; with method '<w>/../../x' and helper classes whose directories are out/p/C/'C <w>' (what the first
    component of the method's file name is when nothing is cleaned) and/or out/p/C/'C <w>_..' (what it is when only the
    first separator is replaced): a method name traverses only through a directory that exists."""
    pkg = draw(st.lists(ident, min_size=0, max_size=2))
    last = draw(ident)
    w = draw(st.one_of(ident, st.sampled_from(['w w', '-', '..', '1'])))
    ups = draw(st.integers(0, JAIL_UP - _dots(w)))
    tail = draw(st.lists(ident, min_size=1, max_size=2))
    comps = [w] + ['..'] * ups + tail
    victim = 'L' + '/'.join(pkg + [last]) + ';'
    joins = draw(st.sampled_from([[1], [1], [1], [2], [1, 2]]))
    glue = draw(st.sampled_from(['_', '_', '_', '-', '\\']))
    classes = []
    for j in joins:
        d = last + ' ' + glue.join(comps[:j])
        helper = 'L' + '/'.join(pkg + [last, d] + (['Sub'] if draw(st.booleans()) else [])) + ';'
        classes.append({'name': limit_dots(helper, JAIL_UP), 'methods': [{'name': 'm', 'params': []}]})
    vm = [{'name': '/'.join(comps), 'params': []}]
    if draw(st.booleans()):
        vm.append({'name': 'm', 'params': []})
    classes.append({'name': victim, 'methods': vm})
    if draw(st.integers(0, 4)) == 0:
        classes.reverse()
    return {'classes': classes, 'shape': 'helper-dir'}


def case_strategy():
    opts = st.tuples(st.sampled_from([None, None, 'raw']),
                     st.sampled_from([None, None, None, None, None, '.', 'm', '^L', r'\(\)V$', 'zzz-no-match']),
                     st.booleans())

    def mk(t):
        c = dict(t[0])
        c['form'], c['filter'], c['relout'] = t[1]
        return c
    return st.tuples(st.one_of(general_classes(), general_classes(), general_classes(), general_classes(),
                               helper_classes()), opts).map(mk)


# ------------------------------------------------------------------------------------ entry points

def _m(name, params=()):
    return {'name': name, 'params': list(params)}


def _c(classes, form=None, flt=None, relout=False, shape='fixed'):
    return {'classes': [{'name': n, 'methods': [m if isinstance(m, dict) else _m(m) for m in ms]} for n, ms in classes],
            'shape': shape, 'form': form, 'filter': flt, 'relout': relout}


FIXED = [
    _c([('La/b/C;', ['m', '<init>'])]),
    _c([('La/b/C;', ['m'])], form='raw', relout=True),
    _c([('L../../evil;', ['m'])]),
    _c([('L../../evil;', ['m'])], form='raw', relout=True),
    _c([('L..;', ['m'])]),
    _c([('L.;', ['m'])]),
    _c([('L;', ['m'])]),
    _c([('La/../../../b;', ['m'])]),
    _c([('La/./b;', ['m'])]),
    _c([('La//b;', ['m'])]),
    _c([('La/b/;', ['m'])]),
    _c([('L//' + J + '/esc/a;', ['m'])]),
    _c([('L/' + J + '/esc;', ['m'])]),
    _c([('/' + J + '/esc/raw', ['m'])]),
    _c([('../../x', ['m'])]),
    _c([('L../../x', ['m'])]),
    _c([('../../x;', ['m'])]),
    _c([('L....//....//x;', ['m'])]),
    _c([('L..././..././x;', ['m'])]),
    _c([('La\\..\\..\\b;', ['m', '..', '.', 'a/b', '../x'])]),
    _c([('La/' + 'x' * 300 + ';', ['m'])]),
    _c([('La/' + 'x' * 255 + ';', ['m'])]),
    _c([('La/b;', ['m' * 300, 'n' * 225])]),
    _c([('Lp/C/C x;', ['m']), ('Lp/C;', ['x/../../../../evil'])]),
    _c([('Lp/C/C x;', ['m']), ('Lp/C;', ['x/../../../../evil'])], form='raw', relout=True),
    _c([('Lp/C/C x/Sub;', ['m']), ('Lp/C;', ['x/../../../../../evil', 'm'])]),
    _c([('LC/C ..;', ['m']), ('LC;', ['../../../x'])]),
    _c([('Lp/C/C x_..;', ['m']), ('Lp/C;', ['x/../../../../../evil'])]),
    _c([('Lp/C/C x_..;', ['m']), ('Lp/C/C x;', ['m']), ('Lp/C;', ['x/../../../../../evil'])], form='raw'),
    _c([('La/b;', [_m('m', ['L../../p;']), _m('n', ['[L../x;', 'I'])])]),
    _c([('L../a;', ['../b', 'c/../../d'])], flt='.'),
    _c([('L../a;', ['m']), ('Lb/c;', ['m'])], flt='^Lb'),
    _c([('L../outx/a;', ['m'])]),
    _c([('L../out.bak;', ['m'])], relout=True),
]


def shards(tier, seed):
    n = 16 if tier == 'quick' else 32
    return [('fixed',)] + [('hyp', k) for k in range(n)]


def run_shard(ctx, shard):
    with _rundir():
        if shard[0] == 'fixed':
            for case in FIXED:
                run_case(ctx, case)
            return
        n = 300 if ctx.tier == 'quick' else 4000
        hyp_collect(ctx, case_strategy(), run_case, n, salt=shard[1], shrink_examples=60)


def replay(ctx, case):
    case = {k: v for k, v in case.items() if k != 'observed_outside'}
    case.setdefault('shape', None)
    for k in ('form', 'filter'):
        case.setdefault(k, None)
    case.setdefault('relout', False)
    run_case(ctx, case)
