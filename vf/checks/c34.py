"""C34 — APK file access returns the archive's entries.

Statement: for every APK, the listed file names are the archive entries, reading an entry returns its uncompressed
content, a missing entry raises FileNotPresent, and the DEX listing and multidex flag reflect exactly the root-level
classes*.dex entries.

Generator: vf.gen.zipgen (Python zipfile writer; stored/deflated members, nested and non-ASCII names, empty files,
directory entries, streamed archives with data descriptors, zipalign-style padding, EOCD comments) with 0..5 official
DEX members and 0..4 near-miss names from a small grammar around the pattern. The model is the entry list itself.
Oracle (reference = the entry list that was written):
  get_files()            == the member names                         (as a multiset; no order is asserted)
  get_file(n)            == the member's content, for every member
  get_file(missing)      raises FileNotPresent                       (names derived from the archive + fixed ones)
  get_dex_names()        == members whose whole name is classes.dex or classes<ASCII digits>.dex at the root
  get_all_dex()          == their contents
  is_multidex()          <=> more than one of them
"classes<digits>.dex" is androguard's own documented reading of classes*.dex (get_dex_names docstring) and Android's
multidex naming; names with non-ASCII decimal digits are not generated (unspecified).
"""
import os
import re
import tempfile
import traceback

from hypothesis import strategies as st

from vf.core.runner import hyp_collect
from vf.gen import zipgen as z

PROPERTY = 'C34'
LEVEL = 'exploration'
RULE = ('archives written by vf.gen.zipgen from an entry list (0..8 plain members with nested/non-ASCII names, directory '
        'entries, empty files, stored+deflated; 0..5 official DEX members; 0..4 near-miss DEX names: dot replaced, nested, '
        'suffix, trailing newline, infix, case, prefix, truncated), random zip options (data descriptors, alignment, '
        'comment), opened as raw bytes / raw with skip_analysis / from a path, with or without a minimal manifest; plus a '
        'deterministic sweep of a 440-name DEX-name grammar (each name alone and next to classes.dex / classes2.dex). '
        'non-trivial = at least 2 members and at least one DEX-like name (official or near miss); distinct = archive bytes + open mode')
ASSUMPTIONS = [
    'vf/gen/zipgen.py (Python zipfile as writer; every archive is re-read with zipfile and compared with the model before use)',
    'official DEX member = whole name matches classes[0-9]*\\.dex at the archive root (androguard docstring / Android multidex naming)',
    'names with non-ASCII decimal digits in the numeric suffix, duplicate member names and EOCD comments containing PK\\x05\\x06 are not generated',
    'order of get_files()/get_dex_names() is not asserted',
]
EXHAUSTIVE = False

MODES = ['raw', 'raw', 'skip', 'path']
_NODOT = re.compile(r'classes[0-9]*.dex', re.ASCII | re.DOTALL)


def shape(name):
    """coarse class of a non-DEX name (for buckets)"""
    if name.endswith('\n') and z.is_root_dex_name(name[:-1]):
        return 'newline'
    if '/' in name:
        return 'nested'
    if _NODOT.fullmatch(name):
        return 'nodot'
    if name.lower().startswith('classes'):
        return 'classes-other'
    return 'other'


def missing_names(entries):
    """deterministic list of (kind, name) that are NOT members of the archive"""
    names = {e[0] for e in entries}
    out = [('fixed', 'nope'), ('fixed', 'classes.dex'), ('fixed', 'AndroidManifest.xml'), ('empty', ''),
           ('fixed', 'classes2.dex'), ('fixed', 'é/中.txt'), ('fixed', '/'), ('fixed', 'META-INF/MANIFEST.MF')]
    for n in sorted(names)[:6]:
        out.append(('suffix', n + 'x'))
        out.append(('prefix', n[:-1]))
        out.append(('case', n.swapcase()))
        if '/' in n.rstrip('/'):
            d = n.rstrip('/').rsplit('/', 1)[0]
            out.append(('dir', d))
            out.append(('dir', d + '/'))
            out.append(('base', n.rstrip('/').rsplit('/', 1)[1]))
        if not n.endswith('/'):
            out.append(('slash', n + '/'))
            out.append(('dot', './' + n))
    seen, res = set(), []
    for k, n in out:
        if n not in names and n not in seen:
            seen.add(n)
            res.append((k, n))
    return res


def open_apk(zbytes, mode, tmpdir=None):
    from androguard.core.apk import APK
    if mode == 'raw':
        return APK(zbytes, raw=True)
    if mode == 'skip':
        return APK(zbytes, raw=True, skip_analysis=True)
    if mode == 'path':
        own = None
        if tmpdir is None:
            own = tempfile.TemporaryDirectory(prefix='vf-c34-')
            tmpdir = own.name
        try:
            p = os.path.join(tmpdir, 'case.apk')
            with open(p, 'wb') as f:
                f.write(zbytes)
            return APK(p)
        finally:
            if own is not None:
                own.cleanup()
    raise ValueError(mode)


def check_archive(ctx, entries, zbytes, mode, labels=(), tmpdir=None):
    from androguard.core.apk import FileNotPresent
    entries = [(e[0], bytes(e[1]), e[2]) for e in entries]
    z.self_check(zbytes, entries)                               # generator bug -> propagates (harness error)
    names = [e[0] for e in entries]
    if any(z.dex_name_unspecified(n) for n in names):
        ctx.count('skipped_unspecified_dex_name')
        return
    exp_dex = [e for e in entries if z.is_root_dex_name(e[0])]
    near = [n for n in names if not z.is_root_dex_name(n) and shape(n) != 'other']
    case = {'entries': [list(e) for e in entries], 'zip': zbytes, 'mode': mode}
    ctx.case(nontrivial=(len(entries) >= 2 and bool(exp_dex or near)), key=(mode, zbytes),
             labels=['mode:' + mode, 'dex:%d' % min(len(exp_dex), 3), 'members:%s' % ('0' if not entries else '1-3' if len(entries) < 4 else '4+')]
             + ['near:' + l for l in sorted(labels)]
             + (['non-ascii-name'] if any(ord(c) > 127 for n in names for c in n) else [])
             + (['dir-entry'] if any(n.endswith('/') for n in names) else [])
             + (['empty-file'] if any(not e[1] and not e[0].endswith('/') for e in entries) else [])
             + (['deflated'] if any(e[2] == z.DEFLATED for e in entries) else []),
             sample={'names': names, 'mode': mode, 'expected_dex': [e[0] for e in exp_dex], 'zip_len': len(zbytes)})

    try:
        a = open_apk(zbytes, mode, tmpdir)
    except Exception as e:
        ctx.fail('exception:%s:open:%s' % (type(e).__name__, mode), case, traceback.format_exc())
        return

    # 1. listing
    try:
        files = list(a.get_files())
    except Exception as e:
        ctx.fail('exception:%s:get_files' % type(e).__name__, case, traceback.format_exc())
        return
    ctx.check(sorted(files) == sorted(names), 'files', case, 'get_files()=%r, archive members=%r' % (files, names))

    # 2. contents
    for (n, data, method) in entries:
        kind = 'dir' if n.endswith('/') else ('empty' if not data else 'data')
        try:
            got = a.get_file(n)
        except Exception as e:
            ctx.fail('exception:%s:get_file:%s:%s' % (type(e).__name__, 'deflated' if method else 'stored', kind), dict(case, name=n),
                     'get_file(%r): %s' % (n, traceback.format_exc()))
            continue
        ctx.check(bytes(got) == data, 'content:%s:%s' % ('deflated' if method else 'stored', kind), dict(case, name=n),
                  'get_file(%r) returned %d bytes %r..., member holds %d bytes %r...' % (n, len(got), bytes(got[:16]), len(data), data[:16]))

    # 3. missing members
    for kind, n in missing_names(entries):
        try:
            got = a.get_file(n)
        except FileNotPresent:
            continue
        except Exception as e:
            ctx.fail('missing:%s:raised:%s' % (kind, type(e).__name__), dict(case, name=n),
                     'get_file(%r) for a name that is not a member raised %r instead of FileNotPresent' % (n, e))
            continue
        ctx.fail('missing:%s:returned' % kind, dict(case, name=n),
                 'get_file(%r) for a name that is not a member returned %r...' % (n, bytes(got[:16])))

    # 4. DEX listing
    exp_names = sorted(e[0] for e in exp_dex)
    wrong = 'unknown'                       # shapes of the names wrongly listed as DEX (coarse root-cause class)
    try:
        got_names = list(a.get_dex_names())
        extra = sorted(set(got_names) - set(exp_names))
        miss = sorted(set(exp_names) - set(got_names))
        wrong = '+'.join(sorted({shape(n) for n in extra})) or 'none'
        for n in extra:
            ctx.fail('dexnames:extra:' + shape(n), dict(case, name=n),
                     'get_dex_names() lists %r, which is not a root-level classes<digits>.dex member (all: %r)' % (n, got_names))
        for n in miss:
            ctx.fail('dexnames:missing', dict(case, name=n), 'get_dex_names()=%r lacks the member %r' % (got_names, n))
        if not extra and not miss:
            ctx.check(sorted(got_names) == exp_names, 'dexnames:multiplicity', case, 'get_dex_names()=%r expected %r' % (got_names, exp_names))
    except Exception as e:
        ctx.fail('exception:%s:get_dex_names' % type(e).__name__, case, traceback.format_exc())
    try:
        got_dex = [bytes(b) for b in a.get_all_dex()]
        exp_data = sorted(e[1] for e in exp_dex)
        if sorted(got_dex) != exp_data:
            why = 'count' if len(got_dex) != len(exp_data) else 'content'
            ctx.fail('alldex:%s:listed-%s' % (why, wrong), case,
                     'get_all_dex() yields %d items %r, the official DEX members hold %r' % (len(got_dex), [d[:12] for d in got_dex], [d[:12] for d in exp_data]))
    except Exception as e:
        ctx.fail('exception:%s:get_all_dex' % type(e).__name__, case, traceback.format_exc())

    # 5. multidex flag
    try:
        md = a.is_multidex()
        exp_md = len(exp_dex) > 1
        if md is not exp_md:
            near_shapes = '+'.join(sorted({shape(n) for n in names if not z.is_root_dex_name(n)} & {'nodot', 'newline'})) or 'none'
            ctx.fail('multidex:expected-%s:near-%s' % (exp_md, near_shapes), case,
                     'is_multidex()=%r with %d official DEX members %r among %r' % (md, len(exp_dex), exp_names, names))
    except Exception as e:
        ctx.fail('exception:%s:is_multidex' % type(e).__name__, case, traceback.format_exc())


# ------------------------------------------------------------------------------------------------

@st.composite
def archive_cases(draw, big=False):
    entries, labels = draw(z.entry_lists(max_size=4000 if big else 600))
    opts = draw(z.zip_options)
    mode = draw(st.sampled_from(MODES))
    manifest = draw(st.sampled_from(['none', 'first', 'last', 'last']))
    if manifest != 'none' and all(e[0] != z.MANIFEST_NAME for e in entries):
        m = (z.MANIFEST_NAME, z.MINIMAL_MANIFEST, draw(z.methods))
        entries = [m] + entries if manifest == 'first' else entries + [m]
    return entries, sorted(labels), opts, mode


def shards(tier, seed):
    sh = [('grammar', k) for k in range(4)]
    n = 8 if tier == 'quick' else 16
    sh += [('hyp', k) for k in range(n)]
    return sh


def run_shard(ctx, shard):
    if shard[0] == 'grammar':
        g = z.dex_grammar()
        part = [t for i, t in enumerate(g) if i % 4 == shard[1]]
        filler = ('res/é.bin', b'\x00\x01' * 20, z.DEFLATED)
        for lab, n in part:
            data = b'' if n.endswith('/') else b'dex\n035\x00' + n.encode('utf-8')
            me = (n, data, z.STORED)
            combos = [[me], [filler, me], [me, ('classes.dex', b'dex\n035\x00main', z.DEFLATED)],
                      [('classes2.dex', b'dex\n035\x00two', z.STORED), me, filler],
                      [('classes.dex', b'dex\n038\x00main', z.STORED), ('classes2.dex', b'dex\n035\x00two', z.DEFLATED), me]]
            for i, entries in enumerate(combos):
                if len({e[0] for e in entries}) != len(entries):
                    continue
                zb = z.build_zip(entries)
                check_archive(ctx, entries, zb, 'skip' if i % 2 else 'raw', labels=[] if lab == 'dex' else [lab])
        return
    n = 500 if ctx.tier == 'quick' else 2500
    with tempfile.TemporaryDirectory(prefix='vf-c34-') as tmp:
        def fn(c, v):
            entries, labels, opts, mode = v
            zb = z.build_zip(entries, **opts)
            c.label(*['opt:dd' if opts['data_descriptors'] else 'opt:seekable'] + (['opt:align'] if opts['align'] else [])
                    + (['opt:comment'] if opts['comment'] else []))
            check_archive(c, entries, zb, mode, labels, tmpdir=tmp)
        hyp_collect(ctx, archive_cases(big=(ctx.tier != 'quick' and shard[1] % 4 == 0)), fn, n, salt=shard[1],
                    shrink=(shard[1] < 2), shrink_examples=120)    # all shards collect, the first two also shrink


def replay(ctx, case):
    check_archive(ctx, [tuple(e) for e in case['entries']], case['zip'], case.get('mode', 'raw'))
