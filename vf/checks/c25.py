"""C25 — merged short-circuit conditions route control as the original branches did.

Every graph of k = 2, 3 (and 4) `CondBlock`s whose true/false edges lead to later conditions or to one of the
exits E0, E1, E2 (entry first, acyclic among the conditions, every condition reachable) - and, for k = 2, 3, every
such graph that additionally has loops (branches to the same or an earlier condition, including back to the entry,
i.e. a method that starts with a loop header) - is built as a real `Graph`; `control_flow.short_circuit_struct` is run on it the way `identify_structures` calls it; every
remaining condition node is printed through the real `Writer` (`visit_cond` -> `Condition.visit` ->
`Writer.visit_short_circuit_condition`), both as it is and after the `neg()` + true/false swap that
`Writer.visit_cond_node` / `visit_loop_node` apply before printing - for every subset of the remaining nodes.

Oracle: for every combination of branch outcomes, the exit reached by walking the *original* chain (on the plain
edge table, no androguard object involved) equals the exit reached by walking the rewritten graph when the
*printed text* of each node, evaluated by vf.model.boolexpr, selects `node.true` / `node.false`.  Outcomes are
fixed per condition, so in a graph with loops a walk that comes back to a condition never leaves: both walks then
have the result LOOP.

Two kinds of leaf condition:
  stub  - `neg()` toggles a flag and `visit()` prints cN / !cN (the design's instance space);
  condz - real `ConditionalZExpression(op, Param)` instructions (int compared with 0 for the six operators, boolean
          parameters for == / !=): branch outcomes are induced by the values -1/0/1 (false/true), so the operator
          negation table used while printing is inside the loop as well.
"""
import itertools
import traceback
from vf.model import boolexpr

PROPERTY = 'C25'
LEVEL = 'exploration'
RULE = ('exhaustive: all graphs of k=2,3,4 conditions (thorough: k=5 too, with none/all nodes negated) with '
        'true/false targets among later conditions and exits E0..E2 (both branches may coincide), all conditions reachable; '
        'plus all k=2,3 graphs that also have loops (branches to the same or an earlier condition, the entry included; '
        'thorough: k=4 with loops that avoid the entry; a walk that revisits a condition counts as the outcome LOOP); '
        'each with every subset of the post-merge condition nodes negated+swapped as the writer does; each judged on all '
        '2^k branch-outcome combinations (stub leaves) and, for k<=3, on all value combinations of real ConditionalZExpression '
        'leaves with rotating operators. non-trivial = at least one merge happened; distinct = (leaf kind, k, edge table, '
        'negated subset, operators)')
ASSUMPTIONS = ['printed conditions are read with Java precedence by vf/model/boolexpr.py; text outside that grammar is reported '
               'as a failure (it could not select a successor)',
               'the stub leaf implements only neg()/visit()/get_used_vars()/get_lhs(); condz leaves are androguard\'s own '
               'ConditionalZExpression over Param operands of type I or Z',
               'short_circuit_struct is called as identify_structures does: after compute_rpo(), with '
               'graph.immediate_dominators() and an empty node_map',
               'the negate+swap applied by Writer.visit_cond_node/visit_loop_node is reproduced literally '
               '(node.neg(); node.true, node.false = node.false, node.true) rather than driven through a whole-method writer run']
EXHAUSTIVE = True

NEXITS = 3
OPS_I = ['==', '!=', '<', '>=', '>', '<=']
LEAFS = [('I', op) for op in OPS_I] + [('Z', '=='), ('Z', '!=')]
REL = {'==': lambda a: a == 0, '!=': lambda a: a != 0, '<': lambda a: a < 0, '>=': lambda a: a >= 0,
       '>': lambda a: a > 0, '<=': lambda a: a <= 0}


class StubCond:
    """Leaf conditional: neg() toggles, visit() prints cN or !cN."""

    def __init__(self, name):
        self.name = name
        self.negated = False

    def neg(self):
        self.negated = not self.negated

    def visit(self, writer):
        writer.write(('!' if self.negated else '') + self.name)

    def get_used_vars(self):
        return []

    def get_lhs(self):
        return None


# -- instance space -----------------------------------------------------------------------

def tables(k, first=None):
    """all edge tables: tuple over conditions i of (true_target, false_target); targets i+1..k-1 are later
    conditions, k..k+2 the exits.  Only tables in which every condition is reachable from condition 0.
    first: restrict to the tables whose entry condition has this (true, false) pair (used for sharding)."""
    per = []
    for i in range(k):
        targets = list(range(i + 1, k + NEXITS))
        per.append([(t, f) for t in targets for f in targets])
    if first is not None:
        per[0] = [tuple(first)]
    for table in itertools.product(*per):
        seen = {0}
        for i in range(k):
            if i in seen:
                seen.update(x for x in table[i] if x < k)
        if len(seen) == k:
            yield table


def tables_cyclic(k, first=None, entry_pred=False):
    """edge tables with loops, every condition reachable, tables already produced by tables(k) left out.
    entry_pred=False: conditions 1..k-1 may also branch to themselves and to earlier conditions other than the entry
                      (condition 0 keeps no predecessor inside the graph);
    entry_pred=True : the complement - at least one branch leads back to condition 0, i.e. the method entry is a
                      loop header (it is reached from outside the graph *and* from a condition)."""
    lo = 0 if entry_pred else 1
    per = [[(t, f) for t in range(lo, k + NEXITS) for f in range(lo, k + NEXITS)]] * k
    if first is not None:
        per = [[tuple(first)]] + per[1:]
    for table in itertools.product(*per):
        if all(t > i and f > i for i, (t, f) in enumerate(table)):
            continue
        if entry_pred and not any(0 in e for e in table):
            continue
        seen, todo = {0}, [0]
        while todo:
            i = todo.pop()
            for x in table[i]:
                if x < k and x not in seen:
                    seen.add(x)
                    todo.append(x)
        if len(seen) == k:
            yield table


def walk_table(k, table, outcomes, split=None):
    """reference walk over the original chain: outcomes[i] is the branch outcome of condition i.  With fixed
    outcomes, coming back to a condition means control never leaves: the result is then 'LOOP'.  With a statement
    block on one edge (split) the result also says whether that block is executed on the way ('+S')."""
    at, seen, s = 0, set(), False
    while at < k:
        if at in seen:
            return 'LOOP' + ('+S' if s else '')
        seen.add(at)
        side = 0 if outcomes[at] else 1
        if split is not None and tuple(split) == (at, side):
            s = True
        at = table[at][side]
    return 'E%d' % (at - k) + ('+S' if s else '')


def leaf_envs(k, leafs):
    """all value combinations -> (env for the printed text, branch outcomes of the original conditions)"""
    if leafs is None:
        for bits in itertools.product((False, True), repeat=k):
            yield {'c%d' % i: bits[i] for i in range(k)}, bits
        return
    doms = [(-1, 0, 1) if t == 'I' else (0, 1) for t, _ in leafs]
    for vals in itertools.product(*doms):
        env = {'p%d' % i: (vals[i] if leafs[i][0] == 'I' else bool(vals[i])) for i in range(k)}
        yield env, tuple(REL[leafs[i][1]](vals[i]) for i in range(k))


def build(k, table, leafs, split=None):
    """split=(i, side): the edge leaving condition i on its true (0) / false (1) side passes through a statement block
    (a loop body or a block between two tests) before it reaches its target."""
    from androguard.decompiler.graph import Graph
    from androguard.decompiler.basic_blocks import CondBlock, ReturnBlock, StatementBlock
    g = Graph()
    if leafs is None:
        conds = [CondBlock('c%d' % i, [StubCond('c%d' % i)]) for i in range(k)]
    else:
        from androguard.decompiler.instruction import ConditionalZExpression, Param
        conds = [CondBlock('c%d' % i, [ConditionalZExpression(leafs[i][1], Param(i, leafs[i][0]))]) for i in range(k)]
    exits = [ReturnBlock('E%d' % i, []) for i in range(NEXITS)]
    allnodes = conds + exits
    used = set()
    stmt = None
    for i, (t, f) in enumerate(table):
        tt, ff = allnodes[t], allnodes[f]
        if split is not None and split[0] == i:
            stmt = StatementBlock('S', [])
            g.add_edge(stmt, (tt, ff)[split[1]])
            if split[1] == 0:
                tt = stmt
            else:
                ff = stmt
        conds[i].true = tt
        conds[i].false = ff
        g.add_edge(conds[i], tt)
        g.add_edge(conds[i], ff)
        used.update((t, f))
    for i, x in enumerate(allnodes):
        if i < k or i in used:
            g.add_node(x)
    if stmt is not None:
        g.add_node(stmt)
    g.entry = conds[0]
    return g


def check_instance(ctx, k, table, subset, leafs, split=None):
    """subset: bit mask over the post-merge condition nodes (in graph.rpo order) that get neg()+swap."""
    from androguard.decompiler import control_flow
    from androguard.decompiler.writer import Writer
    rec = {'k': k, 'table': [list(e) for e in table], 'subset': subset, 'leafs': [list(l) for l in leafs] if leafs else None,
           'split': list(split) if split else None}
    kind = 'stub' if leafs is None else 'condz'
    try:
        g = build(k, table, leafs, split)
        g.compute_rpo()
        idom = g.immediate_dominators()
        control_flow.short_circuit_struct(g, idom, {})
        cnodes = [n for n in g.rpo if n.type.is_cond]
        merged = k - len(cnodes)
        for j, n in enumerate(cnodes):
            if subset >> j & 1:
                n.neg()
                n.true, n.false = n.false, n.true
        texts = {}
        for n in cnodes:
            w = Writer(None, None)
            n.visit_cond(w)
            texts[n] = str(w)
    except Exception:
        ctx.case(nontrivial=False, key=(kind, k, table, subset, leafs), labels=['kind:' + kind, 'exception'])
        ctx.fail('exception:%s:k%d' % (kind, k), rec, traceback.format_exc())
        return len(table)
    nsub = bin(subset).count('1')
    cyclic = any(t <= i or f <= i for i, (t, f) in enumerate(table))
    ctx.case(nontrivial=merged > 0, key=(kind, k, table, subset, leafs, split),
             labels=['kind:' + kind, 'with-statement-block' if split else 'conditions-only', 'k=%d' % k, 'merges=%d' % merged, 'negated-nodes=%d' % nsub,
                     'acyclic' if not cyclic else 'loop-through-entry' if any(0 in e for e in table) else 'with-loop'],
             sample={'k': k, 'table': rec['table'], 'negated_subset': subset, 'leafs': rec['leafs'],
                     'printed': sorted(texts.values())})
    rec['printed'] = {n.name: t for n, t in texts.items()}
    cls = '%s:merges%d:%s' % (kind, min(merged, 2), 'negswap' if nsub else 'direct')
    try:
        asts = {n: boolexpr.parse(t) for n, t in texts.items()}
    except boolexpr.ParseError as e:
        ctx.fail('unparsable:' + cls, rec, 'printed condition is not a boolean expression: %s' % e)
        return len(cnodes)
    for env, outcomes in leaf_envs(k, leafs):
        exp = walk_table(k, table, outcomes, split)
        n, visited, dangling, ran_s = g.entry, set(), None, False
        try:
            while n not in visited:
                if n.type.is_cond:
                    if n not in asts:
                        # a condition node that short_circuit_struct took out of the graph is still the target of an edge
                        dangling = n.name
                        break
                    visited.add(n)
                    n = n.true if boolexpr.eval_ast(asts[n], env) else n.false
                elif n.type.is_stmt and g.sucs(n):
                    visited.add(n)
                    ran_s = True
                    n = g.sucs(n)[0]
                else:
                    break
        except boolexpr.ParseError as e:
            ctx.fail('unparsable:' + cls, rec, 'printed condition cannot be evaluated: %s' % e)
            break
        got = ('DANGLING:' + dangling) if dangling else ('LOOP' if (n.type.is_cond or n.type.is_stmt) else n.name) + ('+S' if ran_s else '')
        if got != exp:
            rec['env'] = {a: (b if isinstance(b, bool) else int(b)) for a, b in env.items()}
            rec['expected_exit'], rec['observed_exit'] = exp, got
            ctx.fail('route:' + cls, rec, 'outcomes %r: original chain reaches %s, rewritten graph with printed conditions %r reaches %s'
                     % (env, exp, rec['printed'], got))
            break
    return len(cnodes)


def check_table(ctx, k, table, leaf_sets, all_subsets=True, split=None):
    """one edge table: every negate+swap subset (the number of post-merge nodes is learnt from the first run)"""
    for leafs in leaf_sets:
        m = check_instance(ctx, k, table, 0, leafs, split)
        subsets = range(1, 1 << m) if all_subsets else ([(1 << m) - 1] if m else [])
        for s in subsets:
            check_instance(ctx, k, table, s, leafs, split)


def leaf_rotations(k, j, count):
    """`count` operator assignments for table number j: position i gets LEAFS[(j + r + 3*i) % 8]"""
    return [tuple(LEAFS[(j + r + 3 * i) % len(LEAFS)] for i in range(k)) for r in range(count)]


# -- shards -------------------------------------------------------------------------------

NSH4 = 16


def shards(tier, seed):
    sh = [('k23', 'stub'), ('k23', 'condz', 0), ('k23', 'condz', 1)]
    sh += [('k4', j) for j in range(NSH4)]
    sh += [('cyc23', 'stub'), ('cyc23', 'condz'), ('cyc23e', 'stub'), ('split23', 0), ('split23', 1), ('split23', 2), ('split23', 3)]
    if tier == 'thorough':
        sh += [('k5', (t, f)) for t in range(1, 5 + NEXITS) for f in range(1, 5 + NEXITS)]
        sh += [('cyc4', (t, f)) for t in range(1, 4 + NEXITS) for f in range(1, 4 + NEXITS)]
    return sh


def _preimport():
    """Import everything androguard will need *before* Hypothesis starts: a module imported lazily inside the first
    generated example perturbs Hypothesis' generation, which would make a shard depend on what its worker ran before."""
    import androguard.core.dex                      # noqa: F401
    import androguard.core.analysis.analysis        # noqa: F401
    import androguard.decompiler.decompile          # noqa: F401
    import androguard.decompiler.graph              # noqa: F401
    import androguard.decompiler.dataflow           # noqa: F401
    import androguard.decompiler.control_flow       # noqa: F401
    import androguard.decompiler.writer             # noqa: F401


def run_shard(ctx, shard):
    _preimport()
    if shard[0] == 'k23':
        for k in (2, 3):
            for j, table in enumerate(tables(k)):
                if shard[1] == 'stub':
                    check_table(ctx, k, table, [None])
                else:
                    rots = leaf_rotations(k, j, 8)
                    check_table(ctx, k, table, rots[shard[2]::2])
    elif shard[0] == 'k4':
        for j, table in enumerate(tables(4)):
            if j % NSH4 == shard[1]:
                check_table(ctx, 4, table, [None])
    elif shard[0] == 'k5':
        for table in tables(5, first=shard[1]):
            check_table(ctx, 5, table, [None], all_subsets=False)
    elif shard[0] == 'cyc23e':
        for k in (2, 3):
            for table in tables_cyclic(k, entry_pred=True):
                check_table(ctx, k, table, [None])
    elif shard[0] == 'split23':
        # every chain (acyclic, with loops, with loops through the entry) with one edge between two conditions routed
        # through a statement block: loop bodies and blocks between tests
        j = 0
        for k in (2, 3):
            for tabs in (tables(k), tables_cyclic(k), tables_cyclic(k, entry_pred=True)):
                for table in tabs:
                    for i, (t, f) in enumerate(table):
                        for side, tgt in ((0, t), (1, f)):
                            if tgt < k:
                                j += 1
                                if j % 4 == shard[1]:
                                    check_table(ctx, k, table, [None], split=(i, side))
    elif shard[0] == 'cyc23':
        for k in (2, 3):
            for j, table in enumerate(tables_cyclic(k)):
                check_table(ctx, k, table, [None] if shard[1] == 'stub' else leaf_rotations(k, j, 2))
    else:
        for table in tables_cyclic(4, first=shard[1]):
            check_table(ctx, 4, table, [None], all_subsets=False)


def replay(ctx, case):
    leafs = tuple(tuple(l) for l in case['leafs']) if case.get('leafs') else None
    check_instance(ctx, case['k'], tuple(tuple(e) for e in case['table']), case['subset'], leafs,
                   tuple(case['split']) if case.get('split') else None)
