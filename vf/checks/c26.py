"""C26 - binary XML is converted to the XML tree it encodes.

Generator: vf/gen/axmlgen.py (independent ResXMLTree writer): random element trees, UTF-8 and UTF-16 pools (1-byte and
2-byte / 1-word and 2-word length prefixes), 0..3 namespace declarations per element (nested, re-declared, shadowing),
attributes of every specified value type with or without a raw-value string, resource-id maps (platform attribute ids
with the real or a blanked pool name, application ids), text as sole content of leaves; mixed content (text chunks
between child elements, consecutive text chunks) as a separately labelled class.
Domain restrictions that keep androguard's documented repairs out of play: element/attribute names in
[A-Za-z_][A-Za-z0-9._-]* (no colon), ASCII NCName prefixes, syntactically valid ASCII URIs without blanks, non-empty
prefixes and URIs, every used URI declared in scope, text and string values made of XML 1.0 Chars only (no NUL), unique
(namespace, name) per element, resource ids consistent with the pool name.

Oracle: the lxml tree from AXMLPrinter.get_xml_obj() must have, element by element, the tag '{uri}name', exactly the
expected attribute keys, each value conforming to vf/model/res_format.py for its declared type, the text/tail strings of
the XML infoset of the chunk sequence, and the in-scope prefix->URI map (a prefix that is declared twice in scope
with different URIs is bound to the innermost one). get_xml(pretty=False) and get_xml() re-parsed by lxml must give the same tree
(indentation added by pretty printing is ignored where no text is expected).
"""
import glob
import os
import re
import traceback

from vf.core.runner import hyp_collect, HarnessError, Ctx, unhex
from vf.gen import axmlgen as G
from vf.model import res_format as R

PROPERTY = 'C26'
LEVEL = 'exploration'
RULE = ('random documents from vf/gen/axmlgen.documents(): depth <= 3 (quick) / 4, <= 3 children, <= 5 attributes per element, '
        'pool encoding, long-length strings, namespace re-declaration/shadowing, resource maps and mixed content drawn per '
        'document; each is serialised, parsed with AXMLPrinter and compared with the tree computed from the model. '
        'non-trivial = depth >= 2 and a namespaced attribute and >= 3 distinct value types; distinct = document bytes')
ASSUMPTIONS = ['vf/gen/axmlgen.py follows ResourceTypes.h; its strict reader consumes the shipped well-formed manifests byte-exactly '
               'and its platform attribute-id table agrees with the resource maps of the shipped aapt-built files (self-test shard)',
               'attribute values are judged with vf/model/res_format.py (see C27 for its tolerance)',
               'generator stays inside names/prefixes/URIs/characters that androguard does not sanitise (_fix_name, _fix_value, '
               'nsmap clean-up); comments and style spans are not generated',
               'UTF-8 pools hold standard UTF-8 (4-byte form for supplementary characters, as ResStringPool decodes it)']
EXHAUSTIVE = False

_AUTO_PREFIX = re.compile(r'^ns\d+$')
_INV_ATTR = {v: k for k, v in G.ANDROID_ATTR_IDS.items()}


# ---------------------------------------------------------------------------------------------------
# expected tree from the model (no androguard involved)

def attr_name(a):
    if a.name == '' and a.resid is not None:
        return _INV_ATTR[a.resid]
    return a.name


def qname(ns, name):
    return '{%s}%s' % (ns, name) if ns else name


def expected_tree(e, scope=()):
    """-> dict(tag, attrs {key: (type, data, string)}, text, kids [(subtree, tail)], nsmap, shadowed)"""
    sc = list(scope) + list(e.nsdecls)
    nsmap, all_uris = {}, {}
    for (p, u) in sc:
        nsmap[p] = u
        all_uris.setdefault(p, set()).add(u)
    shadowed = {p: sorted(us) for p, us in all_uris.items() if len(us) > 1}
    declared = {}
    for (p, u) in sc:
        declared.setdefault(u, set()).add(p)
    text, kids = '', []
    for c in e.children:
        if isinstance(c, G.Element):
            kids.append([expected_tree(c, sc), ''])
        elif kids:
            kids[-1][1] += c
        else:
            text += c
    attrs = {}
    for a in e.attrs:
        attrs[qname(a.ns, attr_name(a))] = (a.type, a.data, a.raw if a.type == G.TYPE_STRING else None)
    return {'tag': qname(e.ns, e.name), 'attrs': attrs, 'text': text, 'kids': kids, 'nsmap': nsmap, 'shadowed': shadowed, 'declared': declared,
            'mixed': any(isinstance(c, str) for c in e.children) and (bool(kids) or sum(isinstance(c, str) for c in e.children) > 1)}


def _strclass(s):
    return ':bom' if s.startswith('\ufeff') else ''


def compare(ctx, exp, el, case, where, pretty=False, path='/', stats=None):
    """exp: expected_tree dict; el: lxml element. Reports mismatches (and counts them in stats[0])."""
    def bad(bucket, msg):
        if stats is not None:
            stats[0] += 1
        ctx.fail('%s:%s' % (where, bucket), case, 'at %s%s: %s' % (path, exp['tag'], msg))

    if el.tag != exp['tag']:
        bad('tag', 'tag %r, expected %r' % (el.tag, exp['tag']))
        return
    got_attr = dict(el.attrib)
    if set(got_attr) != set(exp['attrs']):
        bad('attr-names', 'attribute names %r, expected %r' % (sorted(got_attr), sorted(exp['attrs'])))
    for k, (t, d, s) in exp['attrs'].items():
        if k in got_attr:
            spec = R.expected(t, d, s)
            ok, why = R.matches(spec, got_attr[k])
            if not ok:
                bad('attr-value:%s%s' % (R.TYPE_NAMES.get(t, 'undefined-type'), _strclass(s) if s is not None else ''),
                    'attribute %s (type 0x%02x data 0x%08x) = %r; %s' % (k, t, d, got_attr[k], why))

    def same_text(got, want):
        got = got or ''
        if got == want:
            return True
        return pretty and want == '' and got.strip(' \n\t') == ''
    kind = 'mixed' if exp['mixed'] else 'leaf'
    if not same_text(el.text, exp['text']):
        bad('text:%s%s' % (kind, _strclass(exp['text'])), 'text %r, expected %r' % (el.text, exp['text']))
    # namespace map in scope: (i) every prefix lxml shows here is declared in scope in the model and bound to the URI of its
    # innermost declaration (one tolerance, below); (ii) every URI that is in scope is still bound by some prefix. (lxml itself drops a second
    # prefix for a URI that an ancestor already binds, and invents ns<N> prefixes for URIs it finds no prefix for.)
    got_ns = {p: u for p, u in el.nsmap.items() if not (p is not None and _AUTO_PREFIX.match(p) and p not in exp['nsmap'])}
    for p, u in got_ns.items():
        if p not in exp['nsmap']:
            bad('nsmap', 'prefix %r (-> %r) is not in scope here; in-scope declarations %r' % (p, u, exp['nsmap']))
        elif u != exp['nsmap'][p]:
            want = exp['nsmap'][p]
            # lxml drops the declaration (p, want) when another prefix in scope already binds `want`; p then keeps
            # showing the outer declaration it re-binds. Nothing else may change what a prefix is bound to.
            # (The other declaration of `want` may itself be shadowed at this depth -- <a xmlns:p=T xmlns:n=X><b xmlns:p=U>
            # <c xmlns:n=T/></b></a>: libxml2 still finds T declared up the tree and drops n=T; the names, which are
            # compared by URI, are unaffected. The statement fixes URIs and names, not which prefix spells them.)
            dropped_by_lxml = (p in exp['shadowed'] and u in exp['shadowed'][p] and
                               (any(q != p and exp['nsmap'][q] == want and got_ns.get(q) == want for q in exp['nsmap']) or
                                any(q != p for q in exp['declared'].get(want, ()))))
            if not dropped_by_lxml:
                bad('nsmap', 'prefix %r -> %r, expected %r%s' % (p, u, want,
                    ' (the prefix is re-bound: declarations in scope %r)' % exp['shadowed'][p] if p in exp['shadowed'] else ''))
    bound = set(el.nsmap.values())
    for p, u in exp['nsmap'].items():
        if u not in bound:
            bad('nsmap', 'URI %r (declared with prefix %r) is not bound here: %r' % (u, p, el.nsmap))
    kids = [c for c in el if isinstance(c.tag, str)]
    if len(kids) != len(exp['kids']):
        bad('children', '%d child elements %r, expected %d' % (len(kids), [c.tag for c in kids], len(exp['kids'])))
        return
    for i, ((sub, tail), c) in enumerate(zip(exp['kids'], kids)):
        if not same_text(c.tail, tail):
            bad('tail:mixed%s' % _strclass(tail), 'text after child %d (%s) is %r, expected %r' % (i, sub['tag'], c.tail, tail))
        compare(ctx, sub, c, case, where, pretty, path + exp['tag'] + '/', stats)


# ---------------------------------------------------------------------------------------------------

def doc_features(doc):
    depth = 0
    types, nsattr, mixed, shadow, redecl, blank, resmap, bom, nonbmp = set(), False, False, False, False, False, False, False, False
    long8 = long16 = long16hi = False

    def strings_of(e):
        for a in e.attrs:
            if a.raw is not None:
                yield a.raw
        for c in e.children:
            if isinstance(c, str):
                yield c

    def walk(e, d, scope):
        nonlocal depth, nsattr, mixed, shadow, redecl, blank, resmap, bom, nonbmp, long8, long16, long16hi
        depth = max(depth, d)
        for (p, u) in e.nsdecls:
            for (p0, u0) in scope:
                if p0 == p and u0 != u:
                    shadow = True
                if (p0, u0) == (p, u) or (u0 == u and p0 != p):
                    redecl = True
        for a in e.attrs:
            types.add(a.type)
            nsattr = nsattr or a.ns is not None
            resmap = resmap or a.resid is not None
            blank = blank or (a.resid is not None and a.name == '')
        nstr = sum(isinstance(c, str) for c in e.children)
        if nstr and (nstr > 1 or len(e.children) > nstr):
            mixed = True
        for s in strings_of(e):
            bom = bom or s.startswith('\ufeff')
            nonbmp = nonbmp or any(ord(ch) > 0xFFFF for ch in s)
            if doc.utf8 and (len(s.encode('utf-8')) > 0x7F or G.utf16_units(s) > 0x7F):
                long8 = True
            if not doc.utf8 and G.utf16_units(s) > 0x7FFF:
                long16 = True
            if not doc.utf8 and G.utf16_units(s) > 0xFFFF:
                long16hi = True
        for c in e.children:
            if isinstance(c, G.Element):
                walk(c, d + 1, scope + e.nsdecls)
    walk(doc.root, 1, [])
    labels = ['pool:utf8' if doc.utf8 else 'pool:utf16', 'depth:%d' % depth]
    for flag, name in ((nsattr, 'ns-attribute'), (mixed, 'mixed-content'), (shadow, 'ns:shadowing'), (redecl, 'ns:redeclared'),
                       (G.has_rebind_keeping_uri(doc), 'ns:rebind-keeping-uri'), (resmap, 'resmap'), (blank, 'resmap:blank-name'), (bom, 'string:leading-U+FEFF'),
                       (nonbmp, 'string:non-bmp'), (long8, 'len:utf8-2byte'), (long16, 'len:utf16-2word'), (long16hi, 'len:utf16-2word-high'),
                       (any(e.nsdecls for e in doc.root.walk()), 'ns:declared'),
                       (any(isinstance(c, str) for e in doc.root.walk() for c in e.children), 'text')):
        if flag:
            labels.append(name)
    labels += ['type:' + R.TYPE_NAMES.get(t, 'undefined') for t in sorted(types)]
    nontrivial = depth >= 2 and nsattr and len(types) >= 3
    return nontrivial, labels


def check_bytes(ctx, doc, data, count=True):
    from androguard.core.axml import AXMLPrinter
    from lxml import etree
    model = G.to_json(doc)
    case = {'axml': data, 'model': model}
    if count:
        nt, labels = doc_features(doc)
        if doc.meta.get('sorted_flag_set'):
            labels = labels + ['pool:sorted-flag']
        ctx.case(nontrivial=nt, key=data, labels=labels,
                 sample={'bytes': len(data), 'utf8': doc.utf8, 'root': doc.root.name,
                         'elements': sum(1 for _ in doc.root.walk()), 'labels': labels[:12]})
    exp = expected_tree(doc.root)
    try:
        ap = AXMLPrinter(data)
        root = ap.get_xml_obj()
    except Exception as e:
        ctx.fail('exception:%s:AXMLPrinter' % type(e).__name__, case, traceback.format_exc())
        return
    if not ap.is_valid() or root is None:
        ctx.fail('rejected', case, 'AXMLPrinter.is_valid()=%r root=%r on a well-formed document' % (ap.is_valid(), root))
        return
    stats = [0]
    compare(ctx, exp, root, case, 'obj', stats=stats)
    if stats[0]:
        return              # the object tree is already wrong: the serialised form would only repeat it
    for pretty in (False, True):
        where = 'xml-pretty' if pretty else 'xml'
        try:
            text = ap.get_xml(pretty=pretty) if not pretty else ap.get_xml()
            re_root = etree.fromstring(text)
        except Exception as e:
            ctx.fail('exception:%s:%s' % (type(e).__name__, where), case, traceback.format_exc())
            continue
        compare(ctx, exp, re_root, case, where, pretty=pretty)


def check_doc(ctx, doc):
    check_bytes(ctx, doc, G.build(doc))


# ---------------------------------------------------------------------------------------------------

def selftest(ctx):
    """Trusted-base validation (not part of the oracle): the strict reader derived from the writer consumes shipped
    well-formed files to the last byte, rebuilt files read back identically, and the attribute-id table agrees with the
    (name, id) pairs in aapt-built resource maps."""
    repo = os.environ.get('VERIF_REPO', '/repo')
    files = sorted(glob.glob(os.path.join(repo, 'tests/data/AXML/*.xml')))
    ok, pairs = 0, {}
    for f in files:
        with open(f, 'rb') as fh:
            d = fh.read()
        try:
            doc = G.parse(d)
        except G.AxmlFormatError:
            continue            # deliberately broken samples
        ok += 1
        doc2 = G.parse(G.build(doc))
        doc.extra_strings, doc2.extra_strings = [], []
        if doc != doc2:
            raise HarnessError('axmlgen self-test: %s does not survive parse->build->parse' % f)
        for e in doc.root.walk():
            for a in e.attrs:
                if a.resid is not None and a.name:
                    pairs.setdefault(a.name, set()).add(a.resid)
    if files and ok < 10:
        raise HarnessError('axmlgen self-test: strict reader accepted only %d of %d shipped AXML files' % (ok, len(files)))
    confirmed = 0
    for name, rid in G.ANDROID_ATTR_IDS.items():
        seen = {r for r in pairs.get(name, ()) if r >> 24 == 1}
        if seen and seen != {rid}:
            raise HarnessError('axmlgen self-test: attribute %r has id %r in shipped files, table says 0x%08x' % (name, seen, rid))
        confirmed += bool(seen)
    ctx.count('selftest_shipped_files_read', ok)
    ctx.count('selftest_attr_ids_confirmed', confirmed)


# ---------------------------------------------------------------------------------------------------
# open finding: rebound-prefix. AXMLPrinter hands lxml the complete in-scope prefix map for every element; when the element
# is appended, lxml drops declarations whose URI the parent already binds and re-targets the names to the parent's prefix -
# also when the element itself re-binds that very prefix. The serialised XML then puts names into the wrong namespace.

def probe_document():
    """<r xmlns:p="urn:a:one"><x xmlns:q="urn:a:one" xmlns:p="urn:b:two" q:k="v"/></r>"""
    x = G.Element(None, 'x', [G.Attr('urn:a:one', 'k', G.TYPE_STRING, 0, 'v')], nsdecls=[('q', 'urn:a:one'), ('p', 'urn:b:two')])
    return G.Document(G.Element(None, 'r', [], [x], nsdecls=[('p', 'urn:a:one')]))


def redeclares_under_shadowed_prefix(doc):
    """Second shape of the same finding: an element declares (p, T) although T is already declared further up the tree
    under another prefix q that is *shadowed* at this element (q re-bound in between or on the element itself), e.g.
    <a xmlns:q="T"><b xmlns:q="U"><c xmlns:p="T"/></b></a>. libxml2 finds T declared up the tree and drops p=T; at <c> the
    URI T is then bound by no visible prefix (lxml writes the name with q, which means U there)."""
    def walk(e, stack):
        vis = {}
        for (p, u) in stack + list(e.nsdecls):
            vis[p] = u
        for (p, t) in e.nsdecls:
            for (q, u) in stack:
                if u == t and q != p and vis.get(q) != t:
                    return True
        return any(walk(c, stack + list(e.nsdecls)) for c in e.children if isinstance(c, G.Element))
    return walk(doc.root, [])


def match_rebound_prefix(bucket, case, msg):
    """Only namespace-binding clauses (nsmap / tag / attribute names), and only on documents in which some element
    re-binds a visible prefix while the URI the prefix was bound to stays in scope under another prefix."""
    parts = bucket.split(':')
    if len(parts) < 2 or parts[0] not in ('obj', 'xml', 'xml-pretty') or parts[1] not in ('nsmap', 'tag', 'attr-names'):
        return False
    try:
        doc = G.from_json(case['model'])
        return G.has_rebind_keeping_uri(doc) or redeclares_under_shadowed_prefix(doc)
    except (KeyError, TypeError, ValueError):
        return False


MATCHERS = {'rebound_prefix': match_rebound_prefix}


def failing_buckets(doc):
    sub = Ctx(PROPERTY, 'quick', 0, 0)
    check_bytes(sub, doc, G.build(doc), count=False)
    return set(sub.failures)


def rebound_prefix_still_fails():
    doc = probe_document()
    return any(match_rebound_prefix(b, {'model': G.to_json(doc)}, '') for b in failing_buckets(doc))


# ---------------------------------------------------------------------------------------------------
# bounded, deterministic minimisation on the model (Hypothesis' own shrinker needs minutes on 64 KiB strings)

def _variants(doc):
    """smaller candidate documents, most drastic first"""
    def clone():
        return G.from_json(G.to_json(doc))
    n = sum(1 for _ in doc.root.walk())
    for i, e in enumerate(doc.root.walk()):          # promote a child element to root
        if i:
            d = clone()
            sub = list(d.root.walk())[i]
            yield G.Document(sub, d.utf8)
    if doc.extra_strings or doc.pre_strings:
        d = clone()
        d.extra_strings, d.pre_strings = [], []
        yield d
    for i in range(n):
        e = list(doc.root.walk())[i]
        for j in range(len(e.children)):
            d = clone()
            del list(d.root.walk())[i].children[j]
            yield d
        for j in range(len(e.attrs)):
            d = clone()
            del list(d.root.walk())[i].attrs[j]
            yield d
        for j in range(len(e.nsdecls)):
            d = clone()
            del list(d.root.walk())[i].nsdecls[j]
            yield d
        for j, c in enumerate(e.children):
            if isinstance(c, str) and c:
                for repl in ('', c[:1], c[:len(c) // 2], c[1:]):
                    if repl != c:
                        d = clone()
                        list(d.root.walk())[i].children[j] = repl
                        yield d
        for j, a in enumerate(e.attrs):
            if a.raw:
                for repl in ((None,) if a.type != G.TYPE_STRING else ()) + ('', a.raw[:1], a.raw[:len(a.raw) // 2], a.raw[1:]):
                    if repl != a.raw:
                        d = clone()
                        list(d.root.walk())[i].attrs[j].raw = repl
                        yield d
            if a.resid is not None and a.name:
                d = clone()
                list(d.root.walk())[i].attrs[j].resid = None
                yield d
        if e.line != 1:
            d = clone()
            list(d.root.walk())[i].line = 1
            yield d
    if doc.utf8:
        d = clone()
        d.utf8 = False
        yield d


def minimise(doc, bucket, allow_rebind, budget_s=12.0, max_checks=600):
    import time
    t0, checks = time.time(), 0
    progress = True
    while progress:
        progress = False
        for cand in _variants(doc):
            if time.time() - t0 > budget_s or checks >= max_checks:
                return doc
            if not G.in_domain(cand) or (not allow_rebind and G.has_rebind_keeping_uri(cand)):
                continue
            checks += 1
            if bucket in failing_buckets(cand):
                doc, progress = cand, True
                break
    return doc


def shards(tier, seed):
    n = 12 if tier == 'quick' else 28
    sh = [('self',)]
    for k in range(n):
        sh.append(('hyp', k, 'mixed' if k % 4 == 3 else 'plain'))
    return sh


def run_shard(ctx, shard):
    if shard[0] == 'self':
        selftest(ctx)
        return
    quick = ctx.tier == 'quick'
    n = 320 if quick else 4000
    exclude = rebound_prefix_still_fails()
    strat = G.documents(max_depth=3 if quick else 4, mixed=(shard[2] == 'mixed'), long_strings=True,
                        allow_rebind_keeping_uri=not exclude)

    def fn(c, doc):
        if doc.meta.get('dropped_rebind_keeping_uri'):
            c.count('excluded_by_known_finding:rebound-prefix', doc.meta['dropped_rebind_keeping_uri'])
        if exclude and redeclares_under_shadowed_prefix(doc):
            # second shape of the open finding (re-declaration of a URI that is declared up the tree under a shadowed
            # prefix): excluded while the finding's probe still fails, and counted
            c.count('excluded_by_known_finding:rebound-prefix:shadowed-redeclaration')
            return
        check_doc(c, doc)
    before = set(ctx.failures)
    hyp_collect(ctx, strat, fn, n, salt=shard[1], shrink=False)
    for bucket in [b for b in list(ctx.failures) if b not in before]:
        size, case, msg = ctx.failures[bucket][0]
        small = minimise(G.from_json(unhex(case)['model']), bucket, allow_rebind=not exclude)
        ev, nt = ctx.evaluations, set(ctx.nontrivial)
        cnt = dict(ctx.fail_counts)
        check_bytes(ctx, small, G.build(small), count=False)         # re-record the minimal case
        ctx.evaluations, ctx.nontrivial = ev, nt
        ctx.fail_counts.clear()
        ctx.fail_counts.update(cnt)


def replay(ctx, case):
    doc = G.from_json(case['model'])
    data = case.get('axml')
    if data is None:
        data = G.build(doc)
    check_bytes(ctx, doc, data)
